------------------------------ MODULE Simplify ------------------------------
(* Beyond the listed statements, mechanism of C10/C11's checkpoint clauses:  *)
(* Polygon::simplify() (libavoid/geomtypes.cpp), which merges collinear      *)
(* segments of a route and re-indexes the route's checkpoint cache           *)
(* (Polygon::checkpointsOnRoute, built by buildConnectorRouteCheckpointCache *)
(* in scanline.cpp and read by the nudging code through                      *)
(* checkpointsOnSegment()).  A cache entry is <<value, point>>: value 2i     *)
(* says "the checkpoint is vertex i of the route", value 2i+1 says "it lies  *)
(* inside the segment from vertex i to vertex i+1" (vertices 0-based, as in  *)
(* the code).  Nudging calls simplify() while the cache is live              *)
(* (buildOrthogonalNudgingOrderInfo, after the unifying pass has made        *)
(* segments collinear), so a wrong re-indexing makes nudging look for a      *)
(* checkpoint on the wrong segment.                                          *)
(*                                                                           *)
(*  design level : the loop of simplify() as a state machine, one action per *)
(*                 iteration (Keep / Drop), with the re-indexing rule as     *)
(*                 written in the code (FIX = FALSE: the deleted vertex's    *)
(*                 value is computed as (j-1)-1) or as its comment and       *)
(*                 diagram describe (FIX = TRUE: 2(j-1)).  Invariant Post:   *)
(*                 at termination the declarative postcondition below holds. *)
(*  generator    : the instance set, written out for the harness (B1)        *)
(*  records      : the cache buildConnectorRouteCheckpointCache() builds for   *)
(*                 the instance's route and points (must be the instance's   *)
(*                 cache: CacheOf is the specification of the builder), and  *)
(*                 what the real Polygon::simplify() returned for every      *)
(*                 instance, judged by the same postcondition (B2)           *)
EXTENDS Integers, Sequences, FiniteSets, FiniteSetsExt, SequencesExt, TLC, Json, IOUtils

CONSTANTS LEGS,      \* staircase routes of 1..LEGS unit legs (each 2 lattice units long), directions E and N
          GLEGS,     \* self-avoiding routes of 1..GLEGS unit legs in all four directions (U- and S-shapes, spirals)
          MAXCP,     \* at most MAXCP checkpoints per route
          FIX        \* design level only: TRUE = re-indexing as the comment describes, FALSE = as the code computed it before the repair

Cross(a, b, c) == (b[1] - a[1]) * (c[2] - a[2]) - (b[2] - a[2]) * (c[1] - a[1])
Btw(u, v, x) == (u <= x /\ x <= v) \/ (v <= x /\ x <= u)
OnSeg(a, b, p) == Cross(a, b, p) = 0 /\ Btw(a[1], b[1], p[1]) /\ Btw(a[2], b[2], p[2])

\* ---- instances ------------------------------------------------------------
Step(d) == CASE d = 0 -> <<2, 0>> [] d = 1 -> <<0, 2>> [] d = 2 -> <<-2, 0>> [] OTHER -> <<0, -2>>
RECURSIVE Walk(_, _)
Walk(p, ds) == IF ds = <<>> THEN <<p>> ELSE <<p>> \o Walk(<<p[1] + Step(Head(ds))[1], p[2] + Step(Head(ds))[2]>>, Tail(ds))
Staircases == UNION {{Walk(<<0, 0>>, ds) : ds \in [1..n -> {0, 1}]} : n \in 1..LEGS}
\* distinct lattice points joined by unit legs: a simple curve (a leg meets other legs only in lattice points)
SelfAvoiding == {w \in UNION {{Walk(<<0, 0>>, ds) : ds \in [1..n -> 0..3]} : n \in 1..GLEGS} : Cardinality({w[i] : i \in DOMAIN w}) = Len(w)}
Routes == Staircases \cup SelfAvoiding
\* the point a cache value denotes on route P (1-based sequence, 0-based values)
PointOf(P, v) == IF v % 2 = 0 THEN P[v \div 2 + 1]
                 ELSE LET a == P[(v - 1) \div 2 + 1]  b == P[(v + 1) \div 2 + 1] IN <<(a[1] + b[1]) \div 2, (a[2] + b[2]) \div 2>>
CacheOf(P, vs) == LET sq == SetToSortSeq(vs, <) IN [i \in DOMAIN sq |-> <<sq[i], PointOf(P, sq[i])[1], PointOf(P, sq[i])[2]>>]
Instances == UNION {{[ps |-> P, cps |-> CacheOf(P, vs)] : vs \in UNION {kSubset(k, 0..(2 * (Len(P) - 1))) : k \in 0..MAXCP}} : P \in Routes}

\* ---- what simplify() must return -------------------------------------------
IsBend(P, i) == i = 1 \/ i = Len(P) \/ Cross(P[i - 1], P[i], P[i + 1]) # 0
Expected(P) == LET keep == SetToSortSeq({i \in DOMAIN P : IsBend(P, i)}, <) IN [k \in DOMAIN keep |-> P[keep[k]]]
IsVertex(Q, pt) == \E i \in DOMAIN Q : Q[i] = pt
\* cq = cache after, cp = cache before: same checkpoints in the same order, every value denotes the place of its point on Q
CacheOK(Q, cp, cq) ==
    /\ Len(cq) = Len(cp)
    /\ \A i \in DOMAIN cq :
          LET v == cq[i][1]  pt == <<cq[i][2], cq[i][3]>> IN
          /\ pt = <<cp[i][2], cp[i][3]>>
          /\ v >= 0 /\ v <= 2 * (Len(Q) - 1)
          /\ IF v % 2 = 0 THEN Q[v \div 2 + 1] = pt
             ELSE OnSeg(Q[(v - 1) \div 2 + 1], Q[(v + 1) \div 2 + 1], pt) /\ ~IsVertex(Q, pt)
PostOK(inst, Q, cq) == Q = Expected(inst.ps) /\ CacheOK(Q, inst.cps, cq)
\* Polygon::checkpointsOnSegment(s, m) on route Q with cache cq (s 0-based): the checkpoints lying on the closed segment from vertex s to
\* vertex s+1, in cache order, without those at the start vertex when m > 0 and without those at the end vertex when m < 0.
\* Stated on the *points* (geometry), not on the cache values the code compares.
OnSegmentExpected(Q, cq, s, m) ==
    LET a == Q[s + 1]  b == Q[s + 2]
        pts == [i \in DOMAIN cq |-> <<cq[i][2], cq[i][3]>>]
    IN  SelectSeq(pts, LAMBDA pt : OnSeg(a, b, pt) /\ (m > 0 => pt # a) /\ (m < 0 => pt # b))
\* cos = what the real function returned: <<s, m, points>> for every segment and m in -1..1
OnSegmentOK(Q, cq, cos) ==
    /\ {<<c[1], c[2]>> : c \in {cos[i] : i \in DOMAIN cos}} = (0..(Len(Q) - 2)) \X (-1..1)
    /\ \A i \in DOMAIN cos : cos[i][3] = OnSegmentExpected(Q, cq, cos[i][1], cos[i][2])

\* ---- design level: the loop ------------------------------------------------
VARIABLES inst, ps, cps, j, pc, k, bad
vars == <<inst, ps, cps, j, pc, k, bad>>
DInit == inst \in Instances /\ ps = inst.ps /\ cps = inst.cps /\ j = 2 /\ pc = "loop" /\ k = 0 /\ bad = {}
\* j is the code's 0-based loop variable; the triple ps[j-2], ps[j-1], ps[j] of the code is ps[j-1], ps[j], ps[j+1] here
Deleted == IF FIX THEN 2 * (j - 1) ELSE (j - 1) - 1
Remap(c) == IF c[1] = Deleted THEN <<c[1] - 1, c[2], c[3]>> ELSE IF c[1] > Deleted THEN <<c[1] - 2, c[2], c[3]>> ELSE c
Drop == /\ pc = "loop" /\ j < Len(ps) /\ Cross(ps[j - 1], ps[j], ps[j + 1]) = 0
        /\ ps' = [i \in 1..(Len(ps) - 1) |-> IF i < j THEN ps[i] ELSE ps[i + 1]]
        /\ cps' = [i \in DOMAIN cps |-> Remap(cps[i])]
        /\ UNCHANGED <<inst, j, pc, k, bad>>
Keep == /\ pc = "loop" /\ j < Len(ps) /\ Cross(ps[j - 1], ps[j], ps[j + 1]) # 0
        /\ j' = j + 1 /\ UNCHANGED <<inst, ps, cps, pc, k, bad>>
Return == /\ pc = "loop" /\ j >= Len(ps) /\ pc' = "done" /\ UNCHANGED <<inst, ps, cps, j, k, bad>>
DNext == Drop \/ Keep \/ Return
DSpec == DInit /\ [][DNext]_vars
Post == pc = "done" => PostOK(inst, ps, cps)

\* ---- generator (B1) ----------------------------------------------------------
GenInit == /\ JsonSerialize(IOEnv.SIMPGEN, SetToSeq(Instances))
           /\ inst = [ps |-> <<>>, cps |-> <<>>] /\ ps = <<>> /\ cps = <<>> /\ j = 0 /\ pc = "gen" /\ k = Cardinality(Instances) /\ bad = {}
GenSpec == GenInit /\ [][UNCHANGED vars]_vars

\* ---- records (B2) ------------------------------------------------------------
Data == JsonDeserialize(IOEnv.SIMPRECS)
Recs == Data.recs
CH == Data.chunk
NChunks == (Len(Recs) + CH - 1) \div CH
Idx(kk) == {i \in (kk * CH + 1)..((kk + 1) * CH) : i <= Len(Recs)}
RInit == /\ k \in 0..(NChunks - 1) /\ pc = "todo" /\ bad = {} /\ j = 0
         /\ inst = [ps |-> <<>>, cps |-> <<>>] /\ ps = <<>> /\ cps = <<>>
REval == /\ pc = "todo" /\ pc' = "judged" /\ UNCHANGED <<inst, ps, cps, j, k>>
         /\ bad' = {<<i, 1>> : i \in {i \in Idx(k) : Recs[i].qs # Expected(Recs[i].ps)}}          \* 1: wrong route
                    \cup {<<i, 2>> : i \in {i \in Idx(k) : Recs[i].qs = Expected(Recs[i].ps)           \* 2: right route, cache mis-indexed
                                                          /\ ~CacheOK(Recs[i].qs, Recs[i].cps, Recs[i].cq)}}
                    \cup {<<i, 4>> : i \in {i \in Idx(k) : Recs[i].built # Recs[i].cps \/ Recs[i].cleared # 0}}   \* 4: the library's own cache builder
                    \cup {<<i, 3>> : i \in {i \in Idx(k) : Recs[i].qs = Expected(Recs[i].ps) /\ CacheOK(Recs[i].qs, Recs[i].cps, Recs[i].cq)
                                                          /\ ~OnSegmentOK(Recs[i].qs, Recs[i].cq, Recs[i].cos)}}   \* 3: checkpointsOnSegment wrong
         /\ PrintT(<<"STAT", "simp", k, Cardinality({i \in Idx(k) : Len(Recs[i].qs) < Len(Recs[i].ps) /\ Len(Recs[i].cps) > 0})>>)
RSpec == RInit /\ [][REval]_vars
AllOK == bad = {}
=============================================================================
