SPECIFICATION Spec
INVARIANT TableAgrees
CHECK_DEADLOCK FALSE
