SPECIFICATION Spec
CONSTRAINT Below
INVARIANT Admissible
CHECK_DEADLOCK FALSE
