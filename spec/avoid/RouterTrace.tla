----------------------------- MODULE RouterTrace -----------------------------
(* B2 for C06: the sequence of API calls made on a live Router, with the    *)
(* scene the code reports (ShapeRef::polygon() of every live shape) after   *)
(* every processing point, validated against RouterApi.  A history whose    *)
(* reported scene differs from the specification's is rejected.             *)
EXTENDS RouterApi, Json, IOUtils
TraceLog == ndJsonDeserialize(IOEnv.ROUTERTRACE)
VARIABLE l
tvars == <<vars, l>>
Line == TraceLog[l]
IsEv(e) == l <= Len(TraceLog) /\ TraceLog[l].e = e /\ l' = l + 1
SceneOf(lst) == [s \in ShapeIds |-> IF \E i \in DOMAIN lst : lst[i][1] = s
                                    THEN LET q == lst[CHOOSE i \in DOMAIN lst : lst[i][1] = s] IN <<q[2], q[3], q[4], q[5]>>
                                    ELSE NoRect]
\* if the code reported a scene after this call, it must be the specification's
Reported == IF ~Line.rep THEN TRUE ELSE (queue' = <<>> /\ scene' = SceneOf(Line.scene))
TInit == /\ l = 1 /\ scene = [s \in ShapeIds |-> NoRect] /\ own = [s \in ShapeIds |-> NoRect] /\ want = [s \in ShapeIds |-> NoRect]
         /\ ends = [c \in ConnIds |-> IF c = 1 THEN <<<<1, 7>>, <<13, 7>>>> ELSE <<<<7, 1>>, <<7, 13>>>>] /\ wantEnds = ends
         /\ queue = <<>> /\ txn = TRUE /\ steps = 0 /\ am = [s \in ShapeIds |-> 0]
TrReset == /\ IsEv("Reset") /\ scene' = [s \in ShapeIds |-> NoRect] /\ own' = scene' /\ want' = scene'
           /\ ends' = [c \in ConnIds |-> IF c = 1 THEN <<<<1, 7>>, <<13, 7>>>> ELSE <<<<7, 1>>, <<7, 13>>>>] /\ wantEnds' = ends'
           /\ queue' = <<>> /\ txn' = TRUE /\ steps' = 0 /\ am' = [s \in ShapeIds |-> 0]
TrAdd    == IsEv("Add") /\ AddShape(Line.s, <<Line.r[1], Line.r[2], Line.r[3], Line.r[4]>>) /\ Reported
TrMove   == IsEv("Move") /\ MoveRel(Line.s, <<Line.d[1], Line.d[2]>>) /\ Reported
TrResize == IsEv("Resize") /\ MoveAbs(Line.s, <<Line.r[1], Line.r[2], Line.r[3], Line.r[4]>>) /\ Reported
TrDelete == IsEv("Delete") /\ DeleteShape(Line.s) /\ Reported
TrEnd    == IsEv("End") /\ MoveEnd(Line.c, Line.end + 1, <<Line.p[1], Line.p[2]>>) /\ Reported
TrProc   == IsEv("Process") /\ Process /\ Reported
TrTxn    == IsEv("SetTxn") /\ SetTxn(Line.b)
TNext == TrReset \/ TrAdd \/ TrMove \/ TrResize \/ TrDelete \/ TrEnd \/ TrProc \/ TrTxn
TraceSpec == TInit /\ [][TNext]_tvars
Track == TLCSet(1, IF TLCGet(1) > l THEN TLCGet(1) ELSE l)
Accepted == TLCGet(1) = Len(TraceLog) + 1
ASSUME TLCSet(1, 0)
=============================================================================
