SPECIFICATION Spec
CONSTRAINT Cheaper
INVARIANTS ValidRoute NoShorterRoute
CHECK_DEADLOCK FALSE
