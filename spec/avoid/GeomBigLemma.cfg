SPECIFICATION LemmaSpec
INVARIANT TableAgrees
CHECK_DEADLOCK FALSE
