------------------------------ MODULE PolyPath ------------------------------
(* C04 (and the polyline half of C03): polyline routes in integer scenes of *)
(* separated convex obstacles.                                              *)
(*  B2  RouteOK: the recorded raw route starts/ends at the endpoints and    *)
(*      every segment is Visible -- the textbook definition (the open       *)
(*      segment meets no obstacle's open interior), from exact rational     *)
(*      clipping in Geom; nothing of libavoid's sweep or region tests.      *)
(*  B3  NoShorterRoute: refutation search over the visibility graph of      *)
(*      obstacle corners.  Lengths are intervals [lo, hi] at 2^-11          *)
(*      (integer square roots); the search keeps upper bounds, the claim    *)
(*      is the lower bound of the implementation's route, so a hit is a     *)
(*      route that is certainly cheaper.  With a segment penalty P > 0 the  *)
(*      minimum is over TAUT paths (every bend on an obstacle corner,       *)
(*      turning round that obstacle), a bend costs P, passing straight      *)
(*      through a collinear corner costs nothing.                           *)
EXTENDS Geom, TLC, Json, IOUtils
Data == JsonDeserialize(IOEnv.POLYRECS)
Recs == Data.recs         \* polys (CCW point lists), src, dst, P, route (integer points), exact
SC == 4194304             \* 2^22 : lengths carried at 2^-11
UNIT == 2048
RECURSIVE IsqrtBS(_, _, _)
IsqrtBS(n, lo, hi) == IF lo >= hi THEN lo ELSE LET m == (lo + hi + 1) \div 2 IN IF m * m <= n THEN IsqrtBS(n, m, hi) ELSE IsqrtBS(n, lo, m - 1)
Isqrt(n) == IsqrtBS(n, 0, 46340)
D2(a, b) == (a[1] - b[1]) * (a[1] - b[1]) + (a[2] - b[2]) * (a[2] - b[2])
LenLo(a, b) == Isqrt(D2(a, b) * SC)
LenHi(a, b) == LET s == LenLo(a, b) IN IF s * s = D2(a, b) * SC THEN s ELSE s + 1

Polys(k) == Recs[k].polys
Visible(k, p, q) == p # q /\ \A i \in DOMAIN Polys(k) : ~SegMeetsOpenConvex(p, q, Polys(k)[i])
Corners(k) == UNION { {Polys(k)[i][j] : j \in DOMAIN Polys(k)[i]} : i \in DOMAIN Polys(k) }
\* the two neighbours of corner c on its polygon(s)
Nbrs(k, c) == UNION { { <<Polys(k)[i][PrevIdx(Polys(k)[i], j)], Polys(k)[i][IF j = Len(Polys(k)[i]) THEN 1 ELSE j + 1]>> }
                      : <<i, j>> \in { <<i, j>> \in (DOMAIN Polys(k)) \X (1..8) : j <= Len(Polys(k)[i]) /\ Polys(k)[i][j] = c } }
\* bend u -> c -> v is taut: c is an obstacle corner and both polygon edges at c lie inside the (closed) turn
Straight(u, c, v) == Colinear(u, c, v) /\ Dot(Sub(c, u), Sub(v, c)) > 0
Taut(k, u, c, v) ==
    LET s == Orient(u, c, v)
    IN  s # 0 /\ \E nb \in Nbrs(k, c) :
            /\ Orient(u, c, nb[1]) * s >= 0 /\ Orient(c, v, nb[1]) * s >= 0
            /\ Orient(u, c, nb[2]) * s >= 0 /\ Orient(c, v, nb[2]) * s >= 0
RECURSIVE Dedup(_)
Dedup(rt) == IF Len(rt) <= 1 THEN rt ELSE IF rt[1] = rt[2] THEN Dedup(Tail(rt)) ELSE <<rt[1]>> \o Dedup(Tail(rt))
Route(k) == Dedup(Recs[k].route)
RouteOK(k) == LET rt == Route(k) IN
    /\ Recs[k].exact /\ Len(Recs[k].route) >= 2 /\ Len(rt) >= 2
    /\ rt[1] = Recs[k].src /\ rt[Len(rt)] = Recs[k].dst
    /\ \A i \in 1..(Len(rt) - 1) : Visible(k, rt[i], rt[i + 1])
BendsOf(rt) == Cardinality({i \in 2..(Len(rt) - 1) : ~Straight(rt[i - 1], rt[i], rt[i + 1])})
RECURSIVE RouteLo(_, _)
RouteLo(rt, i) == IF i >= Len(rt) THEN 0 ELSE LenLo(rt[i], rt[i + 1]) + RouteLo(rt, i + 1)
ImplLo(k) == RouteLo(Route(k), 1) + Recs[k].P * UNIT * BendsOf(Route(k))

VARIABLES k, pos, prev, gh, claim, ok
vars == <<k, pos, prev, gh, claim, ok>>
NoPt == <<-999, -999>>
Init == /\ k \in 1..Len(Recs) /\ pos = Recs[k].src /\ prev = NoPt /\ gh = 0
        /\ ok = RouteOK(k) /\ claim = IF ok THEN ImplLo(k) ELSE 0
Move(v) == /\ Visible(k, pos, v) /\ v # prev
           /\ LET bend == prev # NoPt /\ ~Straight(prev, pos, v)
              IN  /\ (Recs[k].P > 0 /\ bend) => Taut(k, prev, pos, v)
                  /\ gh' = gh + LenHi(pos, v) + (IF bend THEN Recs[k].P * UNIT ELSE 0)
           /\ pos' = v /\ prev' = pos /\ UNCHANGED <<k, claim, ok>>
Next == \E v \in Corners(k) \cup {Recs[k].dst} : Move(v)
Spec == Init /\ [][Next]_vars
Cheaper == gh + LenLo(pos, Recs[k].dst) < claim
ValidRoute == ok
NoShorterRoute == ~(pos = Recs[k].dst /\ gh < claim)
\* reachability only (the antecedent "an obstacle-free path exists" of C03): unbounded search, violated iff reachable
ReachInit == /\ k \in 1..Len(Recs) /\ pos = Recs[k].src /\ prev = NoPt /\ gh = 0 /\ ok = TRUE /\ claim = 0
ReachMove(v) == /\ Visible(k, pos, v) /\ pos' = v /\ UNCHANGED <<k, prev, gh, claim, ok>>
ReachSpec == ReachInit /\ [][\E v \in Corners(k) \cup {Recs[k].dst} : ReachMove(v)]_vars
NotReached == pos # Recs[k].dst
=============================================================================
