------------------------------ MODULE OrthoPath ------------------------------
(* C05 (and the orthogonal half of C03): orthogonal routes on integer       *)
(* scenes of separated rectangles.                                          *)
(*  B2  RouteOK: the recorded raw route is a behaviour of the unit-step     *)
(*      path model: starts/ends at the endpoints, every segment exactly     *)
(*      axis-parallel, every unit step free (a step is blocked iff its      *)
(*      midpoint lies in the open interior of a rectangle; running along a  *)
(*      side is allowed), first/last step permitted by the direction masks. *)
(*  B3  NoCheaperRoute: refutation search.  Behaviours extend any free      *)
(*      unit-step path from the source; the constraint prunes everything    *)
(*      that cannot beat the cost the specification computes for the        *)
(*      implementation's route (admissible bound: Manhattan distance);      *)
(*      reaching the destination more cheaply violates the invariant and    *)
(*      the counterexample is the cheaper route.  An optimal orthogonal     *)
(*      route exists on the integer grid (Hanan grid of integer scenes),    *)
(*      so the search is a complete oracle independent of libavoid's        *)
(*      visibility graph.                                                    *)
EXTENDS Integers, Sequences, FiniteSets, TLC, Json, IOUtils
Data == JsonDeserialize(IOEnv.ORTHRECS)
Recs == Data.recs            \* one record per (scene, connector): rects, src, dst, sd, dd, P, route (integer points)
Abs(x) == IF x < 0 THEN -x ELSE x
Sgn(x) == IF x > 0 THEN 1 ELSE IF x < 0 THEN -1 ELSE 0
Dirs == {<<1, 0>>, <<-1, 0>>, <<0, 1>>, <<0, -1>>}
None == <<0, 0>>
\* libavoid direction flags (y grows downwards): Up 1, Down 2, Left 4, Right 8
Flag(d) == IF d = <<0, -1>> THEN 1 ELSE IF d = <<0, 1>> THEN 2 ELSE IF d = <<-1, 0>> THEN 4 ELSE 8
HasFlag(mask, f) == (mask \div f) % 2 = 1
Neg(d) == <<-d[1], -d[2]>>
LeaveOK(k, d)  == HasFlag(Recs[k].sd, Flag(d))           \* first step leaves the source in direction d
ArriveOK(k, d) == HasFlag(Recs[k].dd, Flag(Neg(d)))      \* last step d: seen from the destination the connector leaves in -d
\* a unit step from p in direction d is free iff its (doubled) midpoint is not strictly inside a rectangle <<x1,y1,x2,y2>>
InOpen2(mx, my, r) == mx > 2 * r[1] /\ mx < 2 * r[3] /\ my > 2 * r[2] /\ my < 2 * r[4]
Free(k, p, d) == \A i \in DOMAIN Recs[k].rects : ~InOpen2(2 * p[1] + d[1], 2 * p[2] + d[2], Recs[k].rects[i])
SegDir(a, b) == <<Sgn(b[1] - a[1]), Sgn(b[2] - a[2])>>
SegLen(a, b) == Abs(b[1] - a[1]) + Abs(b[2] - a[2])
RECURSIVE SegFree(_, _, _, _)
SegFree(k, a, d, n) == IF n = 0 THEN TRUE ELSE Free(k, a, d) /\ SegFree(k, <<a[1] + d[1], a[2] + d[2]>>, d, n - 1)
\* route with zero-length segments (repeated points) removed
RECURSIVE Dedup(_)
Dedup(rt) == IF Len(rt) <= 1 THEN rt
             ELSE IF rt[1] = rt[2] THEN Dedup(Tail(rt)) ELSE <<rt[1]>> \o Dedup(Tail(rt))
Route(k) == Dedup(Recs[k].route)
RouteOK(k) == LET rt == Route(k) IN
    /\ Recs[k].exact                                         \* all coordinates are integers
    /\ Len(Recs[k].route) >= 2 /\ Len(rt) >= 2
    /\ rt[1] = Recs[k].src /\ rt[Len(rt)] = Recs[k].dst
    /\ \A i \in 1..(Len(rt) - 1) : LET d == SegDir(rt[i], rt[i + 1]) IN
          /\ (d[1] = 0) # (d[2] = 0)                          \* exactly horizontal or vertical
          /\ SegFree(k, rt[i], d, SegLen(rt[i], rt[i + 1]))
    \* (a route may double back on itself -- the library does that to honour a direction mask; it is still an
    \*  orthogonal obstacle-avoiding path, and the reversal is counted as one bend, i.e. not over-charged)
    \* (whether a free-floating endpoint's direction mask is honoured is not part of C05's statement: the
    \*  masks only restrict the paths the oracle may use, so a hit is cheaper under every reading)
RECURSIVE SumLen(_, _)
SumLen(rt, i) == IF i >= Len(rt) THEN 0 ELSE SegLen(rt[i], rt[i + 1]) + SumLen(rt, i + 1)
BendCount(rt) == Cardinality({i \in 2..(Len(rt) - 1) : SegDir(rt[i - 1], rt[i]) # SegDir(rt[i], rt[i + 1])})
\* a record with P < 0 has the segment penalty |P|/1000: costs are then counted in thousandths
LK(k) == IF Recs[k].P < 0 THEN 1000 ELSE 1
PK(k) == IF Recs[k].P < 0 THEN -Recs[k].P ELSE Recs[k].P
RouteCost(k) == LK(k) * SumLen(Route(k), 1) + PK(k) * BendCount(Route(k))
\* search window: bounding box of the scene, two units of slack
LoX(k) == Recs[k].box[1] - 2
LoY(k) == Recs[k].box[2] - 2
HiX(k) == Recs[k].box[3] + 2
HiY(k) == Recs[k].box[4] + 2

VARIABLES k, pos, dir, g, claim, ok
vars == <<k, pos, dir, g, claim, ok>>
Init == /\ k \in 1..Len(Recs) /\ pos = Recs[k].src /\ dir = None /\ g = 0
        /\ ok = RouteOK(k)
        /\ claim = IF ok THEN RouteCost(k) ELSE 0        \* an invalid route is reported by ValidRoute; nothing to refute
\* The search walks the Hanan grid of the scene (lines through rectangle sides and the two endpoints).
\* Without direction restrictions that grid contains an optimal route, so the oracle is complete; with
\* restrictions the infimum over all orthogonal paths may not be attained at all (an escape segment can
\* be made arbitrarily short), and the statement is read as "no cheaper route on the Hanan grid".
HX(kk) == {Recs[kk].rects[i][1] : i \in DOMAIN Recs[kk].rects} \cup {Recs[kk].rects[i][3] : i \in DOMAIN Recs[kk].rects}
          \cup {Recs[kk].src[1], Recs[kk].dst[1]}
HY(kk) == {Recs[kk].rects[i][2] : i \in DOMAIN Recs[kk].rects} \cup {Recs[kk].rects[i][4] : i \in DOMAIN Recs[kk].rects}
          \cup {Recs[kk].src[2], Recs[kk].dst[2]}
OnGrid(kk, p, d) == IF d[1] # 0 THEN p[2] \in HY(kk) ELSE p[1] \in HX(kk)
Step(d) == /\ pos[1] + d[1] \in LoX(k)..HiX(k) /\ pos[2] + d[2] \in LoY(k)..HiY(k)
           /\ OnGrid(k, pos, d)
           /\ Free(k, pos, d) /\ d # Neg(dir)
           /\ (dir = None => LeaveOK(k, d))
           /\ pos' = <<pos[1] + d[1], pos[2] + d[2]>> /\ dir' = d
           /\ g' = g + LK(k) + (IF dir # None /\ d # dir THEN PK(k) ELSE 0)
           /\ UNCHANGED <<k, claim, ok>>
Next == \E d \in Dirs : Step(d)
Spec == Init /\ [][Next]_vars
\* prune everything that cannot beat the claim any more
Cheaper == g + LK(k) * (Abs(pos[1] - Recs[k].dst[1]) + Abs(pos[2] - Recs[k].dst[2])) < claim
ValidRoute == ok
NoCheaperRoute == ~(pos = Recs[k].dst /\ dir # None /\ ArriveOK(k, dir) /\ g < claim)
\* reachability of the destination at all (decides the antecedent of C03 when the implementation gave up)
=============================================================================
