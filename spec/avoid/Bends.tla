-------------------------------- MODULE Bends --------------------------------
(* C05, last clause: the bend-count estimate guiding the orthogonal search  *)
(* never exceeds the true minimum number of bends.  The truth is a property *)
(* of the free plane: walk on a grid window, going forward is free, a turn  *)
(* costs one bend and must be followed by a forward step (no turning twice  *)
(* on the spot).  For every table entry of the real Avoid::bends() the      *)
(* search is bounded by "fewer bends than the estimate": reaching the       *)
(* destination with the required entry direction inside that bound refutes  *)
(* admissibility and the counterexample is the path.                        *)
EXTENDS Integers, Sequences, TLC, Json, IOUtils
Tab == JsonDeserialize(IOEnv.BENDTAB).entries     \* [dx, dy, cd, dd, v]: curr = (dx,dy) relative to dest (0,0); directions N=1,E=2,S=4,W=8
W == 7
Vec(d) == IF d = 1 THEN <<0, -1>> ELSE IF d = 2 THEN <<1, 0>> ELSE IF d = 4 THEN <<0, 1>> ELSE <<-1, 0>>
DirSet == {1, 2, 4, 8}
Rev(d) == IF d = 1 THEN 4 ELSE IF d = 4 THEN 1 ELSE IF d = 2 THEN 8 ELSE 2
VARIABLES k, x, y, dir, b, fresh      \* fresh: just turned, must move forward next
vars == <<k, x, y, dir, b, fresh>>
Init == /\ k \in 1..Len(Tab) /\ x = Tab[k].dx /\ y = Tab[k].dy /\ dir = Tab[k].cd /\ b = 0 /\ fresh = FALSE
Forward == /\ x + Vec(dir)[1] \in (-W)..W /\ y + Vec(dir)[2] \in (-W)..W
           /\ x' = x + Vec(dir)[1] /\ y' = y + Vec(dir)[2] /\ fresh' = FALSE /\ UNCHANGED <<k, dir, b>>
Turn(d) == /\ ~fresh /\ d # dir /\ d # Rev(dir)
           /\ dir' = d /\ b' = b + 1 /\ fresh' = TRUE /\ UNCHANGED <<k, x, y>>
Next == Forward \/ \E d \in DirSet : Turn(d)
Spec == Init /\ [][Next]_vars
Below == b < Tab[k].v                           \* CONSTRAINT: only paths with fewer bends than the estimate
Admissible == ~(x = 0 /\ y = 0 /\ dir = Tab[k].dd /\ ~fresh /\ b < Tab[k].v)
\* vacuity guard: the model can reach the destination at all (checked separately without the bound)
=============================================================================
