SPECIFICATION DSpec
CONSTANTS
 LEGS = 5
 GLEGS = 4
 MAXCP = 2
 FIX = TRUE
INVARIANT Post
CHECK_DEADLOCK FALSE
