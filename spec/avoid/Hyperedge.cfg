SPECIFICATION Spec
INVARIANT AllTrees
CHECK_DEADLOCK FALSE
