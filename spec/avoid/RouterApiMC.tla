----------------------------- MODULE RouterApiMC -----------------------------
(* Bounded model of RouterApi: design-level check of the queue rules for    *)
(* every interleaving of calls, and generator of API histories (B1): the    *)
(* history variable is printed as JSON when it reaches HLEN operations.     *)
EXTENDS RouterApi, Json
CONSTANTS HLEN, MAXSTEPS,
          SHAPESONLY, \* generator profile: TRUE leaves out endpoint moves, resizes and setTransactionUse, so that the calls of a history are
                      \* spent on long add / move / delete / process patterns of shapes under routed connectors (design runs use FALSE)
          PACE      \* 0: unrestricted; k > 0: sampling schedule -- with transactions on, every k-th call is processTransaction()
VARIABLE hist
\* (<<6, 0, 8, 10>> butts between <<2, 2, 6, 6>> and <<8, 2, 12, 6>>: their corners lie inside its vertical sides -- a shape added between two touching neighbours)
RectCat == {<<2, 2, 6, 6>>, <<4, 4, 8, 10>>, <<8, 2, 12, 6>>, <<2, 8, 10, 12>>, <<6, 6, 8, 8>>, <<6, 0, 8, 10>>}
ResizeCat == {<<4, 4, 8, 10>>, <<6, 6, 8, 8>>, <<2, 2, 6, 6>>}     \* few targets, so that simulation does not spend most calls on resizes
Moves   == {<<2, 0>>, <<-2, 0>>, <<0, 2>>, <<0, -4>>, <<4, 4>>}
PtCat   == {<<13, 13>>, <<1, 7>>, <<7, 1>>}
Init == /\ scene = [s \in ShapeIds |-> NoRect] /\ own = [s \in ShapeIds |-> NoRect] /\ want = [s \in ShapeIds |-> NoRect]
        /\ ends = [c \in ConnIds |-> IF c = 1 THEN <<<<1, 7>>, <<13, 7>>>> ELSE <<<<7, 1>>, <<7, 13>>>>] /\ wantEnds = ends
        /\ queue = <<>> /\ txn = TRUE /\ steps = 0 /\ am = [s \in ShapeIds |-> 0] /\ hist = <<>>
Op(o) == hist' = Append(hist, o)
Paced == PACE > 0 /\ txn /\ Len(hist) % PACE = PACE - 1
Next == /\ Len(hist) < HLEN /\ steps < MAXSTEPS
        /\ IF Paced THEN Process /\ Op(<<5>>) ELSE
           \/ \E s \in ShapeIds, r \in RectCat : AddShape(s, r) /\ Op(<<1, s, r[1], r[2], r[3], r[4]>>)
           \/ \E s \in ShapeIds, d \in Moves : MoveRel(s, d) /\ Op(<<2, s, d[1], d[2]>>)
           \/ (~SHAPESONLY /\ \E s \in ShapeIds, r \in ResizeCat : MoveAbs(s, r) /\ Op(<<7, s, r[1], r[2], r[3], r[4]>>))
           \/ \E s \in ShapeIds : DeleteShape(s) /\ Op(<<3, s>>)
           \/ (~SHAPESONLY /\ \E c \in ConnIds, e \in 1..2, p \in PtCat : MoveEnd(c, e, p) /\ Op(<<4, c, e - 1, p[1], p[2]>>))
           \/ (txn /\ Process /\ Op(<<5>>))
           \/ (~SHAPESONLY /\ \E b \in BOOLEAN : SetTxn(b) /\ Op(<<6, IF b THEN 1 ELSE 0>>))
Spec == Init /\ [][Next]_<<vars, hist>>
View == vars        \* design-level runs ignore the history variable
\* generator: print every history that reached HLEN operations (simulation mode) -- always TRUE
EmitHist == (Len(hist) = HLEN \/ steps = MAXSTEPS) => PrintT(<<"HIST", ToJson(hist)>>)
=============================================================================
