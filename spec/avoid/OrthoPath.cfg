SPECIFICATION Spec
CONSTRAINT Cheaper
INVARIANTS ValidRoute NoCheaperRoute
CHECK_DEADLOCK FALSE
