------------------------------ MODULE GeomBig ------------------------------
(* C16, large coordinates (up to 2^20): orientation-based predicates of the *)
(* real library on random integer tuples, re-derived with limb arithmetic.  *)
EXTENDS Integers, Sequences, FiniteSets, TLC, Json, IOUtils, Limb
Recs == JsonDeserialize(IOEnv.BIGRECS).recs
CH == 500
NChunks == (Len(Recs) + CH - 1) \div CH
OrientB(a, b, c) == CmpProd(b[1] - a[1], c[2] - a[2], c[1] - a[1], b[2] - a[2])
InBox(a, b, c) ==   \* c in the closed bounding box of a, b
    /\ (IF a[1] <= b[1] THEN a[1] <= c[1] /\ c[1] <= b[1] ELSE b[1] <= c[1] /\ c[1] <= a[1])
    /\ (IF a[2] <= b[2] THEN a[2] <= c[2] /\ c[2] <= b[2] ELSE b[2] <= c[2] /\ c[2] <= a[2])
StrictlyBetweenB(a, b, c) == OrientB(a, b, c) = 0 /\ c # a /\ c # b /\ InBox(a, b, c)
\* proper crossing by orientations (equivalence with the parametric definition is lemma-checked on the grid)
ProperCrossB(a, b, c, d) == OrientB(a, b, c) * OrientB(a, b, d) < 0 /\ OrientB(c, d, a) * OrientB(c, d, b) < 0
B2I(x) == IF x THEN 1 ELSE 0
Expect(r) ==
    LET a == <<r.p[1], r.p[2]>>  b == <<r.p[3], r.p[4]>>  c == <<r.p[5], r.p[6]>>  d == <<r.p[7], r.p[8]>>
    IN  (OrientB(a, b, c) + 1) + 4 * B2I(ProperCrossB(a, b, c, d)) + 8 * B2I(StrictlyBetweenB(a, b, c))
        + 16 * B2I(OrientB(a, b, c) = 0) + 32
Degenerate(r) ==
    LET a == <<r.p[1], r.p[2]>>  b == <<r.p[3], r.p[4]>>  c == <<r.p[5], r.p[6]>>  d == <<r.p[7], r.p[8]>>
    IN  OrientB(a, b, c) = 0 \/ OrientB(a, b, d) = 0 \/ OrientB(c, d, a) = 0 \/ OrientB(c, d, b) = 0
VARIABLES k, phase, bad
vars == <<k, phase, bad>>
Init == k \in 0..(NChunks - 1) /\ phase = "todo" /\ bad = {}
Idx(kk) == {i \in (kk * CH + 1)..((kk + 1) * CH) : i <= Len(Recs)}
Eval == /\ phase = "todo" /\ phase' = "done" /\ UNCHANGED k
        /\ bad' = {i \in Idx(k) : Recs[i].v # Expect(Recs[i])}
        /\ PrintT(<<"STAT", "big", k, Cardinality({i \in Idx(k) : Degenerate(Recs[i])})>>)
Spec == Init /\ [][Eval]_vars
TableAgrees == bad = {}
\* lemma run: limb comparison is exact on a small range
LInit == k = 0 /\ phase = "lemma" /\ bad = {}
LNext == phase = "lemma" /\ phase' = "done" /\ UNCHANGED k /\ bad' = IF LimbLemma((-9)..9) /\ LimbLemma({-4099, -2049, -2048, -1, 0, 1, 2047, 2048, 4097, 30000}) THEN {} ELSE {0}
LemmaSpec == LInit /\ [][LNext]_vars
=============================================================================
