------------------------------ MODULE RouteValid ------------------------------
(* C03: the displayed route of a connector joins its endpoints and stays    *)
(* out of the obstacles (after nudging, with a buffer distance, in both     *)
(* routing modes).  Coordinates are integers on the 2^-10 lattice; output   *)
(* carries solver noise, so "passes through the interior" is evaluated      *)
(* with a tolerance of TOL lattice units in the direction that can only     *)
(* make the check miss shallow penetrations, never raise a false alarm.     *)
(* Disjointness of an open segment and the open interior of a convex        *)
(* polygon is decided by the separating-axis theorem with orientation       *)
(* tests only (no fractions): they are disjoint iff some edge of the        *)
(* polygon has the whole segment on its outer closed side, or the line of   *)
(* the segment has the whole polygon on one closed side.                    *)
EXTENDS Integers, Sequences, FiniteSets, TLC, Json, IOUtils
Data == JsonDeserialize(IOEnv.VALIDRECS)
Recs == Data.recs      \* polys (x LS), src, dst (x LS), disp (lattice points), mode, thrown
CH == Data.chunk
NChunks == (Len(Recs) + CH - 1) \div CH
TOL == 2
Abs(x) == IF x < 0 THEN -x ELSE x
Sub(a, b) == <<a[1] - b[1], a[2] - b[2]>>
Cross(u, v) == u[1] * v[2] - u[2] * v[1]
L1(u) == Abs(u[1]) + Abs(u[2])
Prev(P, i) == IF i = 1 THEN Len(P) ELSE i - 1
\* signed "height" of x over the directed line a->b, compared against -TOL * |ab| (|ab| over-estimated by the L1 norm)
OuterOrOn(a, b, x) == Cross(Sub(b, a), Sub(x, a)) <= TOL * L1(Sub(b, a))      \* polygon interior is on the positive side
SeparatedByEdge(P, p, q) == \E i \in 1..Len(P) : OuterOrOn(P[Prev(P, i)], P[i], p) /\ OuterOrOn(P[Prev(P, i)], P[i], q)
SeparatedBySegmentLine(P, p, q) ==
    \/ \A i \in 1..Len(P) : Cross(Sub(q, p), Sub(P[i], p)) <= TOL * L1(Sub(q, p))
    \/ \A i \in 1..Len(P) : Cross(Sub(q, p), Sub(P[i], p)) >= -TOL * L1(Sub(q, p))
Blocks(P, p, q) == p # q /\ ~SeparatedByEdge(P, p, q) /\ ~SeparatedBySegmentLine(P, p, q)
InClosed(P, x) == \A i \in 1..Len(P) : Cross(Sub(P[i], P[Prev(P, i)]), Sub(x, P[Prev(P, i)])) >= 0
\* vertices of P lying (within tolerance) on the segment pq
OnSeg(p, q, v) == /\ Abs(Cross(Sub(q, p), Sub(v, p))) <= TOL * L1(Sub(q, p))
                  /\ v[1] >= (IF p[1] < q[1] THEN p[1] ELSE q[1]) - TOL /\ v[1] <= (IF p[1] > q[1] THEN p[1] ELSE q[1]) + TOL
                  /\ v[2] >= (IF p[2] < q[2] THEN p[2] ELSE q[2]) - TOL /\ v[2] <= (IF p[2] > q[2] THEN p[2] ELSE q[2]) + TOL
RECURSIVE Dedup(_)
Dedup(rt) == IF Len(rt) <= 1 THEN rt ELSE IF rt[1] = rt[2] THEN Dedup(Tail(rt)) ELSE <<rt[1]>> \o Dedup(Tail(rt))
Near(a, b) == Abs(a[1] - b[1]) <= TOL /\ Abs(a[2] - b[2]) <= TOL

Tags(r) ==
    IF r.thrown THEN {"exception"} ELSE
    LET rt == Dedup(r.disp)
        obstacles == {i \in DOMAIN r.polys : ~InClosed(r.polys[i], r.src) /\ ~InClosed(r.polys[i], r.dst)}
        hits == {<<s, i>> \in (1..(Len(rt) - 1)) \X obstacles : Blocks(r.polys[i], rt[s], rt[s + 1])}
    IN  (IF Len(r.disp) < 2 THEN {"fewer-than-two-points"} ELSE {})
        \cup (IF Len(r.disp) >= 1 /\ ~Near(r.disp[1], r.src) THEN {"does-not-start-at-source"} ELSE {})
        \cup (IF Len(r.disp) >= 1 /\ ~Near(r.disp[Len(r.disp)], r.dst) THEN {"does-not-end-at-destination"} ELSE {})
        \cup (IF r.mode = 1 /\ \E s \in 1..(Len(rt) - 1) : Abs(rt[s][1] - rt[s + 1][1]) > TOL /\ Abs(rt[s][2] - rt[s + 1][2]) > TOL
              THEN {"diagonal-segment"} ELSE {})
        \cup (IF hits = {} THEN {}
              ELSE IF \A h \in hits : Cardinality({j \in 1..Len(r.polys[h[2]]) : OnSeg(rt[h[1]], rt[h[1] + 1], r.polys[h[2]][j])}) >= 2
                   THEN {"through-shape:via-two-of-its-vertices"}
              \* touching shapes: the segment runs through the shape, but wherever it crosses the shape's boundary it does so
              \* at a vertex of some shape of the scene (its own or a neighbour butted against it), never at a clean point
              ELSE IF \A h \in hits : LET P == r.polys[h[2]]  a == rt[h[1]]  b == rt[h[1] + 1]
                                           allV == UNION {{r.polys[i][j] : j \in 1..Len(r.polys[i])} : i \in DOMAIN r.polys}
                                           PC(p1, p2, q1, q2) == LET d1 == Cross(Sub(p2, p1), Sub(q1, p1))  d2 == Cross(Sub(p2, p1), Sub(q2, p1))
                                                                     d3 == Cross(Sub(q2, q1), Sub(p1, q1))  d4 == Cross(Sub(q2, q1), Sub(p2, q1))
                                                                 IN  ((d1 > 0 /\ d2 < 0) \/ (d1 < 0 /\ d2 > 0)) /\ ((d3 > 0 /\ d4 < 0) \/ (d3 < 0 /\ d4 > 0))
                                       IN  \A j \in 1..Len(P) : PC(a, b, P[Prev(P, j)], P[j]) => \E v \in allV : OnSeg(a, b, v) /\ OnSeg(P[Prev(P, j)], P[j], v)
                   THEN \* both ends of the pierced segment are vertices of neighbours lying strictly inside VERTICAL sides of the pierced shape (decided by
                        \* the rotational sweep's on-border bookkeeping, vertexSweep, and by Router::newBlockingShape).  The unchanged library fails only
                        \* when those sides are horizontal -- that is F30 -- so the two orientations are told apart, whatever the order of insertion.
                        (IF \A h \in hits : LET P == r.polys[h[2]]  a == rt[h[1]]  b == rt[h[1] + 1]
                                                     NV == UNION {{r.polys[i][j] : j \in 1..Len(r.polys[i])} : i \in DOMAIN r.polys \ {h[2]}}
                                                     OnV(p) == \E j \in 1..Len(P) : P[Prev(P, j)][1] = P[j][1] /\ OnSeg(P[Prev(P, j)], P[j], p)
                                                     OnH(p) == \E j \in 1..Len(P) : P[Prev(P, j)][1] # P[j][1] /\ OnSeg(P[Prev(P, j)], P[j], p)
                                                     \* where the segment meets the boundary of the pierced shape at a neighbour's vertex (the displayed
                                                     \* route may have merged collinear points, so these need not be points of the route)
                                                     X == {v \in NV : OnSeg(a, b, v) /\ (OnV(v) \/ OnH(v)) /\ \A j \in 1..Len(P) : P[j] # v}
                                                     Owners(v) == {i \in DOMAIN r.polys \ {h[2]} : \E j \in 1..Len(r.polys[i]) : r.polys[i][j] = v}
                                                 \* (each of those points is a corner of exactly one neighbour: where two neighbours share a corner on the side
                                                 \*  of a third shape the unchanged library lets the segment through whatever the orientation -- F30)
                                                 IN  Cardinality(X) >= 2 /\ \A v \in X : OnV(v) /\ ~OnH(v) /\ Cardinality(Owners(v)) = 1
                         THEN {"through-shape:crossing-only-at-shape-vertices:between-neighbour-vertices-inside-its-vertical-sides"}
                         \* the case decided by Router::newBlockingShape alone: both ends of the pierced segment are vertices of other shapes lying on the
                         \* boundary of the pierced shape, and the pierced shape was added after those shapes
                         ELSE IF \A h \in hits : LET P == r.polys[h[2]]
                                                OnBd(p) == \E j \in 1..Len(P) : OnSeg(P[Prev(P, j)], P[j], p)
                                                Own(p) == {j \in DOMAIN r.polys : j # h[2] /\ \E v \in 1..Len(r.polys[j]) : r.polys[j][v] = p}
                                            IN  /\ OnBd(rt[h[1]]) /\ OnBd(rt[h[1] + 1]) /\ Own(rt[h[1]]) # {} /\ Own(rt[h[1] + 1]) # {}
                                                /\ \A j \in Own(rt[h[1]]) \cup Own(rt[h[1] + 1]) : j < h[2]
                         THEN {"through-shape:crossing-only-at-shape-vertices:between-vertices-of-earlier-shapes-on-its-boundary"}
                         ELSE {"through-shape:crossing-only-at-shape-vertices"})
                   ELSE {"through-shape"})
NonTrivial(r) == ~r.thrown /\ Len(r.disp) > 2
VARIABLES k, phase, bad
vars == <<k, phase, bad>>
Init == k \in 0..(NChunks - 1) /\ phase = "todo" /\ bad = {}
Idx(kk) == {i \in (kk * CH + 1)..((kk + 1) * CH) : i <= Len(Recs)}
Eval == /\ phase = "todo" /\ phase' = "done" /\ UNCHANGED k
        /\ bad' = UNION { {<<i, t>> : t \in Tags(Recs[i])} : i \in Idx(k) }
        /\ PrintT(<<"STAT", "rv", k, Cardinality({i \in Idx(k) : NonTrivial(Recs[i])})>>)
Spec == Init /\ [][Eval]_vars
AllValid == bad = {}
=============================================================================
