----------------------------- MODULE GeomTable -----------------------------
(* C16 binding (B2, records as independent chunks).  The harness h_geom     *)
(* evaluates the real predicates over every tuple of grid points and writes *)
(* packed result tables; this module re-derives every entry with the exact  *)
(* operators of Geom and reports the entries that differ.  One chunk = one  *)
(* behaviour: Init picks the chunk, the single Eval step computes the set   *)
(* of mismatching entries (so the work is spread over TLC's workers), the   *)
(* invariant says that set is empty.                                        *)
EXTENDS Geom, TLC, Json, IOUtils

Dir  == IOEnv.GEOMDIR
Meta == JsonDeserialize(Dir \o "/meta.json")
G    == Meta.G           \* side of the point grid for 3- and 4-point predicates
PG   == Meta.PG          \* side of the grid for polygons
N    == G * G
PN   == PG * PG
Kinds == Meta.kinds      \* sequence of chunk families to check

Pt(i, g) == <<i \div g, i % g>>
Bits(v, i, w) == (v \div (2^i)) % (2^w)

\* ------------------------------------------------------------------ t3
T3 == JsonDeserialize(Dir \o "/t3.json").t
Exp3(a, b, c) ==
    (Orient(a, b, c) + 1)
    + 4 * (IF StrictlyBetween(a, b, c) THEN 1 ELSE 0)
    + 8 * (IF Colinear(a, b, c) THEN 1 ELSE 0)
    + 16 * (IF Colinear(a, b, c) /\ StrictlyBetween(a, b, c) THEN 1 ELSE 0)
Bad3(ai) == { j \in 0..(N * N - 1) :
                T3[ai + 1][j + 1] # Exp3(Pt(ai, G), Pt(j \div N, G), Pt(j % N, G)) }

\* ------------------------------------------------------------------ t4
B2I(b) == IF b THEN 1 ELSE 0
LsClass(a, b, c, d) ==      \* linesegment.h: 0 PARALLEL 1 COINCIDENT 2 NOT_INTERSECTING 3 INTERSECTING
    IF Cross(Sub(b, a), Sub(d, c)) = 0
    THEN IF Cross(Sub(d, c), Sub(a, c)) = 0 /\ Cross(Sub(b, a), Sub(a, c)) = 0 THEN 1 ELSE 0
    ELSE IF ClosedCrossNonParallel(a, b, c, d) THEN 3 ELSE 2
Exp4(a, b, c, d) ==
    LET t0 == TouchRule(a, b, c, d, FALSE)
        t1 == TouchRule(a, b, c, d, TRUE)
    IN  B2I(ProperCross(a, b, c, d))
        + 2 * B2I(t0[1]) + 4 * B2I(t0[2]) + 8 * B2I(t1[1]) + 16 * B2I(t1[2])
        + 32 * SegIntClass(a, b, c, d)
        + 128 * B2I(InValidRegion(FALSE, a, b, c, d))
        + 256 * B2I(InValidRegion(TRUE, a, b, c, d))
        + 512 * (CornerSide(a, b, c, d) + 1)
        + 2048 * LsClass(a, b, c, d)
S20 == 1048576
\* implementation coordinate X (scaled by 2^20) equals the exact num/den to within 2^-20
NearFrac(X, num, den) == AbsI(X * den - num * S20) <= AbsI(den)
PointOK(T, j, a, b, c, d) ==
    LET ip == SegIntPoint(a, b, c, d)
    IN  /\ (SegIntClass(a, b, c, d) = 1) =>
              NearFrac(T.ax[j + 1], ip[1], ip[3]) /\ NearFrac(T.ay[j + 1], ip[2], ip[3])
        /\ (LsClass(a, b, c, d) = 3) =>
              NearFrac(T.lx[j + 1], ip[1], ip[3]) /\ NearFrac(T.ly[j + 1], ip[2], ip[3])
Bad4(ai) ==
    LET T == JsonDeserialize(Dir \o "/t4_" \o ToString(ai) \o ".json")
        a == Pt(ai, G)
    IN { j \in 0..(N * N * N - 1) :
           LET b == Pt(j \div (N * N), G)
               c == Pt((j \div N) % N, G)
               d == Pt(j % N, G)
           IN  T.bits[j + 1] # Exp4(a, b, c, d) \/ ~PointOK(T, j, a, b, c, d) }

\* ------------------------------------------------------------------ polygons
\* bit0 inPoly(border counts), bit1 inPoly(border excluded), bit2 inPolyGen
SimpleQuad(P) ==   \* simple, positively oriented, no three consecutive vertices collinear
    /\ \A i \in 1..4 : ~Colinear(P[PrevIdx(P, PrevIdx(P, i))], P[PrevIdx(P, i)], P[i])
    /\ ~ClosedCrossNonParallel(P[1], P[2], P[3], P[4])
    /\ ~ClosedCrossNonParallel(P[2], P[3], P[4], P[1])
    /\ SegIntClass(P[1], P[2], P[3], P[4]) = 0
    /\ SegIntClass(P[2], P[3], P[4], P[1]) = 0
    /\ Area2(P) > 0
PolyOK(P, q, v) ==
    /\ StrictlyConvexCCW(P) =>
          /\ Bits(v, 0, 1) = B2I(InClosedPoly(P, q))
          /\ Bits(v, 1, 1) = B2I(InOpenPoly(P, q))
    /\ (StrictlyConvexCCW(P) \/ (Len(P) = 4 /\ SimpleQuad(P))) =>
          Bits(v, 2, 1) = B2I(InClosedPoly(P, q))
Tri == JsonDeserialize(Dir \o "/tri.json").t
BadTri(ai) == { j \in 0..(PN * PN * PN - 1) :
                  LET P == <<Pt(ai, PG), Pt(j \div (PN * PN), PG), Pt((j \div PN) % PN, PG)>>
                  IN  ~PolyOK(P, Pt(j % PN, PG), Tri[ai + 1][j + 1]) }
BadQuad(ai) ==
    LET T == JsonDeserialize(Dir \o "/quad_" \o ToString(ai) \o ".json").t
    IN { j \in 0..(PN * PN * PN * PN - 1) :
           LET P == <<Pt(ai, PG), Pt(j \div (PN * PN * PN), PG), Pt((j \div (PN * PN)) % PN, PG),
                      Pt((j \div PN) % PN, PG)>>
           IN  ~PolyOK(P, Pt(j % PN, PG), T[j + 1]) }

\* ------------------------------------------------------------------ accounting
\* number of degenerate (hence non-trivial) entries of a chunk, counted by TLC itself
Degen4(a, b, c, d) == Orient(a, b, c) = 0 \/ Orient(a, b, d) = 0 \/ Orient(c, d, a) = 0 \/ Orient(c, d, b) = 0
NonTrivial(kd, ai) ==
    CASE kd = "t3" -> Cardinality({ j \in 0..(N * N - 1) : Colinear(Pt(ai, G), Pt(j \div N, G), Pt(j % N, G)) })
      [] kd = "t4" -> Cardinality({ j \in 0..(N * N * N - 1) :
                         Degen4(Pt(ai, G), Pt(j \div (N * N), G), Pt((j \div N) % N, G), Pt(j % N, G)) })
      [] kd = "tri" -> Cardinality({ j \in 0..(PN * PN * PN - 1) :
                         LET P == <<Pt(ai, PG), Pt(j \div (PN * PN), PG), Pt((j \div PN) % PN, PG)>>
                         IN  StrictlyConvexCCW(P) /\ OnBoundary(P, Pt(j % PN, PG)) })
      [] kd = "quad" -> Cardinality({ j \in 0..(PN * PN * PN * PN - 1) :
                         LET P == <<Pt(ai, PG), Pt(j \div (PN * PN * PN), PG), Pt((j \div (PN * PN)) % PN, PG),
                                    Pt((j \div PN) % PN, PG)>>
                         IN  (StrictlyConvexCCW(P) \/ SimpleQuad(P)) /\ OnBoundary(P, Pt(j % PN, PG)) })

\* ------------------------------------------------------------------ behaviour
VARIABLES kind, k, phase, bad
vars == <<kind, k, phase, bad>>
ChunkCount(kd) == IF kd \in {"t3", "t4"} THEN N ELSE PN
Init == /\ kind \in {Kinds[i] : i \in 1..Len(Kinds)}
        /\ k \in 0..(ChunkCount(kind) - 1)
        /\ phase = "todo" /\ bad = {}
Eval == /\ phase = "todo" /\ phase' = "done"
        /\ bad' = CASE kind = "t3"   -> Bad3(k)
                    [] kind = "t4"   -> Bad4(k)
                    [] kind = "tri"  -> BadTri(k)
                    [] kind = "quad" -> BadQuad(k)
        /\ PrintT(<<"STAT", kind, k, NonTrivial(kind, k)>>)
        /\ UNCHANGED <<kind, k>>
Next == Eval
Spec == Init /\ [][Next]_vars
TableAgrees == bad = {}

\* ------------------------------------------------------------------ lemmas
\* Symmetry of the exact definitions (so table equality transfers symmetry
\* to the implementation): checked over the whole grid by LemmaSpec.
Pts == {Pt(i, G) : i \in 0..(N - 1)}
SymLemmas(a) == \A b \in Pts, c \in Pts :
    /\ Orient(a, b, c) = -Orient(b, a, c)
    /\ Orient(a, b, c) = Orient(b, c, a)
    /\ StrictlyBetween(a, b, c) = StrictlyBetween(b, a, c)
    /\ Colinear(a, b, c) = Colinear(b, a, c)
    /\ \A d \in Pts :
         /\ ProperCross(a, b, c, d) = ProperCross(b, a, c, d)
         /\ ProperCross(a, b, c, d) = ProperCross(a, b, d, c)
         /\ ProperCross(a, b, c, d) = ProperCross(c, d, a, b)
         /\ SegIntClass(a, b, c, d) = SegIntClass(c, d, a, b)
         /\ SegIntClass(a, b, c, d) = SegIntClass(b, a, d, c)
         \* the textbook characterisation of a proper crossing by orientations
         /\ ProperCross(a, b, c, d) = (Orient(a, b, c) * Orient(a, b, d) < 0 /\ Orient(c, d, a) * Orient(c, d, b) < 0)
LemmaInit == kind = "lemma" /\ k \in 0..(N - 1) /\ phase = "todo" /\ bad = {}
LemmaEval == /\ phase = "todo" /\ phase' = "done"
             /\ bad' = IF SymLemmas(Pt(k, G)) THEN {} ELSE {k}
             /\ UNCHANGED <<kind, k>>
LemmaSpec == LemmaInit /\ [][LemmaEval]_vars
=============================================================================
