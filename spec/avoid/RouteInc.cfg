SPECIFICATION ISpec
INVARIANT AllValid
CHECK_DEADLOCK FALSE
