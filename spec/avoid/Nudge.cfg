SPECIFICATION Spec
INVARIANT AllGood
CHECK_DEADLOCK FALSE
