SPECIFICATION Spec
INVARIANT AllHonoured
CHECK_DEADLOCK FALSE
