------------------------------ MODULE RouterApi ------------------------------
(* The libavoid Router as the API user sees it: a scene of shapes and       *)
(* connector endpoints that changes only at processTransaction(), and the   *)
(* action queue (Router::actionList) with the de-duplication rules of       *)
(* addShape / moveShape / deleteShape / modifyConnector, one action per     *)
(* public call.  With transactions off every call is followed by            *)
(* processTransaction().  `want` is a ghost variable holding the scene the  *)
(* calls add up to (effects applied cumulatively, in call order).           *)
EXTENDS Integers, Sequences, FiniteSets, TLC
CONSTANTS ShapeIds, ConnIds
NoRect == <<0, 0, 0, 0>>
VARIABLES scene,     \* [ShapeIds -> rect | NoRect] : what the router routes around (changes only when processing)
          ends,      \* [ConnIds -> <<src, dst>>]   : committed connector endpoints
          own,       \* [ShapeIds -> rect | NoRect] : the ShapeRef's own polygon (set at construction, updated when a move is processed)
          queue,     \* sequence of [t, s, r] / [t, c, e, p] : Router::actionList
          txn,       \* transactions in use (m_consolidate_actions)
          want,      \* ghost: scene the calls so far add up to
          wantEnds,  \* ghost
          steps,     \* number of processing points so far (history length control)
          am         \* ghost: [ShapeIds -> number of relative moves since the shape's still-queued add]
vars == <<scene, ends, own, queue, txn, want, wantEnds, steps, am>>

Shift(r, d) == <<r[1] + d[1], r[2] + d[2], r[3] + d[1], r[4] + d[2]>>
HasEntry(t, s) == \E i \in DOMAIN queue : queue[i].t = t /\ queue[i].s = s
EntryIdx(t, s) == CHOOSE i \in DOMAIN queue : queue[i].t = t /\ queue[i].s = s
Live(s) == scene[s] # NoRect

\* what processTransaction() makes of a queue
ApplyQueue(sc, q) == [s \in ShapeIds |->
    IF \E i \in DOMAIN q : q[i].t = "del" /\ q[i].s = s THEN NoRect
    ELSE IF \E i \in DOMAIN q : q[i].t \in {"add", "move"} /\ q[i].s = s
         THEN q[CHOOSE i \in DOMAIN q : q[i].t \in {"add", "move"} /\ q[i].s = s].r
         ELSE sc[s]]
ApplyEnds(en, q) == [c \in ConnIds |->
    LET upd(e, old) == IF \E i \in DOMAIN q : q[i].t = "conn" /\ q[i].s = c /\ q[i].e = e
                       THEN q[CHOOSE i \in DOMAIN q : q[i].t = "conn" /\ q[i].s = c /\ q[i].e = e].p ELSE old
    IN  <<upd(1, en[c][1]), upd(2, en[c][2])>>]
\* effect of the call, processed at once when transactions are off
OwnAfter(o, q) == [s \in ShapeIds |-> IF \E i \in DOMAIN q : q[i].t \in {"move", "add"} /\ q[i].s = s
                                     THEN q[CHOOSE i \in DOMAIN q : q[i].t \in {"move", "add"} /\ q[i].s = s].r ELSE o[s]]
Commit(q, o) == IF txn THEN /\ queue' = q /\ own' = o /\ UNCHANGED <<scene, ends, steps>>
                       ELSE /\ queue' = <<>> /\ scene' = ApplyQueue(scene, q) /\ ends' = ApplyEnds(ends, q)
                            /\ own' = OwnAfter(o, q) /\ steps' = steps + 1

\* new ShapeRef(router, poly): documented precondition -- not after a queued remove/move of the same shape
AddShape(s, r) ==
    /\ ~Live(s) /\ ~HasEntry("add", s) /\ ~HasEntry("del", s) /\ ~HasEntry("move", s)
    /\ want' = [want EXCEPT ![s] = r]
    /\ Commit(Append(queue, [t |-> "add", s |-> s, r |-> r]), [own EXCEPT ![s] = r])
    /\ am' = [am EXCEPT ![s] = 0]
    /\ UNCHANGED <<txn, wantEnds>>
\* router->moveShape(shape, dx, dy): relative to the queued move if there is one, else to the shape's own polygon
MoveRel(s, d) ==
    /\ (Live(s) \/ HasEntry("add", s)) /\ ~HasEntry("del", s)
    /\ want' = [want EXCEPT ![s] = Shift(want[s], d)]
    /\ LET base == IF HasEntry("move", s) THEN queue[EntryIdx("move", s)].r ELSE own[s]
           new  == Shift(base, d)
       IN  IF HasEntry("add", s)
           THEN /\ queue' = [queue EXCEPT ![EntryIdx("add", s)].r = new]     \* setNewPoly on the queued add: the shape's own polygon
                /\ own' = [own EXCEPT ![s] = new]                              \* changes at once; no processing
                /\ UNCHANGED <<scene, ends, steps>>
           ELSE Commit(IF HasEntry("move", s) THEN [queue EXCEPT ![EntryIdx("move", s)].r = new]
                       ELSE Append(queue, [t |-> "move", s |-> s, r |-> new]), own)
    /\ am' = IF HasEntry("add", s) THEN [am EXCEPT ![s] = am[s] + 1] ELSE am
    /\ UNCHANGED <<txn, wantEnds>>
\* router->moveShape(shape, newPolygon): an absolute move, which is also how a shape is resized.  Same queue rules as the relative move:
\* on a queued add the shape's own polygon is replaced at once, a queued move has its polygon replaced, otherwise a move is queued
MoveAbs(s, r) ==
    /\ (Live(s) \/ HasEntry("add", s)) /\ ~HasEntry("del", s)
    /\ want' = [want EXCEPT ![s] = r]
    /\ IF HasEntry("add", s)
       THEN /\ queue' = [queue EXCEPT ![EntryIdx("add", s)].r = r]
            /\ own' = [own EXCEPT ![s] = r]
            /\ UNCHANGED <<scene, ends, steps>>
       ELSE Commit(IF HasEntry("move", s) THEN [queue EXCEPT ![EntryIdx("move", s)].r = r]
                   ELSE Append(queue, [t |-> "move", s |-> s, r |-> r]), own)
    /\ am' = IF HasEntry("add", s) THEN [am EXCEPT ![s] = am[s] + 1] ELSE am
    /\ UNCHANGED <<txn, wantEnds>>
\* router->deleteShape(shape): precondition -- not in the transaction that adds it
DeleteShape(s) ==
    /\ Live(s) /\ ~HasEntry("add", s) /\ ~HasEntry("del", s)
    /\ want' = [want EXCEPT ![s] = NoRect]
    /\ LET q1 == SelectSeq(queue, LAMBDA a : ~(a.t = "move" /\ a.s = s))
       IN  Commit(Append(q1, [t |-> "del", s |-> s, r |-> NoRect]), own)
    /\ UNCHANGED <<txn, wantEnds, am>>
\* conn->setSourceEndpoint / setDestEndpoint
MoveEnd(c, e, p) ==
    /\ wantEnds' = [wantEnds EXCEPT ![c][e] = p]
    /\ LET q1 == SelectSeq(queue, LAMBDA a : ~(a.t = "conn" /\ a.s = c /\ a.e = e))
       IN  Commit(Append(q1, [t |-> "conn", s |-> c, e |-> e, p |-> p]), own)
    /\ UNCHANGED <<txn, want, am>>
Process ==
    /\ scene' = ApplyQueue(scene, queue) /\ ends' = ApplyEnds(ends, queue) /\ queue' = <<>> /\ steps' = steps + 1
    /\ own' = OwnAfter(own, queue)
    /\ UNCHANGED <<txn, want, wantEnds, am>>
SetTxn(b) == /\ txn # b /\ queue = <<>> /\ txn' = b /\ UNCHANGED <<scene, ends, own, queue, want, wantEnds, steps, am>>

\* ---- design-level properties ------------------------------------------------
QueueWellFormed ==
    /\ \A i \in DOMAIN queue, j \in DOMAIN queue : (i # j /\ queue[i].t # "conn" /\ queue[j].t # "conn") => queue[i].s # queue[j].s
    /\ txn \/ queue = <<>>
\* when nothing is pending the router's scene is what the calls add up to
\* (a first version of this model let relative moves of a just-added shape start again from the original
\*  polygon; trace validation against the real Router rejected that: setNewPoly updates the shape at once)
SceneIsWhatWasAskedFor == queue = <<>> => (ends = wantEnds /\ scene = want)
=============================================================================
