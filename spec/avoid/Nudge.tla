-------------------------------- MODULE Nudge --------------------------------
(* C10: what nudging may and may not do to orthogonal routes, judged on the *)
(* raw route R (before nudging) and the displayed route D (after) of every  *)
(* connector of a scene, on the 2^-10 lattice.                              *)
(*  - D starts and ends where R does (first/last point never moves)         *)
(*  - D has no more segments than R (collinear points merged in both)       *)
(*  - every checkpoint still lies on D                                      *)
(*  - two connectors without a common endpoint do not run collinear and     *)
(*    overlapping along a stretch of positive length with INTERIOR segments *)
(*    (first/last segments are pinned by the endpoints) when the channel -- *)
(*    the free interval perpendicular to the stretch between the nearest    *)
(*    immovable things: obstacle sides and first/last segments of any       *)
(*    connector, measured along the whole extent of each sharing segment -- *)
(*    has room for the k sharing segments at distance d                     *)
(*  - interior segments of different connectors that ran collinear and      *)
(*    overlapping in the raw routes and were separated are at least d/10    *)
(*    apart (the smallest distance the 10-step reduction can choose) --     *)
(*    an OBSERVATION only, see DESIGN section 10                            *)
(*  - with nudgeSharedPathsWithCommonEndPoint off, "sharing an endpoint"    *)
(*    is tagged separately when an endpoint of one connector lies on the    *)
(*    other's route (the library's wider notion of a common end)            *)
EXTENDS Integers, Sequences, FiniteSets, TLC, Json, IOUtils
Data == JsonDeserialize(IOEnv.NUDGERECS)
Recs == Data.recs     \* rects (x LS), d (x LS), conns: src, dst, raw, disp, cps (x LS)
CH == Data.chunk
NChunks == (Len(Recs) + CH - 1) \div CH
TOL == 3
BIG == 100000000
Abs(x) == IF x < 0 THEN -x ELSE x
Mx(a, b) == IF a >= b THEN a ELSE b
Mn(a, b) == IF a <= b THEN a ELSE b
Near(a, b) == Abs(a[1] - b[1]) <= TOL /\ Abs(a[2] - b[2]) <= TOL
\* merge collinear consecutive points (and drop repeated points) of an orthogonal route
Horiz(a, b) == Abs(a[2] - b[2]) <= TOL
Vert(a, b)  == Abs(a[1] - b[1]) <= TOL
RECURSIVE Simplify(_)
Simplify(rt) == IF Len(rt) <= 2 THEN rt
                ELSE IF Near(rt[1], rt[2]) THEN Simplify(Tail(rt))
                ELSE IF (Horiz(rt[1], rt[2]) /\ Horiz(rt[2], rt[3]) /\ ~Near(rt[2], rt[3])) \/ (Vert(rt[1], rt[2]) /\ Vert(rt[2], rt[3]) /\ ~Near(rt[2], rt[3]))
                     THEN Simplify(<<rt[1]>> \o Tail(Tail(rt)))
                     ELSE <<rt[1]>> \o Simplify(Tail(rt))
NSeg(rt) == LET s == Simplify(rt) IN IF Len(s) >= 2 /\ Near(s[Len(s) - 1], s[Len(s)]) THEN Len(s) - 2 ELSE Len(s) - 1
\* point p on segment ab (axis-parallel), within tolerance
OnSegT(a, b, p) == /\ p[1] >= Mn(a[1], b[1]) - TOL /\ p[1] <= Mx(a[1], b[1]) + TOL
                   /\ p[2] >= Mn(a[2], b[2]) - TOL /\ p[2] <= Mx(a[2], b[2]) + TOL
OnRoute(rt, p) == \E i \in 1..(Len(rt) - 1) : OnSegT(rt[i], rt[i + 1], p)
\* segments of the displayed routes: [c, i, h (horizontal?), pos (the fixed coordinate), lo, hi, interior]
SegsOf(r, raw) == UNION { LET D == Simplify(IF raw THEN r.conns[c].raw ELSE r.conns[c].disp) IN
                   { [c |-> c, i |-> i, h |-> Horiz(D[i], D[i + 1]),
                      pos |-> IF Horiz(D[i], D[i + 1]) THEN D[i][2] ELSE D[i][1],
                      lo |-> IF Horiz(D[i], D[i + 1]) THEN Mn(D[i][1], D[i + 1][1]) ELSE Mn(D[i][2], D[i + 1][2]),
                      hi |-> IF Horiz(D[i], D[i + 1]) THEN Mx(D[i][1], D[i + 1][1]) ELSE Mx(D[i][2], D[i + 1][2]),
                      \* "interior" = movable by nudging: not the first or last segment (pinned by the endpoints) and not carrying a checkpoint
                      interior |-> i > 1 /\ i < Len(D) - 1 /\ \A q \in DOMAIN r.conns[c].cps : ~OnSegT(D[i], D[i + 1], r.conns[c].cps[q])] : i \in 1..(Len(D) - 1) } : c \in DOMAIN r.conns }
Segs(r) == SegsOf(r, FALSE)
ShareEnd(r, a, b) == \E p \in {r.conns[a].src, r.conns[a].dst} : p \in {r.conns[b].src, r.conns[b].dst}
OverlapLen(s, t) == Mn(s.hi, t.hi) - Mx(s.lo, t.lo)
\* immovable things bounding the channel of a stretch [lo, hi] at coordinate pos (horizontal iff h)
RectSpan(q, h) == IF h THEN <<q[1], q[3], q[2], q[4]>> ELSE <<q[2], q[4], q[1], q[3]>>       \* <<alongLo, alongHi, acrossLo, acrossHi>>
ChannelBounds(r, h, pos, lo, hi) ==
    LET rs == {RectSpan(<<r.rects[i][1] - r.buf, r.rects[i][2] - r.buf, r.rects[i][3] + r.buf, r.rects[i][4] + r.buf>>, h) : i \in DOMAIN r.rects}   \* obstacles grown by the buffer distance
        blockers == {q \in rs : Mn(q[2], hi) - Mx(q[1], lo) > TOL}
        fixedSegs == {s \in Segs(r) : s.h = h /\ ~s.interior /\ Mn(s.hi, hi) - Mx(s.lo, lo) > TOL}
        above == {q[3] : q \in {q \in blockers : q[3] >= pos - TOL}} \cup {s.pos : s \in {s \in fixedSegs : s.pos > pos + TOL}}
        below == {q[4] : q \in {q \in blockers : q[4] <= pos + TOL}} \cup {s.pos : s \in {s \in fixedSegs : s.pos < pos - TOL}}
        up == IF above = {} THEN BIG ELSE CHOOSE x \in above : \A y \in above : x <= y
        dn == IF below = {} THEN -BIG ELSE CHOOSE x \in below : \A y \in below : x >= y
    IN  <<dn, up>>
\* a checkpoint on a segment ADJOINING the movable segment u limits how far u may move towards the far end of that adjoining segment
\* (moving further would shorten the adjoining segment past the checkpoint): <<lower limit, upper limit>> of u's position
CpLimits(r, u) ==
    LET D == Simplify(r.conns[u.c].disp)
        Across(p) == IF u.h THEN p[2] ELSE p[1]
        cps == r.conns[u.c].cps
        adj == (IF u.i > 1 THEN {<<D[u.i - 1], D[u.i]>>} ELSE {}) \cup (IF u.i + 2 <= Len(D) THEN {<<D[u.i + 2], D[u.i + 1]>>} ELSE {})     \* <<far end, bend>>
        ups == {Across(cps[q]) : q \in {q \in DOMAIN cps : \E a \in adj : OnSegT(a[1], a[2], cps[q]) /\ Across(a[1]) > u.pos + TOL}}
        dns == {Across(cps[q]) : q \in {q \in DOMAIN cps : \E a \in adj : OnSegT(a[1], a[2], cps[q]) /\ Across(a[1]) < u.pos - TOL}}
    IN  <<IF dns = {} THEN -BIG ELSE CHOOSE x \in dns : \A y \in dns : x >= y, IF ups = {} THEN BIG ELSE CHOOSE x \in ups : \A y \in ups : x <= y>>
\* free interval of a movable segment: between the nearest immovable things, and not past a checkpoint of an adjoining segment
FreeOf(r, u) == LET b == ChannelBounds(r, u.h, u.pos, u.lo, u.hi)  c == CpLimits(r, u) IN <<Mx(b[1], c[1]), Mn(b[2], c[2])>>
Tags(r) ==
    IF r.thrown THEN {"exception"} ELSE
    LET S == Segs(r)
        shared == {<<s, t>> \in S \X S : s.c < t.c /\ s.h = t.h /\ s.interior /\ t.interior /\ ~ShareEnd(r, s.c, t.c)
                                         /\ Abs(s.pos - t.pos) <= TOL /\ OverlapLen(s, t) > 2 * TOL}
        \* "segments that were separated": the same two segments (same index in routes that kept their number of segments) ran collinear
        \* and overlapping in the raw routes and no longer do; the smallest distance the 10-step reduction can choose is d/10
        R == SegsOf(r, TRUE)
        Kept(c) == Len(Simplify(r.conns[c].raw)) = Len(Simplify(r.conns[c].disp))
        WereShared(s, t) == \E a \in R, b \in R : a.c = s.c /\ a.i = s.i /\ b.c = t.c /\ b.i = t.i /\ a.h = b.h
                                                  /\ Abs(a.pos - b.pos) <= TOL /\ OverlapLen(a, b) > 2 * TOL
        close  == {<<s, t>> \in S \X S : s.c < t.c /\ s.h = t.h /\ s.interior /\ t.interior /\ ~ShareEnd(r, s.c, t.c) /\ Kept(s.c) /\ Kept(t.c)
                                         /\ Abs(s.pos - t.pos) > TOL /\ 10 * Abs(s.pos - t.pos) < r.d - 10 * TOL /\ OverlapLen(s, t) > 2 * TOL
                                         /\ WereShared(s, t)}
    IN  UNION { (IF ~Near(r.conns[c].disp[1], r.conns[c].raw[1]) \/ ~Near(r.conns[c].disp[Len(r.conns[c].disp)], r.conns[c].raw[Len(r.conns[c].raw)])
                 THEN {"endpoint-moved"} ELSE {})
                \cup (IF NSeg(r.conns[c].disp) > NSeg(r.conns[c].raw) THEN {"segments-added"} ELSE {})
                \cup (IF \E i \in DOMAIN r.conns[c].cps : ~OnRoute(r.conns[c].disp, r.conns[c].cps[i]) THEN {"checkpoint-off-route"} ELSE {})
                : c \in DOMAIN r.conns }
        \cup (LET Wide(p) == LET s == p[1] t == p[2]
                                  lo == Mx(s.lo, t.lo)  hi == Mn(s.hi, t.hi)
                                  \* the segments sharing this stretch; a segment moves as a whole, so each has the free interval of its
                                  \* own whole extent, and the channel they run in together is what those intervals have in common
                                  G == {u \in S : u.h = s.h /\ u.interior /\ Abs(u.pos - s.pos) <= TOL /\ Mn(u.hi, hi) - Mx(u.lo, lo) > 2 * TOL}
                                  B == [u \in G |-> FreeOf(r, u)]
                                  up == CHOOSE x \in {B[u][2] : u \in G} : \A y \in {B[u][2] : u \in G} : x <= y
                                  dn == CHOOSE x \in {B[u][1] : u \in G} : \A y \in {B[u][1] : u \in G} : x >= y
                              IN  up - dn >= Cardinality(G) * r.d + r.d
                  wide == {p \in shared : Wide(p)}
                  \* an endpoint of one connector lies on the other's displayed route: their shared path ends at that endpoint
                  EndOnOther(a, b) == \E q \in {r.conns[a].src, r.conns[a].dst} : OnRoute(r.conns[b].disp, q)
                  \* a movable (interior) segment lying on top of a first/last segment of another connector, with room for all the
                  \* movable segments of the stretch on BOTH sides of it (whatever order the router prefers, it can be moved off)
                  \* (with nudgeOrthogonalSegmentsConnectedToShapes, opts bit 0, first/last segments are movable themselves: rule not applied)
                  onFixed == {<<s, t>> \in S \X S : r.opts % 2 = 0 /\ s.c # t.c /\ s.h = t.h /\ s.interior /\ ~t.interior /\ ~ShareEnd(r, s.c, t.c)
                                                     /\ Abs(s.pos - t.pos) <= TOL /\ OverlapLen(s, t) > 2 * TOL}
                  WideF(p) == LET s == p[1] t == p[2]
                                   lo == Mx(s.lo, t.lo)  hi == Mn(s.hi, t.hi)
                                   M == {u \in S : u.h = s.h /\ u.interior /\ Abs(u.pos - s.pos) <= TOL /\ Mn(u.hi, hi) - Mx(u.lo, lo) > 2 * TOL}
                                   B == [u \in M |-> FreeOf(r, u)]
                                   up == CHOOSE x \in {B[u][2] : u \in M} : \A y \in {B[u][2] : u \in M} : x <= y
                                   dn == CHOOSE x \in {B[u][1] : u \in M} : \A y \in {B[u][1] : u \in M} : x >= y
                                   need == Cardinality(M) * r.d + r.d
                               IN  \/ up - s.pos >= need /\ s.pos - dn >= need
                                   \* or the stretch hugs an immovable thing on one side (no room at all there), so that the other side is the only way
                                   \/ s.pos - dn <= TOL /\ up - s.pos >= need
                                   \/ up - s.pos <= TOL /\ s.pos - dn >= need
                  wideF == {p \in onFixed : WideF(p)}
              IN  IF wide = {} /\ wideF # {}
                  THEN (IF \A p \in wideF : EndOnOther(p[1].c, p[2].c) \/ EndOnOther(p[2].c, p[1].c)
                        THEN {"overlap-with-end-segment-in-wide-channel:shared-path-ends-at-an-endpoint-of-one-connector"}
                        ELSE {"overlap-with-end-segment-in-wide-channel"})
                  ELSE IF wide = {} THEN {}
                  ELSE IF \A p \in wide : EndOnOther(p[1].c, p[2].c) \/ EndOnOther(p[2].c, p[1].c)
                       THEN {"overlap-in-wide-channel:shared-path-ends-at-an-endpoint-of-one-connector"}
                       ELSE {"overlap-in-wide-channel"})
        \* not a violation (the statement only promises a positive reduced distance, and segments are also placed by channel centring):
        \* reported as an observation "obs:..." and counted in the evidence
        \cup (IF close # {} THEN {"obs:separated-by-less-than-a-tenth-of-d"} ELSE {})
NonTrivial(r) == ~r.thrown /\ \E c \in DOMAIN r.conns : r.conns[c].disp # r.conns[c].raw /\ Len(r.conns[c].raw) > 2
VARIABLES k, phase, bad
vars == <<k, phase, bad>>
Init == k \in 0..(NChunks - 1) /\ phase = "todo" /\ bad = {}
Idx(kk) == {i \in (kk * CH + 1)..((kk + 1) * CH) : i <= Len(Recs)}
Eval == /\ phase = "todo" /\ phase' = "done" /\ UNCHANGED k
        /\ bad' = UNION { {<<i, t>> : t \in Tags(Recs[i])} : i \in Idx(k) }
        /\ PrintT(<<"STAT", "nudge", k, Cardinality({i \in Idx(k) : NonTrivial(Recs[i])})>>)
Spec == Init /\ [][Eval]_vars
AllGood == bad = {}
=============================================================================
