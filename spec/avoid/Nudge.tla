-------------------------------- MODULE Nudge --------------------------------
(* C10: what nudging may and may not do to orthogonal routes, judged on the *)
(* raw route R (before nudging) and the displayed route D (after) of every  *)
(* connector of a scene, on the 2^-10 lattice.                              *)
(*  - D starts and ends where R does (first/last point never moves)         *)
(*  - D has no more segments than R (collinear points merged in both)       *)
(*  - every checkpoint still lies on D                                      *)
(*  - two connectors without a common endpoint do not run collinear and     *)
(*    overlapping along a stretch of positive length with INTERIOR segments *)
(*    (first/last segments are pinned by the endpoints) when the channel -- *)
(*    the free interval perpendicular to the stretch between the nearest    *)
(*    immovable things: obstacle sides and first/last segments of any       *)
(*    connector -- has room for the k sharing segments at distance d        *)
(*  - parallel interior segments of different connectors that overlap in    *)
(*    extent are either coincident or at least d/10 apart (the smallest     *)
(*    distance the 10-step reduction can choose)                            *)
EXTENDS Integers, Sequences, FiniteSets, TLC, Json, IOUtils
Data == JsonDeserialize(IOEnv.NUDGERECS)
Recs == Data.recs     \* rects (x LS), d (x LS), conns: src, dst, raw, disp, cps (x LS)
CH == Data.chunk
NChunks == (Len(Recs) + CH - 1) \div CH
TOL == 3
BIG == 100000000
Abs(x) == IF x < 0 THEN -x ELSE x
Mx(a, b) == IF a >= b THEN a ELSE b
Mn(a, b) == IF a <= b THEN a ELSE b
Near(a, b) == Abs(a[1] - b[1]) <= TOL /\ Abs(a[2] - b[2]) <= TOL
\* merge collinear consecutive points (and drop repeated points) of an orthogonal route
Horiz(a, b) == Abs(a[2] - b[2]) <= TOL
Vert(a, b)  == Abs(a[1] - b[1]) <= TOL
RECURSIVE Simplify(_)
Simplify(rt) == IF Len(rt) <= 2 THEN rt
                ELSE IF Near(rt[1], rt[2]) THEN Simplify(Tail(rt))
                ELSE IF (Horiz(rt[1], rt[2]) /\ Horiz(rt[2], rt[3]) /\ ~Near(rt[2], rt[3])) \/ (Vert(rt[1], rt[2]) /\ Vert(rt[2], rt[3]) /\ ~Near(rt[2], rt[3]))
                     THEN Simplify(<<rt[1]>> \o Tail(Tail(rt)))
                     ELSE <<rt[1]>> \o Simplify(Tail(rt))
NSeg(rt) == LET s == Simplify(rt) IN IF Len(s) >= 2 /\ Near(s[Len(s) - 1], s[Len(s)]) THEN Len(s) - 2 ELSE Len(s) - 1
\* point p on segment ab (axis-parallel), within tolerance
OnSegT(a, b, p) == /\ p[1] >= Mn(a[1], b[1]) - TOL /\ p[1] <= Mx(a[1], b[1]) + TOL
                   /\ p[2] >= Mn(a[2], b[2]) - TOL /\ p[2] <= Mx(a[2], b[2]) + TOL
OnRoute(rt, p) == \E i \in 1..(Len(rt) - 1) : OnSegT(rt[i], rt[i + 1], p)
\* segments of the displayed routes: [c, i, h (horizontal?), pos (the fixed coordinate), lo, hi, interior]
Segs(r) == UNION { LET D == Simplify(r.conns[c].disp) IN
                   { [c |-> c, h |-> Horiz(D[i], D[i + 1]),
                      pos |-> IF Horiz(D[i], D[i + 1]) THEN D[i][2] ELSE D[i][1],
                      lo |-> IF Horiz(D[i], D[i + 1]) THEN Mn(D[i][1], D[i + 1][1]) ELSE Mn(D[i][2], D[i + 1][2]),
                      hi |-> IF Horiz(D[i], D[i + 1]) THEN Mx(D[i][1], D[i + 1][1]) ELSE Mx(D[i][2], D[i + 1][2]),
                      interior |-> i > 1 /\ i < Len(D) - 1] : i \in 1..(Len(D) - 1) } : c \in DOMAIN r.conns }
ShareEnd(r, a, b) == \E p \in {r.conns[a].src, r.conns[a].dst} : p \in {r.conns[b].src, r.conns[b].dst}
OverlapLen(s, t) == Mn(s.hi, t.hi) - Mx(s.lo, t.lo)
\* immovable things bounding the channel of a stretch [lo, hi] at coordinate pos (horizontal iff h)
RectSpan(q, h) == IF h THEN <<q[1], q[3], q[2], q[4]>> ELSE <<q[2], q[4], q[1], q[3]>>       \* <<alongLo, alongHi, acrossLo, acrossHi>>
ChannelWidth(r, h, pos, lo, hi) ==
    LET rs == {RectSpan(<<r.rects[i][1] - r.buf, r.rects[i][2] - r.buf, r.rects[i][3] + r.buf, r.rects[i][4] + r.buf>>, h) : i \in DOMAIN r.rects}   \* obstacles grown by the buffer distance
        blockers == {q \in rs : Mn(q[2], hi) - Mx(q[1], lo) > TOL}
        fixedSegs == {s \in Segs(r) : s.h = h /\ ~s.interior /\ Mn(s.hi, hi) - Mx(s.lo, lo) > TOL}
        above == {q[3] : q \in {q \in blockers : q[3] >= pos - TOL}} \cup {s.pos : s \in {s \in fixedSegs : s.pos > pos + TOL}}
        below == {q[4] : q \in {q \in blockers : q[4] <= pos + TOL}} \cup {s.pos : s \in {s \in fixedSegs : s.pos < pos - TOL}}
        up == IF above = {} THEN BIG ELSE CHOOSE x \in above : \A y \in above : x <= y
        dn == IF below = {} THEN -BIG ELSE CHOOSE x \in below : \A y \in below : x >= y
    IN  up - dn
Tags(r) ==
    IF r.thrown THEN {"exception"} ELSE
    LET S == Segs(r)
        shared == {<<s, t>> \in S \X S : s.c < t.c /\ s.h = t.h /\ s.interior /\ t.interior /\ ~ShareEnd(r, s.c, t.c)
                                         /\ Abs(s.pos - t.pos) <= TOL /\ OverlapLen(s, t) > 2 * TOL}
        close  == {<<s, t>> \in S \X S : s.c < t.c /\ s.h = t.h /\ s.interior /\ t.interior /\ ~ShareEnd(r, s.c, t.c)
                                         /\ Abs(s.pos - t.pos) > TOL /\ 10 * Abs(s.pos - t.pos) < r.d - 10 * TOL /\ OverlapLen(s, t) > 2 * TOL}
    IN  UNION { (IF ~Near(r.conns[c].disp[1], r.conns[c].raw[1]) \/ ~Near(r.conns[c].disp[Len(r.conns[c].disp)], r.conns[c].raw[Len(r.conns[c].raw)])
                 THEN {"endpoint-moved"} ELSE {})
                \cup (IF NSeg(r.conns[c].disp) > NSeg(r.conns[c].raw) THEN {"segments-added"} ELSE {})
                \cup (IF \E i \in DOMAIN r.conns[c].cps : ~OnRoute(r.conns[c].disp, r.conns[c].cps[i]) THEN {"checkpoint-off-route"} ELSE {})
                : c \in DOMAIN r.conns }
        \cup (IF \E p \in shared : LET s == p[1] t == p[2]
                                       lo == Mx(s.lo, t.lo)  hi == Mn(s.hi, t.hi)
                                       k == Cardinality({u \in S : u.h = s.h /\ u.interior /\ Abs(u.pos - s.pos) <= TOL /\ Mn(u.hi, hi) - Mx(u.lo, lo) > 2 * TOL})
                                   IN  ChannelWidth(r, s.h, s.pos, lo, hi) >= k * r.d + r.d
              THEN {"overlap-in-wide-channel"} ELSE {})
        \cup (IF close # {} THEN {"separated-by-less-than-a-tenth-of-d"} ELSE {})
NonTrivial(r) == ~r.thrown /\ \E c \in DOMAIN r.conns : r.conns[c].disp # r.conns[c].raw /\ Len(r.conns[c].raw) > 2
VARIABLES k, phase, bad
vars == <<k, phase, bad>>
Init == k \in 0..(NChunks - 1) /\ phase = "todo" /\ bad = {}
Idx(kk) == {i \in (kk * CH + 1)..((kk + 1) * CH) : i <= Len(Recs)}
Eval == /\ phase = "todo" /\ phase' = "done" /\ UNCHANGED k
        /\ bad' = UNION { {<<i, t>> : t \in Tags(Recs[i])} : i \in Idx(k) }
        /\ PrintT(<<"STAT", "nudge", k, Cardinality({i \in Idx(k) : NonTrivial(Recs[i])})>>)
Spec == Init /\ [][Eval]_vars
AllGood == bad = {}
=============================================================================
