--------------------------------- MODULE Pins ---------------------------------
(* C11: pins, junctions and checkpoints are honoured.  Judged on the        *)
(* projection the harness records at every processing point: shapes,        *)
(* pins (definition + position the library reports), junctions,             *)
(* connectors (attachment of each end, raw route, checkpoints).             *)
(*  - PinPos: the position of a pin is re-derived from its definition and   *)
(*    the CURRENT rectangle of its shape (so pins follow moves and resizes) *)
(*  - an end attached to (shape, class) ends exactly on some pin of that    *)
(*    class of that shape; there must be an assignment of ends to pins in   *)
(*    which no exclusive pin serves two ends (an existential matching, so   *)
(*    coincident pins can never cause a false alarm)                        *)
(*  - orthogonal routes leave a pin in one of its directions (evaluated     *)
(*    when a positive buffer separates the pin from the shape's side)       *)
(*  - an end attached to a junction ends at the junction's position         *)
(*  - checkpoints lie on the route, in the given order                      *)
EXTENDS Integers, Sequences, FiniteSets, TLC, Json, IOUtils
Data == JsonDeserialize(IOEnv.PINRECS)
Recs == Data.recs
CH == Data.chunk
NChunks == (Len(Recs) + CH - 1) \div CH
LS == 1024
Abs(x) == IF x < 0 THEN -x ELSE x
Mn(a, b) == IF a <= b THEN a ELSE b
Mx(a, b) == IF a >= b THEN a ELSE b
RectOf(r, s) == LET q == r.shapes[CHOOSE i \in DOMAIN r.shapes : r.shapes[i][1] = s] IN <<q[2], q[3], q[4], q[5]>>
HasShape(r, s) == \E i \in DOMAIN r.shapes : r.shapes[i][1] = s
\* position of a proportional pin (offsets in quarters), with the inside offset applied on the boundary it lies on
PinPos(p, q) ==
    LET x0 == q[1] + (p.xq * (q[3] - q[1])) \div 4
        y0 == q[2] + (p.yq * (q[4] - q[2])) \div 4
        x == IF p.xq = 0 THEN x0 + p.inside * LS ELSE IF p.xq = 4 THEN x0 - p.inside * LS ELSE x0
        y == IF p.yq = 0 THEN y0 + p.inside * LS ELSE IF p.yq = 4 THEN y0 - p.inside * LS ELSE y0
    IN  <<x, y>>
\* position of a pin with absolute offsets (units from the top-left corner; 0 = near edge, -1 or the current width/height = far edge)
AbsPinPos(p, q) ==
    LET x == IF p.xq = 0 THEN q[1] + p.inside * LS ELSE IF p.xq = -1 \/ p.xq * LS = q[3] - q[1] THEN q[3] - p.inside * LS ELSE q[1] + p.xq * LS
        y == IF p.yq = 0 THEN q[2] + p.inside * LS ELSE IF p.yq = -1 \/ p.yq * LS = q[4] - q[2] THEN q[4] - p.inside * LS ELSE q[2] + p.yq * LS
    IN  <<x, y>>
PinsOf(r, s, c) == {i \in DOMAIN r.pins : r.pins[i].s = s /\ r.pins[i].c = c}
\* the pin-attached ends of the snapshot: <<connector index, 1 | 2>>
PinEnds(r) == {<<i, e>> \in (DOMAIN r.conns) \X {1, 2} : (IF e = 1 THEN r.conns[i].src ELSE r.conns[i].dst).t = 1}
EndRec(r, pe) == IF pe[2] = 1 THEN r.conns[pe[1]].src ELSE r.conns[pe[1]].dst
RoutePt(r, pe) == LET rt == r.conns[pe[1]].raw IN IF pe[2] = 1 THEN rt[1] ELSE rt[Len(rt)]
\* is there an assignment of the pin ends to pins (of their class, at their route end) with exclusive pins used at most once?
RECURSIVE Assign(_, _, _)
Assign(r, todo, used) ==
    IF todo = {} THEN TRUE
    ELSE LET pe == CHOOSE x \in todo : TRUE
             e  == EndRec(r, pe)
             cands == {i \in PinsOf(r, e.s, e.c) : r.pins[i].p = RoutePt(r, pe) /\ ~(r.pins[i].excl /\ i \in used)}
         IN  \E i \in cands : Assign(r, todo \ {pe}, IF r.pins[i].excl THEN used \cup {i} ELSE used)
\* demand does not exceed what the pins of a class can serve (otherwise "a free pin exists" fails for somebody)
ServableEnd(r, pe) == LET e == EndRec(r, pe) IN
                   \/ \E i \in PinsOf(r, e.s, e.c) : ~r.pins[i].excl
                   \/ Cardinality({q \in PinEnds(r) : EndRec(r, q).s = e.s /\ EndRec(r, q).c = e.c}) <= Cardinality(PinsOf(r, e.s, e.c))
Servable(r) == \A pe \in PinEnds(r) : ServableEnd(r, pe)
DirFlag(a, b) == IF b[2] < a[2] THEN 1 ELSE IF b[2] > a[2] THEN 2 ELSE IF b[1] < a[1] THEN 4 ELSE IF b[1] > a[1] THEN 8 ELSE 0
HasFlag(mask, f) == f # 0 /\ (mask \div f) % 2 = 1
RECURSIVE Dedup(_)
Dedup(rt) == IF Len(rt) <= 1 THEN rt ELSE IF rt[1] = rt[2] THEN Dedup(Tail(rt)) ELSE <<rt[1]>> \o Dedup(Tail(rt))
OnSeg(a, b, p) == /\ (b[1] - a[1]) * (p[2] - a[2]) = (b[2] - a[2]) * (p[1] - a[1])
                  /\ p[1] >= Mn(a[1], b[1]) /\ p[1] <= Mx(a[1], b[1]) /\ p[2] >= Mn(a[2], b[2]) /\ p[2] <= Mx(a[2], b[2])
\* checkpoints visited in order along the route: greedy scan
RECURSIVE Visits(_, _, _)
Visits(rt, i, cps) == IF cps = <<>> THEN TRUE
                      ELSE IF i >= Len(rt) THEN FALSE
                      ELSE IF OnSeg(rt[i], rt[i + 1], cps[1]) THEN Visits(rt, i, Tail(cps)) ELSE Visits(rt, i + 1, cps)
\* the route of connector i stops (at its end e) on one of the connector's own checkpoints instead of on the attachment
EndsOnCheckpoint(r, i, e) == LET rt == r.conns[i].raw  pt == IF e = 1 THEN rt[1] ELSE rt[Len(rt)]
                             IN  \E q \in DOMAIN r.conns[i].cps : r.conns[i].cps[q] = pt
Tags(r) ==
    (IF \E i \in DOMAIN r.pins : HasShape(r, r.pins[i].s) /\ r.pins[i].p # (IF r.pins[i].prop THEN PinPos(r.pins[i], RectOf(r, r.pins[i].s)) ELSE AbsPinPos(r.pins[i], RectOf(r, r.pins[i].s)))
     THEN {"pin-position-does-not-follow-shape"} ELSE {})
    \cup (IF \E pe \in PinEnds(r) : ~HasShape(r, EndRec(r, pe).s) \/ PinsOf(r, EndRec(r, pe).s, EndRec(r, pe).c) = {} THEN {"end-attached-to-missing-pin"} ELSE {})
    \cup (IF (\A pe \in PinEnds(r) : HasShape(r, EndRec(r, pe).s) /\ Len(r.conns[pe[1]].raw) >= 2) /\ Servable(r) /\ ~Assign(r, PinEnds(r), {})
          THEN (IF \E pe \in PinEnds(r) : Len(r.conns[pe[1]].raw) >= 2 /\ EndsOnCheckpoint(r, pe[1], pe[2])
                     /\ ~\E q \in PinsOf(r, EndRec(r, pe).s, EndRec(r, pe).c) : r.pins[q].p = RoutePt(r, pe)
                THEN {"pin-end-not-on-a-free-pin-of-its-class:route-ends-on-a-checkpoint"} ELSE {"pin-end-not-on-a-free-pin-of-its-class"})
          ELSE {})
    \cup (IF r.mode = 1 /\ r.buf > 0 /\ \E pe \in PinEnds(r) : LET rt == Dedup(r.conns[pe[1]].raw)
                                                                   e == EndRec(r, pe)
                                                                   a == IF pe[2] = 1 THEN rt[1] ELSE rt[Len(rt)]
                                                                   b == IF pe[2] = 1 THEN rt[2] ELSE rt[Len(rt) - 1]
                                                               IN  Len(rt) >= 2 /\ HasShape(r, e.s) /\
                                                                   \* ("provided a free pin exists": when more ends ask for an exclusive class than it has pins,
                                                                   \*  the one left over is drawn as a straight line from a pin that is not its own)
                                                                   ServableEnd(r, pe) /\
                                                                   \* the end does sit on a pin of its class (not on the fallback when no free pin exists) and
                                                                   \* none of the pins of that class at that point allows the direction taken
                                                                   (\E i \in PinsOf(r, e.s, e.c) : r.pins[i].p = a) /\
                                                                   \A i \in PinsOf(r, e.s, e.c) : r.pins[i].p = a => ~HasFlag(r.pins[i].dirs, DirFlag(a, b))
          THEN {"leaves-pin-in-a-forbidden-direction"} ELSE {})
    \cup (IF \E i \in DOMAIN r.conns, e \in {1, 2} :
              LET en == IF e = 1 THEN r.conns[i].src ELSE r.conns[i].dst
                  rt == r.conns[i].raw
                  pt == IF e = 1 THEN rt[1] ELSE rt[Len(rt)]
              IN  en.t = 2 /\ Len(rt) >= 2 /\ \A k \in DOMAIN r.juncs : r.juncs[k].id = en.j => (pt # r.juncs[k].p /\ pt # r.juncs[k].rp)
          THEN (IF \A i \in DOMAIN r.conns, e \in {1, 2} :
                     LET en == IF e = 1 THEN r.conns[i].src ELSE r.conns[i].dst
                         rt == r.conns[i].raw
                         pt == IF e = 1 THEN rt[1] ELSE rt[Len(rt)]
                     IN  (en.t = 2 /\ Len(rt) >= 2 /\ \A k \in DOMAIN r.juncs : r.juncs[k].id = en.j => (pt # r.juncs[k].p /\ pt # r.juncs[k].rp))
                         => EndsOnCheckpoint(r, i, e)
                THEN {"junction-end-not-at-junction:route-ends-on-a-checkpoint"} ELSE {"junction-end-not-at-junction"})
          ELSE {})
    \* (a connector that found no free pin falls back to a straight centre line; that case is the pin clause's, not this one's)
    \* ("If a checkpoint is unreachable because it lies inside an obstacle, then that checkpoint will be skipped": checkpoints in or on
    \*  a shape grown by the buffer distance are left out of the demand)
    \cup (IF \E i \in DOMAIN r.conns : r.conns[i].cps # <<>> /\ Len(r.conns[i].raw) >= 2
                                         /\ LET OutS(p, q) == LET sh == r.shapes[q] IN
                                                               (p[1] < sh[2] - r.buf * LS) \/ (p[1] > sh[4] + r.buf * LS) \/ (p[2] < sh[3] - r.buf * LS) \/ (p[2] > sh[5] + r.buf * LS)
                                                \* a junction is an obstacle too: its rectangle is its position +-1, grown by the buffer
                                                OutJ(p, q) == LET jp == r.juncs[q].p  h == (1 + r.buf) * LS IN
                                                               (p[1] < jp[1] - h) \/ (p[1] > jp[1] + h) \/ (p[2] < jp[2] - h) \/ (p[2] > jp[2] + h)
                                                Free(p) == (\A q \in DOMAIN r.shapes : OutS(p, q)) /\ (\A q \in DOMAIN r.juncs : OutJ(p, q))
                                                demand == SelectSeq(r.conns[i].cps, Free)
                                            IN  ~Visits(r.conns[i].raw, 1, demand)
                                         /\ \A e \in {1, 2} : <<i, e>> \in PinEnds(r) =>
                                                (HasShape(r, EndRec(r, <<i, e>>).s) /\ \E q \in PinsOf(r, EndRec(r, <<i, e>>).s, EndRec(r, <<i, e>>).c) : r.pins[q].p = RoutePt(r, <<i, e>>))
          THEN {"checkpoints-not-visited-in-order"} ELSE {})
NonTrivial(r) == PinEnds(r) # {} \/ \E i \in DOMAIN r.conns : r.conns[i].cps # <<>> \/ r.conns[i].src.t = 2 \/ r.conns[i].dst.t = 2
VARIABLES k, phase, bad
vars == <<k, phase, bad>>
Init == k \in 0..(NChunks - 1) /\ phase = "todo" /\ bad = {}
Idx(kk) == {i \in (kk * CH + 1)..((kk + 1) * CH) : i <= Len(Recs)}
Eval == /\ phase = "todo" /\ phase' = "done" /\ UNCHANGED k
        /\ bad' = UNION { {<<i, t>> : t \in Tags(Recs[i])} : i \in Idx(k) }
        /\ PrintT(<<"STAT", "pins", k, Cardinality({i \in Idx(k) : NonTrivial(Recs[i])})>>)
Spec == Init /\ [][Eval]_vars
AllHonoured == bad = {}
=============================================================================
