------------------------------- MODULE Hyperedge -------------------------------
(* C12: after any transaction -- including hyperedge rerouting and          *)
(* improvement that moves, adds or deletes junctions -- the connectors and  *)
(* junctions of a hyperedge form one tree whose leaves are exactly the      *)
(* terminal attachments it had before.  Judged on the projection recorded   *)
(* at each processing point.  Abstract graph: a node per live junction that *)
(* carries a connector, a leaf per non-junction connector end; an edge per  *)
(* connector.                                                               *)
EXTENDS Integers, Sequences, FiniteSets, SequencesExt, TLC, Json, IOUtils
Data == JsonDeserialize(IOEnv.HYPERRECS)
Recs == Data.recs        \* snapshot + terms (the terminals the hyperedge was built with: <<k, a, b>>, points x LS)
CH == Data.chunk
NChunks == (Len(Recs) + CH - 1) \div CH
EndsOf(c) == <<c.src, c.dst>>
JNode(e) == <<"j", e.j, 0>>
\* a leaf for a non-junction end: identified by what it is attached to
Leaf(e) == IF e.t = 1 THEN <<"p", e.s, e.c>> ELSE IF e.t = 0 THEN <<"q", e.p[1], e.p[2]>> ELSE <<"empty", 0, 0>>
NodeOf(e) == IF e.t = 2 THEN JNode(e) ELSE Leaf(e)
Edges(r) == {<<NodeOf(r.conns[i].src), NodeOf(r.conns[i].dst)>> : i \in DOMAIN r.conns}
Nodes(r) == {ed[1] : ed \in Edges(r)} \cup {ed[2] : ed \in Edges(r)}
RECURSIVE Reach(_, _)
Reach(S, E) == LET T == S \cup {ed[2] : ed \in {ed \in E : ed[1] \in S}} \cup {ed[1] : ed \in {ed \in E : ed[2] \in S}}
               IN  IF T = S THEN S ELSE Reach(T, E)
Degree(r, n) == Cardinality({i \in DOMAIN r.conns : NodeOf(r.conns[i].src) = n}) + Cardinality({i \in DOMAIN r.conns : NodeOf(r.conns[i].dst) = n})
ExpectedLeaves(r) == {IF t[1] = 1 THEN <<"p", t[2], t[3]>> ELSE <<"q", t[2], t[3]>> : t \in {r.terms[i] : i \in DOMAIN r.terms}}
LiveConnIds(r) == {r.conns[i].id : i \in DOMAIN r.conns}
LiveJuncIds(r) == {r.juncs[i].id : i \in DOMAIN r.juncs}
ToSetH(s) == {s[i] : i \in DOMAIN s}
PinPositions(r, s, c) == {r.pins[i].p : i \in {i \in DOMAIN r.pins : r.pins[i].s = s /\ r.pins[i].c = c}}
EndPositions(r, e) == IF e.t = 2 THEN UNION {{r.juncs[i].p, r.juncs[i].rp} : i \in {i \in DOMAIN r.juncs : r.juncs[i].id = e.j}}
                      ELSE IF e.t = 1 THEN PinPositions(r, e.s, e.c) ELSE {e.p}
Tags(r) ==
    LET E == Edges(r)  N == Nodes(r)
        leaves == {n \in N : n[1] # "j"}
    IN  (IF \E i \in DOMAIN r.conns : r.conns[i].src.t = 3 \/ r.conns[i].dst.t = 3 THEN {"connector-end-unattached"} ELSE {})
        \cup (IF leaves # ExpectedLeaves(r) THEN {"terminals-changed"} ELSE {})
        \cup (IF N # {} /\ Reach({CHOOSE n \in N : TRUE}, E) # N THEN {"not-connected"} ELSE {})
        \cup (IF Len(r.conns) # Cardinality(N) - 1 THEN {"not-a-tree"} ELSE {})
        \cup (IF \E n \in N : n[1] = "j" /\ Degree(r, n) < 2 THEN {"junction-is-a-leaf"} ELSE {})
        \cup (IF \E n \in leaves : Degree(r, n) # 1 THEN {"terminal-used-twice"} ELSE {})
        \cup (IF ~(ToSetH(r.newC) \subseteq LiveConnIds(r)) \/ ~(ToSetH(r.newJ) \subseteq LiveJuncIds(r)) THEN {"reported-new-object-not-live"} ELSE {})
        \cup (IF ToSetH(r.delC) \cap LiveConnIds(r) # {} THEN {"reported-deleted-connector-still-live"} ELSE {})
        \* the lists describe THIS transaction: nothing reported new was there before it (prevJ / prevC: the ids alive after the previous one)
        \cup (IF ToSetH(r.newJ) \cap ToSetH(r.prevJ) # {} \/ ToSetH(r.newC) \cap ToSetH(r.prevC) # {} THEN {"reported-new-object-existed-before-the-transaction"} ELSE {})
        \cup (IF \E i \in DOMAIN r.conns : \E e \in {r.conns[i].src, r.conns[i].dst} : e.t = 2 /\ e.j \in ToSetH(r.delJ) THEN {"connector-attached-to-deleted-junction"} ELSE {})
        \cup (IF \E i \in DOMAIN r.conns : Len(r.conns[i].disp) < 2 THEN {"route-with-fewer-than-two-points"} ELSE {})
        \cup (IF \E i \in DOMAIN r.conns : LET c == r.conns[i] IN Len(c.disp) >= 2 /\
                    ~( (c.disp[1] \in EndPositions(r, c.src) /\ c.disp[Len(c.disp)] \in EndPositions(r, c.dst))
                       \/ (c.disp[1] \in EndPositions(r, c.dst) /\ c.disp[Len(c.disp)] \in EndPositions(r, c.src)) )
              THEN {"route-does-not-join-its-attachments"} ELSE {})
NonTrivial(r) == r.newJ # <<>> \/ r.delJ # <<>> \/ r.newC # <<>> \/ r.delC # <<>> \/ \E i \in DOMAIN r.juncs : r.juncs[i].p # r.juncs[i].rp
VARIABLES k, phase, bad
vars == <<k, phase, bad>>
Init == k \in 0..(NChunks - 1) /\ phase = "todo" /\ bad = {}
Idx(kk) == {i \in (kk * CH + 1)..((kk + 1) * CH) : i <= Len(Recs)}
Eval == /\ phase = "todo" /\ phase' = "done" /\ UNCHANGED k
        /\ bad' = UNION { {<<i, t>> : t \in Tags(Recs[i])} : i \in Idx(k) }
        /\ PrintT(<<"STAT", "hyper", k, Cardinality({i \in Idx(k) : NonTrivial(Recs[i])})>>)
Spec == Init /\ [][Eval]_vars
AllTrees == bad = {}
\* ---- B1: hyperedge scenarios (terminal sets x junction position x improvement options x follow-up transaction) ----
\* follow-up: 0 none, 1 a terminal's shape moved, 2 an empty transaction, 3 a terminal's shape and every junction moved in one transaction,
\*            4 the adding/deleting improvement option switched off (the junction-moving one left on), then a terminal's shape moved
\* terminals are shape pins (the statement's quantifier): classes 1 and 2 of three shapes
TermCat == {<<1, 1, 1>>, <<1, 1, 2>>, <<1, 2, 1>>, <<1, 2, 2>>, <<1, 3, 1>>, <<1, 3, 2>>}
Scenarios0 == {[geo |-> 0, terms |-> SetToSeq(T), jp |-> jp, opts |-> op, follow |-> f] :
                 T \in {T \in SUBSET TermCat : Cardinality(T) \in {3, 4}}, jp \in {<<12, 11>>, <<11, 12>>, <<5, 12>>}, op \in {2, 4, 6, 3}, f \in 0..4}
\* second geometry: a junction with a shape straight above and below it and two or three shapes further along one line, whose pins face
\* that line -- several connectors leave the junction along a shared path while others leave in other directions (degree 4..5)
TermCat1 == {<<1, s, 1>> : s \in 1..5}
Scenarios1 == {[geo |-> 1, terms |-> SetToSeq(T), jp |-> jp, opts |-> op, follow |-> f] :
                 T \in {T \in SUBSET TermCat1 : Cardinality(T) \in {4, 5}}, jp \in {<<10, 30>>, <<25, 30>>, <<10, 20>>}, op \in {2, 4, 6, 3}, f \in 0..4}
\* registration by terminal list instead of by junction (no junction or connector exists beforehand: the rerouter creates them)
Scen2(g, Cat) == {[geo |-> g, reg |-> 1, terms |-> SetToSeq(T), jp |-> <<0, 0>>, opts |-> op, follow |-> f] :
                    T \in {T \in SUBSET Cat : Cardinality(T) \in {3, 4}}, op \in {2, 6}, f \in 0..4}
Scenarios2 == Scen2(0, TermCat) \cup Scen2(1, TermCat1)
\* pass = 1 (first geometry, registration by junction): the last terminal hangs on a second junction with just two connectors, which
\* sits between the registered junction and that terminal (a junction made by splitting a connector)
Scenarios == {[geo |-> x.geo, reg |-> 0, pass |-> 0, terms |-> x.terms, jp |-> x.jp, opts |-> x.opts, follow |-> x.follow] : x \in Scenarios0 \cup Scenarios1}
             \cup {[geo |-> 0, reg |-> 0, pass |-> 1, terms |-> x.terms, jp |-> x.jp, opts |-> x.opts, follow |-> x.follow] : x \in {y \in Scenarios0 : Len(y.terms) = 4}}
             \cup {[geo |-> x.geo, reg |-> 1, pass |-> 0, terms |-> x.terms, jp |-> x.jp, opts |-> x.opts, follow |-> x.follow] : x \in Scenarios2}
GenInit == /\ JsonSerialize(IOEnv.HYPERGEN, SetToSeq(Scenarios)) /\ k = Cardinality(Scenarios) /\ phase = "gen" /\ bad = {}
GenSpec == GenInit /\ [][UNCHANGED vars]_vars
=============================================================================
