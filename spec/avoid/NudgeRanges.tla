----------------------------- MODULE NudgeRanges -----------------------------
(* Design-level model of the bookkeeping that nudgeOrthogonalRoutes()       *)
(* (libavoid/orthogonal.cpp) uses to find the "unsatisfied ranges" of       *)
(* solver variables whose gap constraints it will relax: the loop over vs   *)
(* after every solve, exactly as written there.  It explains the known      *)
(* findings F11 and F34: the loop assumes the variables come in the order   *)
(*   left channel edge, segments ..., right channel edge                    *)
(* while the code that builds vs pushes, per segment,                       *)
(*   the segment's variable, then its left edge, then its right edge,       *)
(* each edge only when the segment is movable and sees a boundary on that   *)
(* side.  TLC finds the two assertion sites reachable:                      *)
(*   InBounds  (F11: a range ends one past the last variable, read at       *)
(*              orthogonal.cpp:3041)                                        *)
(*   LeftBeforeRight (F34: 'vs[i - 1]->id == channelLeftID', line 2925)     *)
(* The set of unsatisfied variables is over-approximated (any set of        *)
(* non-free variables); the implementation reaches both sites on real       *)
(* scenes (known-findings.txt), so the counterexamples are not artefacts.   *)
EXTENDS Integers, Sequences, FiniteSets, TLC
CONSTANT NSEG
\* a segment: fixed (immovable) or free, with/without a boundary seen on the left/right
SegKinds == {[fixed |-> TRUE, l |-> FALSE, r |-> FALSE]} \cup {[fixed |-> FALSE, l |-> a, r |-> b] : a, b \in BOOLEAN}
VarsOf(sg) == <<IF sg.fixed THEN "fixed" ELSE "free">> \o (IF sg.l THEN <<"L">> ELSE <<>>) \o (IF sg.r THEN <<"R">> ELSE <<>>)
RECURSIVE Flat(_)
Flat(ss) == IF ss = <<>> THEN <<>> ELSE VarsOf(Head(ss)) \o Flat(Tail(ss))
VARIABLES vs, unsat, i, ranges, pc, bad
vars == <<vs, unsat, i, ranges, pc, bad>>
Init == /\ \E ss \in UNION {[1..n -> SegKinds] : n \in 1..NSEG} : vs = Flat(ss)
        /\ unsat \in SUBSET {k \in 1..Len(vs) : vs[k] # "free"}
        /\ i = 1 /\ ranges = <<>> /\ pc = "scan" /\ bad = "none"
Last == ranges[Len(ranges)]
Step == /\ pc = "scan" /\ i <= Len(vs) /\ i' = i + 1 /\ UNCHANGED <<vs, unsat>>
        /\ IF i \notin unsat THEN UNCHANGED <<ranges, bad>> /\ pc' = "scan"
           ELSE IF vs[i] = "L"
                THEN /\ ranges' = IF ranges = <<>> \/ Last[1] # Last[2] THEN Append(ranges, <<i, i + 1>>) ELSE ranges
                     /\ UNCHANGED bad /\ pc' = "scan"
           ELSE IF vs[i] = "R"
                THEN IF ranges = <<>>
                     THEN IF i > 1 /\ vs[i - 1] = "L"
                          THEN ranges' = <<<<i - 1, i>>>> /\ UNCHANGED bad /\ pc' = "scan"
                          ELSE bad' = "assert vs[i-1]->id == channelLeftID" /\ UNCHANGED ranges /\ pc' = "abort"
                     ELSE ranges' = [ranges EXCEPT ![Len(ranges)] = <<Last[1], i>>] /\ UNCHANGED bad /\ pc' = "scan"
           ELSE \* fixed segment
                /\ ranges' = IF ranges = <<>> THEN <<<<i, i>>>> ELSE [ranges EXCEPT ![Len(ranges)] = <<Last[1], i>>]
                /\ UNCHANGED bad /\ pc' = "scan"
\* after the scan: the debug loop at lines 3036-3042 reads vs[first] and vs[second] of every range
Check == /\ pc = "scan" /\ i > Len(vs) /\ pc' = "done" /\ UNCHANGED <<vs, unsat, i, ranges>>
         /\ bad' = IF \E k \in DOMAIN ranges : ranges[k][2] > Len(vs) THEN "read past the end of vs"
                   ELSE IF \E k \in DOMAIN ranges : vs[ranges[k][1]] = "free" \/ vs[ranges[k][2]] = "free" THEN "assert vs[it->second]->id != freeSegmentID"
                   ELSE "none"
Next == Step \/ Check
Spec == Init /\ [][Next]_vars
InBounds == bad \notin {"read past the end of vs", "assert vs[it->second]->id != freeSegmentID"}
LeftBeforeRight == bad # "assert vs[i-1]->id == channelLeftID"
=============================================================================
