SPECIFICATION Spec
CONSTANT NSEG = 2
INVARIANT InBounds
INVARIANT LeftBeforeRight
CHECK_DEADLOCK FALSE
