SPECIFICATION Spec
CONSTANTS
 ShapeIds = {1, 2}
 ConnIds = {1}
 HLEN = 4
 MAXSTEPS = 2
 PACE = 0
 SHAPESONLY = FALSE
INVARIANTS QueueWellFormed SceneIsWhatWasAskedFor
VIEW View
CHECK_DEADLOCK FALSE
