------------------------------- MODULE Lifecycle -------------------------------
(* C15 (object level), and the history generator for C11/C12: the ownership *)
(* protocol of libavoid at object granularity.  Objects (shapes, pins,      *)
(* junctions, connectors) are Unborn -> Queued -> Live -> Dying -> Freed;   *)
(* references are connector ends (-> shape pin class / junction), pins      *)
(* (-> shape) and hyperedge registrations (-> junction).  Legal histories   *)
(* are exactly the behaviours of this module: the documented preconditions  *)
(* are the enabling conditions.  With transactions off a call is processed  *)
(* at once.                                                                  *)
EXTENDS Integers, Sequences, FiniteSets, TLC, Json
CONSTANTS ShapeIds, JuncIds, ConnIds, HLEN
Rects == {<<2, 2, 10, 10>>, <<14, 2, 22, 10>>, <<2, 14, 10, 22>>, <<14, 14, 22, 22>>}
Pts   == {<<12, 1>>, <<1, 12>>, <<23, 12>>, <<12, 23>>, <<12, 12>>}
\* junction positions: never on a free endpoint (a junction is an obstacle; an endpoint on its centre is degenerate) -- odd coordinate, even moves
JPts  == {<<12, 11>>, <<11, 12>>, <<13, 12>>}
\* pin catalogue: <<class, x offset, y offset, inside, dirs, exclusive, proportional>>: proportional offsets in quarters of the shape;
\* absolute offsets in units from the top-left corner, 0 = ATTACH_POS_MIN_OFFSET, -1 = ATTACH_POS_MAX_OFFSET (the far edge, whatever the size)
PinCat == {<<1, 0, 2, 0, 4, 1, 1>>, <<1, 4, 2, 0, 8, 1, 1>>, <<1, 2, 0, 0, 1, 0, 1>>, <<2, 2, 4, 0, 2, 0, 1>>, <<2, 2, 2, 0, 15, 0, 1>>, <<1, 2, 2, 1, 15, 1, 1>>,
           <<1, -1, 4, 0, 8, 0, 0>>, <<2, 4, -1, 1, 2, 0, 0>>, <<2, 0, 3, 0, 4, 1, 0>>,
           <<1, 4, 2, 1, 8, 1, 1>>}      \* (the last one differs from the second only in its inside offset: two pins of one class at one place on the side)
Moves == {<<2, 0>>, <<0, -2>>, <<-2, 2>>}
VARIABLES shp, rect, pins, jn, jpos, cn, cend, txn, hreg, fresh, hist
vars == <<shp, rect, pins, jn, jpos, cn, cend, txn, hreg, fresh, hist>>
\* shp/jn/cn : id -> "none" | "queued" | "live" | "dying" ; fresh: objects created in the current transaction, plus the
\* marker Queued when any action at all (a move, an end change, a new pin, new checkpoints) waits in the router's action list
Queued == 0
Exists(st) == st \in {"queued", "live"}
Init == /\ shp = [s \in ShapeIds |-> "none"] /\ rect = [s \in ShapeIds |-> <<0, 0, 0, 0>>] /\ pins = {}
        /\ jn = [j \in JuncIds |-> "none"] /\ jpos = [j \in JuncIds |-> <<0, 0>>]
        /\ cn = [c \in ConnIds |-> "none"] /\ cend = [c \in ConnIds |-> <<[k |-> 0, a |-> 0, b |-> 0], [k |-> 0, a |-> 0, b |-> 0]>>]
        /\ txn = TRUE /\ hreg = {} /\ fresh = {} /\ hist = <<>>
Op(o) == hist' = Append(hist, o)
Disjoint(r, q) == r[3] <= q[1] \/ q[3] <= r[1] \/ r[4] <= q[2] \/ q[4] <= r[2]
RectFree(s, r) == \A t \in ShapeIds \ {s} : shp[t] = "none" \/ Disjoint(r, rect[t])
\* settle: what processTransaction() does to object states
Settle(st) == IF st = "queued" THEN "live" ELSE IF st = "dying" THEN "none" ELSE st
Detach(e, sh) == IF e.k = 1 /\ Settle(sh[e.a]) = "none" THEN [k |-> 0, a |-> -1, b |-> -1] ELSE e    \* the end of a deleted shape becomes a free point
ProcessNow == /\ shp' = [s \in ShapeIds |-> Settle(shp[s])] /\ jn' = [j \in JuncIds |-> Settle(jn[j])] /\ cn' = [c \in ConnIds |-> Settle(cn[c])]
              /\ pins' = {p \in pins : Settle(shp[p[1]]) # "none"}
              /\ cend' = [c \in ConnIds |-> <<Detach(cend[c][1], shp), Detach(cend[c][2], shp)>>]
              /\ hreg' = {} /\ fresh' = {}
\* an action that changed (shp2, jn2, cn2, pins2, cend2) -- processed at once when transactions are off
After(shp2, jn2, cn2, pins2, cend2, fr) ==
    IF txn THEN shp' = shp2 /\ jn' = jn2 /\ cn' = cn2 /\ pins' = pins2 /\ cend' = cend2 /\ fresh' = fresh \cup fr \cup {Queued} /\ UNCHANGED hreg
    ELSE /\ shp' = [s \in ShapeIds |-> Settle(shp2[s])] /\ jn' = [j \in JuncIds |-> Settle(jn2[j])] /\ cn' = [c \in ConnIds |-> Settle(cn2[c])]
         /\ pins' = {p \in pins2 : Settle(shp2[p[1]]) # "none"}
         /\ cend' = [c \in ConnIds |-> <<Detach(cend2[c][1], shp2), Detach(cend2[c][2], shp2)>>] /\ hreg' = {} /\ fresh' = {}
EndOK(e) == \/ e.k = 0
            \/ e.k = 1 /\ Exists(shp[e.a]) /\ \E p \in pins : p[1] = e.a /\ p[2][1] = e.b
            \/ e.k = 2 /\ Exists(jn[e.a])
Ends == {[k |-> 0, a |-> p[1], b |-> p[2]] : p \in Pts} \cup {[k |-> 1, a |-> s, b |-> c] : s \in ShapeIds, c \in 1..2} \cup {[k |-> 2, a |-> j, b |-> 0] : j \in JuncIds}
Attached(j) == {c \in ConnIds : Exists(cn[c]) /\ (\E i \in 1..2 : cend[c][i].k = 2 /\ cend[c][i].a = j)}
UsesShape(s) == {c \in ConnIds : Exists(cn[c]) /\ (\E i \in 1..2 : cend[c][i].k = 1 /\ cend[c][i].a = s)}

NewShape(s, r) == /\ shp[s] = "none" /\ RectFree(s, r) /\ rect' = [rect EXCEPT ![s] = r]
                  /\ After([shp EXCEPT ![s] = "queued"], jn, cn, pins, cend, {s}) /\ UNCHANGED <<jpos, txn>> /\ Op(<<1, s, r[1], r[2], r[3], r[4]>>)
NewPin(s, p) == /\ Exists(shp[s]) /\ <<s, p>> \notin pins
                /\ pins' = pins \cup {<<s, p>>} /\ fresh' = (IF txn THEN fresh \cup {Queued} ELSE fresh)
                /\ UNCHANGED <<shp, rect, jn, jpos, cn, cend, txn, hreg>>
                /\ Op(<<2, s, p[1], p[2], p[3], p[7], p[4], p[5], p[6]>>)
NewJunction(j, p) == /\ jn[j] = "none" /\ jpos' = [jpos EXCEPT ![j] = p]
                     /\ After(shp, [jn EXCEPT ![j] = "queued"], cn, pins, cend, {j}) /\ UNCHANGED <<rect, txn>> /\ Op(<<3, j, p[1], p[2]>>)
NewConn(c, e1, e2) == /\ cn[c] = "none" /\ EndOK(e1) /\ EndOK(e2) /\ e1 # e2
                      /\ After(shp, jn, [cn EXCEPT ![c] = "queued"], pins, [cend EXCEPT ![c] = <<e1, e2>>], {c})
                      /\ UNCHANGED <<rect, jpos, txn>> /\ Op(<<4, c, e1.k, e1.a, e1.b, e2.k, e2.a, e2.b>>)
SetCheckpoint(c, p) == /\ Exists(cn[c]) /\ fresh' = (IF txn THEN fresh \cup {Queued} ELSE fresh)
                       /\ UNCHANGED <<shp, rect, pins, jn, jpos, cn, cend, txn, hreg>> /\ Op(<<5, c, 1, p[1], p[2], 0, 0>>)
MoveShape(s, d) == /\ Exists(shp[s]) /\ RectFree(s, <<rect[s][1] + d[1], rect[s][2] + d[2], rect[s][3] + d[1], rect[s][4] + d[2]>>)
                   /\ rect' = [rect EXCEPT ![s] = <<rect[s][1] + d[1], rect[s][2] + d[2], rect[s][3] + d[1], rect[s][4] + d[2]>>]
                   /\ After(shp, jn, cn, pins, cend, {}) /\ UNCHANGED <<jpos, txn>> /\ Op(<<6, s, d[1], d[2]>>)
Resize(s) == /\ shp[s] = "live" /\ s \notin fresh
             /\ LET r == <<rect[s][1], rect[s][2], rect[s][3] + 2, rect[s][4] + 4>> IN
                /\ RectFree(s, r) /\ rect' = [rect EXCEPT ![s] = r] /\ Op(<<7, s, r[1], r[2], r[3], r[4]>>)
             /\ After(shp, jn, cn, pins, cend, {}) /\ UNCHANGED <<jpos, txn>>
\* deleting a shape whose pins are in use is legal: the attached connector ends become free points
DeleteShape(s) == /\ shp[s] = "live" /\ s \notin fresh
                  /\ After([shp EXCEPT ![s] = "dying"], jn, cn, pins, cend, {}) /\ UNCHANGED <<rect, jpos, txn>> /\ Op(<<8, s>>)
DeleteConn(c) == /\ cn[c] = "live" /\ c \notin fresh
                 /\ After(shp, jn, [cn EXCEPT ![c] = "dying"], pins, cend, {}) /\ UNCHANGED <<rect, jpos, txn>> /\ Op(<<9, c>>)
DeleteJunction(j) == /\ jn[j] = "live" /\ j \notin fresh /\ Attached(j) = {}
                     /\ After(shp, [jn EXCEPT ![j] = "dying"], cn, pins, cend, {}) /\ UNCHANGED <<rect, jpos, txn>> /\ Op(<<10, j>>)
MoveJunction(j, d) == /\ Exists(jn[j]) /\ jpos' = [jpos EXCEPT ![j] = <<jpos[j][1] + d[1], jpos[j][2] + d[2]>>]
                      /\ After(shp, jn, cn, pins, cend, {}) /\ UNCHANGED <<rect, txn>> /\ Op(<<11, j, d[1], d[2]>>)
RegisterHyperedge(j) == /\ txn /\ jn[j] = "live" /\ Cardinality(Attached(j)) >= 3 /\ j \notin hreg
                        /\ hreg' = hreg \cup {j} /\ UNCHANGED <<shp, rect, pins, jn, jpos, cn, cend, txn, fresh>> /\ Op(<<12, j>>)
Process == /\ txn /\ ProcessNow /\ UNCHANGED <<rect, jpos, txn>> /\ Op(<<13>>)
\* Router::setTransactionUse only flips a flag, and Router::deleteConnector never runs processTransaction: switching
\* transactions off with anything queued leaves states that are "between processing points" for an unbounded number of
\* further calls.  The explored histories switch the mode only with an empty action list (fresh = {} now covers every
\* queued action through the Queued marker, not only objects whose existence changed).
NothingPending == /\ \A s \in ShapeIds : shp[s] \in {"none", "live"} /\ \A c \in ConnIds : cn[c] \in {"none", "live"}
                  /\ \A j \in JuncIds : jn[j] \in {"none", "live"} /\ fresh = {} /\ hreg = {}
SetTxn(b) == /\ txn # b /\ NothingPending /\ txn' = b
             /\ UNCHANGED <<shp, rect, pins, jn, jpos, cn, cend, hreg, fresh>> /\ Op(<<14, IF b THEN 1 ELSE 0>>)
ChangeEnd(c, i, e) == /\ Exists(cn[c]) /\ EndOK(e) /\ e # cend[c][3 - i]
                      /\ After(shp, jn, cn, pins, [cend EXCEPT ![c][i] = e], {}) /\ UNCHANGED <<rect, jpos, txn>> /\ Op(<<15, c, i - 1, e.k, e.a, e.b>>)
Next == /\ Len(hist) < HLEN
        /\ \/ \E s \in ShapeIds, r \in Rects : NewShape(s, r)
           \/ \E s \in ShapeIds, p \in PinCat : NewPin(s, p)
           \/ \E j \in JuncIds, p \in JPts : NewJunction(j, p)
           \/ \E c \in ConnIds, e1 \in Ends, e2 \in Ends : NewConn(c, e1, e2)
           \/ \E c \in ConnIds, p \in Pts : SetCheckpoint(c, p)
           \/ \E s \in ShapeIds, d \in Moves : MoveShape(s, d)
           \/ \E s \in ShapeIds : Resize(s) \/ DeleteShape(s)
           \/ \E c \in ConnIds : DeleteConn(c)
           \/ \E j \in JuncIds : DeleteJunction(j) \/ RegisterHyperedge(j) \/ (\E d \in Moves : MoveJunction(j, d))
           \/ Process \/ (\E b \in BOOLEAN : SetTxn(b))
           \/ \E c \in ConnIds, i \in 1..2, e \in Ends : ChangeEnd(c, i, e)
Spec == Init /\ [][Next]_vars
\* ---- design-level invariants: no reference to a freed object in any reachable state of the protocol ----
NoDanglingEnd == \A c \in ConnIds : Exists(cn[c]) =>
                    \A i \in 1..2 : LET e == cend[c][i] IN (e.k = 1 => shp[e.a] # "none") /\ (e.k = 2 => jn[e.a] # "none")
PinsHaveShapes == \A p \in pins : shp[p[1]] # "none"
NothingPendingWithoutTxn == ~txn => (\A s \in ShapeIds : shp[s] \in {"none", "live"}) /\ (\A c \in ConnIds : cn[c] \in {"none", "live"})
View == <<shp, rect, pins, jn, jpos, cn, cend, txn, hreg, fresh>>
EmitHist == Len(hist) = HLEN => PrintT(<<"HIST", ToJson(hist)>>)
=============================================================================
