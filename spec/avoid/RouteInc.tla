------------------------------ MODULE RouteInc ------------------------------
(* C06, per processing point: the routes of the long-lived router against   *)
(* the final scene and against a freshly constructed router.                *)
(*   - every route is valid for the scene (RouteValid's predicates)         *)
(*   - cost(incremental) <= cost(fresh): cost = length + P * bends, as      *)
(*     intervals from integer square roots (exact for orthogonal routes)    *)
(*   - a transaction that changes nothing leaves every route unchanged      *)
EXTENDS RouteValid
UNIT == 2048
SC == 4194304
RECURSIVE IsqrtBS(_, _, _)
IsqrtBS(n, lo, hi) == IF lo >= hi THEN lo ELSE LET m == (lo + hi + 1) \div 2 IN IF m * m <= n THEN IsqrtBS(n, m, hi) ELSE IsqrtBS(n, lo, m - 1)
Isqrt(n) == IsqrtBS(n, 0, 46340)
D2(a, b) == (a[1] - b[1]) * (a[1] - b[1]) + (a[2] - b[2]) * (a[2] - b[2])
LenLo(a, b) == Isqrt(D2(a, b) * SC)
LenHi(a, b) == LET s == LenLo(a, b) IN IF s * s = D2(a, b) * SC THEN s ELSE s + 1
Straight(u, c, v) == Cross(Sub(c, u), Sub(v, c)) = 0 /\ (c[1] - u[1]) * (v[1] - c[1]) + (c[2] - u[2]) * (v[2] - c[2]) > 0
BendsOf(rt) == Cardinality({i \in 2..(Len(rt) - 1) : ~Straight(rt[i - 1], rt[i], rt[i + 1])})
RECURSIVE SumLo(_, _)
SumLo(rt, i) == IF i >= Len(rt) THEN 0 ELSE LenLo(rt[i], rt[i + 1]) + SumLo(rt, i + 1)
RECURSIVE SumHi(_, _)
SumHi(rt, i) == IF i >= Len(rt) THEN 0 ELSE LenHi(rt[i], rt[i + 1]) + SumHi(rt, i + 1)
CostLo(rt, P) == SumLo(rt, 1) + P * UNIT * BendsOf(rt)
CostHi(rt, P) == SumHi(rt, 1) + P * UNIT * BendsOf(rt)
\* records: r.polys, r.src, r.dst, r.disp (all x LS), r.mode, r.thrown as in RouteValid, plus r.iraw, r.fraw (integer points), r.P, r.noopSame, r.exact
IncTags(r) ==
    Tags(r)
    \cup (IF r.thrown THEN {} ELSE
          (IF ~r.noopSame THEN {"noop-transaction-changed-a-route"} ELSE {})
          \* (compared only with a fresh route that is itself valid for the scene: the fresh router is not an oracle)
          \cup (IF r.exact /\ Len(r.iraw) >= 2 /\ Len(r.fraw) >= 2 /\ CostLo(Dedup(r.iraw), r.P) > CostHi(Dedup(r.fraw), r.P)
                   /\ LET fr == Dedup([i \in DOMAIN r.fraw |-> <<r.fraw[i][1] * 1024, r.fraw[i][2] * 1024>>])
                          obstacles == {i \in DOMAIN r.polys : ~InClosed(r.polys[i], r.src) /\ ~InClosed(r.polys[i], r.dst)}
                      IN  \A sg \in 1..(Len(fr) - 1), i \in obstacles : ~Blocks(r.polys[i], fr[sg], fr[sg + 1])
                THEN {"costlier-than-fresh-router"} ELSE {}))
IVARS == <<k, phase, bad>>
IEval == /\ phase = "todo" /\ phase' = "done" /\ UNCHANGED k
         /\ bad' = UNION { {<<i, t>> : t \in IncTags(Recs[i])} : i \in Idx(k) }
         /\ PrintT(<<"STAT", "inc", k, Cardinality({i \in Idx(k) : NonTrivial(Recs[i])})>>)
ISpec == Init /\ [][IEval]_IVARS
=============================================================================
