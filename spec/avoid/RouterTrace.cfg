SPECIFICATION TraceSpec
CONSTANTS
 ShapeIds = {1, 2, 3}
 ConnIds = {1, 2}
CONSTRAINT Track
INVARIANTS QueueWellFormed SceneIsWhatWasAskedFor
POSTCONDITION Accepted
CHECK_DEADLOCK FALSE
