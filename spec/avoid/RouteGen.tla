------------------------------ MODULE RouteGen ------------------------------
(* B1 for the routing properties: the scene families the checks replay are  *)
(* enumerated here (so that "all scenes of <= MAXR separated rectangles     *)
(* with corners on the even lattice" is a statement about a TLA+ set) and   *)
(* written out for the harness.                                             *)
EXTENDS Integers, Sequences, FiniteSets, FiniteSetsExt, SequencesExt, TLC, Json, IOUtils
CONSTANTS CMAX,      \* rectangle corners on {2, 4, .., CMAX}
          MAXR,      \* at most MAXR rectangles per scene
          GAP        \* minimum separation between two rectangles
Coord == {c \in 2..CMAX : c % 2 = 0}
Rects == {<<x1, y1, x2, y2>> \in Coord \X Coord \X Coord \X Coord : x1 < x2 /\ y1 < y2}
Separated(a, b) == a[3] + GAP <= b[1] \/ b[3] + GAP <= a[1] \/ a[4] + GAP <= b[2] \/ b[4] + GAP <= a[2]
\* (kSubset of the community modules is limited to base sets of < 63 elements, hence the explicit products)
Code(q) == ((q[1] * 16 + q[2]) * 16 + q[3]) * 16 + q[4]
Scenes1 == {{a} : a \in Rects}
Scenes2 == {{p[1], p[2]} : p \in {p \in Rects \X Rects : Code(p[1]) < Code(p[2]) /\ Separated(p[1], p[2])}}
Scenes3 == {{p[1], p[2], p[3]} : p \in {p \in Rects \X Rects \X Rects : Code(p[1]) < Code(p[2]) /\ Code(p[2]) < Code(p[3])
                                          /\ Separated(p[1], p[2]) /\ Separated(p[1], p[3]) /\ Separated(p[2], p[3])}}
Scenes == Scenes1 \cup (IF MAXR >= 2 THEN Scenes2 ELSE {}) \cup (IF MAXR >= 3 THEN Scenes3 ELSE {})
\* endpoints: the odd lattice (never on a rectangle side), 1 .. CMAX + 1
Points == {<<x, y>> \in (1..(CMAX + 1)) \X (1..(CMAX + 1)) : x % 2 = 1 /\ y % 2 = 1}
VARIABLE done
Init == /\ JsonSerialize(IOEnv.ROUTEGEN, [scenes |-> SetToSeq({SetToSeq(S) : S \in Scenes}), points |-> SetToSeq(Points)])
        /\ done = Cardinality(Scenes)
Spec == Init /\ [][UNCHANGED done]_done
=============================================================================
