------------------------------ MODULE RouteGen ------------------------------
(* B1 for the routing properties: the scene families the checks replay are  *)
(* enumerated here (so that "all scenes of <= MAXR separated rectangles     *)
(* with corners on the even lattice" is a statement about a TLA+ set) and   *)
(* written out for the harness.                                             *)
EXTENDS Integers, Sequences, FiniteSets, FiniteSetsExt, SequencesExt, TLC, Json, IOUtils
CONSTANTS CMAX,      \* rectangle corners on {2, 4, .., CMAX}
          MAXR,      \* at most MAXR rectangles per scene
          GAP,       \* minimum separation between two rectangles
          POLY       \* also write the convex-polygon scenes
Coord == {c \in 2..CMAX : c % 2 = 0}
Rects == {<<x1, y1, x2, y2>> \in Coord \X Coord \X Coord \X Coord : x1 < x2 /\ y1 < y2}
Separated(a, b) == a[3] + GAP <= b[1] \/ b[3] + GAP <= a[1] \/ a[4] + GAP <= b[2] \/ b[4] + GAP <= a[2]
\* (kSubset of the community modules is limited to base sets of < 63 elements, hence the explicit products)
Code(q) == ((q[1] * 16 + q[2]) * 16 + q[3]) * 16 + q[4]
Scenes1 == {{a} : a \in Rects}
Scenes2 == {{p[1], p[2]} : p \in {p \in Rects \X Rects : Code(p[1]) < Code(p[2]) /\ Separated(p[1], p[2])}}
Scenes3 == {{p[1], p[2], p[3]} : p \in {p \in Rects \X Rects \X Rects : Code(p[1]) < Code(p[2]) /\ Code(p[2]) < Code(p[3])
                                          /\ Separated(p[1], p[2]) /\ Separated(p[1], p[3]) /\ Separated(p[2], p[3])}}
Scenes == Scenes1 \cup (IF MAXR >= 2 THEN Scenes2 ELSE {}) \cup (IF MAXR >= 3 THEN Scenes3 ELSE {})
\* endpoints: the odd lattice (never on a rectangle side), 1 .. CMAX + 1
Points == {<<x, y>> \in (1..(CMAX + 1)) \X (1..(CMAX + 1)) : x % 2 = 1 /\ y % 2 = 1}
\* convex polygons for the polyline checks, as positively wound point sequences with their bounding boxes
RectPoly(r) == << <<r[3], r[2]>>, <<r[3], r[4]>>, <<r[1], r[4]>>, <<r[1], r[2]>> >>
Tri(r, i) == CASE i = 1 -> << <<r[3], r[2]>>, <<r[3], r[4]>>, <<r[1], r[4]>> >>
               [] i = 2 -> << <<r[3], r[4]>>, <<r[1], r[4]>>, <<r[1], r[2]>> >>
               [] i = 3 -> << <<r[3], r[2]>>, <<r[1], r[4]>>, <<r[1], r[2]>> >>
               [] i = 4 -> << <<r[3], r[2]>>, <<r[3], r[4]>>, <<r[1], r[2]>> >>
Diamond(r) == LET mx == (r[1] + r[3]) \div 2  my == (r[2] + r[4]) \div 2
              IN  << <<r[3], my>>, <<mx, r[4]>>, <<r[1], my>>, <<mx, r[2]>> >>
Convex == {[box |-> r, poly |-> RectPoly(r)] : r \in Rects}
          \cup {[box |-> r, poly |-> Tri(r, i)] : r \in Rects, i \in 1..4}
          \cup {[box |-> r, poly |-> Diamond(r)] : r \in {r \in Rects : (r[3] - r[1]) % 4 = 0 /\ (r[4] - r[2]) % 4 = 0}}
PScenes1 == {{a} : a \in Convex}
PScenes2 == {{p[1], p[2]} : p \in {p \in Convex \X Convex : Code(p[1].box) < Code(p[2].box) /\ Separated(p[1].box, p[2].box)}}
VARIABLE done
Init == /\ JsonSerialize(IOEnv.ROUTEGEN, [scenes |-> SetToSeq({SetToSeq(S) : S \in Scenes}), points |-> SetToSeq(Points),
                                          pscenes |-> IF POLY THEN SetToSeq({SetToSeq({a.poly : a \in S}) : S \in PScenes1 \cup (IF MAXR >= 2 THEN PScenes2 ELSE {})}) ELSE <<>>])
        /\ done = Cardinality(Scenes)
Spec == Init /\ [][UNCHANGED done]_done
=============================================================================
