SPECIFICATION TraceSpec
CONSTANTS
 ShapeIds = {1, 2}
 JuncIds = {11}
 ConnIds = {21, 22, 23}
 HLEN = 1000
CONSTRAINT Track
INVARIANTS NoDanglingEnd PinsHaveShapes NothingPendingWithoutTxn
POSTCONDITION Accepted
CHECK_DEADLOCK FALSE
