------------------------------ MODULE LifeTrace ------------------------------
(* B2 for C15/C11/C12: executions of the object-level harness (h_life)      *)
(* validated against Lifecycle: every recorded call must be an enabled      *)
(* action of the protocol, and at every processing point the sets of live   *)
(* shapes, junctions and connectors the Router reports must be exactly the  *)
(* specification's (hyperedge improvement may add/remove junctions and      *)
(* connectors: those executions only require the user's shapes to agree).   *)
(* An execution that does not reach its End line (crash, failed assertion,  *)
(* sanitizer abort, exception) cannot be consumed and is rejected.          *)
EXTENDS Lifecycle, IOUtils
TraceLog == ndJsonDeserialize(IOEnv.LIFETRACE)
VARIABLE l, improving
tvars == <<vars, l, improving>>
Line == TraceLog[l]
IsEv(e) == l <= Len(TraceLog) /\ TraceLog[l].e = e /\ l' = l + 1
o == Line.op
Ids(lst) == {lst[i][1] : i \in DOMAIN lst}
IdsR(lst) == {lst[i].id : i \in DOMAIN lst}
EndAgrees(rec, e) == CASE e.k = 1 -> rec.t = 1 /\ rec.s = e.a /\ rec.c = e.b
                        [] e.k = 2 -> rec.t = 2 /\ rec.j = e.a
                        [] OTHER   -> rec.t = 0 /\ (e.a < 0 \/ rec.p = <<e.a * 1024, e.b * 1024>>)
LiveAgree ==
    IF ~Line.processed THEN TRUE ELSE
    ( /\ Ids(Line.shapes) = {s \in ShapeIds : shp'[s] = "live"}
      /\ \A i \in DOMAIN Line.shapes : LET q == Line.shapes[i] IN <<q[2] \div 1024, q[3] \div 1024, q[4] \div 1024, q[5] \div 1024>> = rect'[q[1]]
      /\ (improving \/ ( /\ IdsR(Line.juncs) = {j \in JuncIds : jn'[j] = "live"}
                         /\ IdsR(Line.conns) = {c \in ConnIds : cn'[c] = "live"}
                         \* every connector end is attached to what the calls so far attached it to (recorded end: t = 0 point, 1 pin
                         \* of class c on shape s, 2 junction j, 3 nothing)
                         /\ \A i \in DOMAIN Line.conns : LET cc == Line.conns[i] IN
                                EndAgrees(cc.src, cend'[cc.id][1]) /\ EndAgrees(cc.dst, cend'[cc.id][2]) )) )
EndOf(k, a, b) == [k |-> k, a |-> a, b |-> b]
Act == CASE o[1] = 1  -> NewShape(o[2], <<o[3], o[4], o[5], o[6]>>)
         [] o[1] = 2  -> NewPin(o[2], <<o[3], o[4], o[5], o[7], o[8], o[9], o[6]>>)
         [] o[1] = 3  -> NewJunction(o[2], <<o[3], o[4]>>)
         [] o[1] = 4  -> NewConn(o[2], EndOf(o[3], o[4], o[5]), EndOf(o[6], o[7], o[8]))
         [] o[1] = 5  -> SetCheckpoint(o[2], <<o[4], o[5]>>)
         [] o[1] = 6  -> MoveShape(o[2], <<o[3], o[4]>>)
         [] o[1] = 7  -> Resize(o[2])
         [] o[1] = 8  -> DeleteShape(o[2])
         [] o[1] = 9  -> DeleteConn(o[2])
         [] o[1] = 10 -> DeleteJunction(o[2])
         [] o[1] = 11 -> MoveJunction(o[2], <<o[3], o[4]>>)
         [] o[1] = 12 -> RegisterHyperedge(o[2])
         [] o[1] = 13 -> Process
         [] o[1] = 14 -> SetTxn(o[2] = 1)
         [] o[1] = 15 -> ChangeEnd(o[2], o[3] + 1, EndOf(o[4], o[5], o[6]))
TInit == Init /\ l = 1 /\ improving = FALSE
TrScenario == IsEv("Scenario") /\ UNCHANGED <<vars, improving>>
TrReset == /\ IsEv("Reset") /\ improving' = (((Line.opts \div 2) % 4) > 0)
           /\ shp' = [s \in ShapeIds |-> "none"] /\ rect' = [s \in ShapeIds |-> <<0, 0, 0, 0>>] /\ pins' = {}
           /\ jn' = [j \in JuncIds |-> "none"] /\ jpos' = [j \in JuncIds |-> <<0, 0>>]
           /\ cn' = [c \in ConnIds |-> "none"] /\ cend' = [c \in ConnIds |-> <<[k |-> 0, a |-> 0, b |-> 0], [k |-> 0, a |-> 0, b |-> 0]>>]
           /\ txn' = TRUE /\ hreg' = {} /\ fresh' = {} /\ hist' = <<>>
TrOp == /\ IsEv("Op") /\ Act /\ LiveAgree
        /\ improving' = (improving \/ o[1] = 12)
TrEnd == IsEv("End") /\ Line.ok /\ UNCHANGED <<vars, improving>>
TNext == TrScenario \/ TrReset \/ TrOp \/ TrEnd
TraceSpec == TInit /\ [][TNext]_tvars
Track == TLCSet(1, IF TLCGet(1) > l THEN TLCGet(1) ELSE l)
Accepted == TLCGet(1) = Len(TraceLog) + 1
ASSUME TLCSet(1, 0)
=============================================================================
