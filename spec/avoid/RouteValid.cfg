SPECIFICATION Spec
INVARIANT AllValid
CHECK_DEADLOCK FALSE
