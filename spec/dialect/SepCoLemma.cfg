SPECIFICATION LemmaSpec
INVARIANT AllCommute
CHECK_DEADLOCK FALSE
