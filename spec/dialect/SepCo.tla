-------------------------------- MODULE SepCo --------------------------------
(* C18: libdialect separation constraints (SepPair) and the eight           *)
(* symmetries of the square.  Lengths are integers in quarter units.        *)
(* A SepPair is [xgt, ygt, xst, yst, xgap, ygap] with each gap <<sign bit,  *)
(* magnitude>> -- the sign BIT is a separate field so that -0 ("tgt on the  *)
(* negative side, gap zero") is representable.  A placement of the two      *)
(* nodes is [dx, dy, ws, hs, wt, ht]: tgt centre minus src centre, sizes.   *)
(* Screen coordinates: y grows downwards.                                    *)
EXTENDS Integers, Sequences, FiniteSets, TLC, Json, IOUtils
Data == JsonDeserialize(IOEnv.SEPCORECS)
Recs == Data.recs
CH == Data.chunk
NChunks == (Len(Recs) + CH - 1) \div CH
CENTRE == 0  BDRY == 1
NONE == 0  EQ == 1  INEQ == 2
\* one dimension: d = tgt - src coordinate, half = half-size sum (+ extra boundary gap) in this dimension
Sat1(st, gt, gap, d, half) ==
    LET dir  == IF gap[1] = 0 THEN d ELSE -d
        need == gap[2] + (IF gt = BDRY THEN half ELSE 0)
    IN  IF st = NONE THEN TRUE ELSE IF st = EQ THEN dir = need ELSE dir >= need
Sat(p, sp, extra) == /\ Sat1(sp.xst, sp.xgt, sp.xgap, p.dx, (p.ws + p.wt) \div 2 + extra)
                     /\ Sat1(sp.yst, sp.ygt, sp.ygap, p.dy, (p.hs + p.ht) \div 2 + extra)
\* the documented meaning of addSep(gt, sd, st, gap) for gap >= +0:
\* EAST SOUTH WEST NORTH (0..3) separate AND align; RIGHT DOWN LEFT UP (4..7) only separate
DocSat(p, sd, st, gt, mag, extra) ==
    LET hx == (p.ws + p.wt) \div 2 + extra   hy == (p.hs + p.ht) \div 2 + extra
        rel(d, half) == LET need == mag + (IF gt = BDRY THEN half ELSE 0) IN IF st = EQ THEN d = need ELSE d >= need
    IN  CASE sd = 0 -> rel(p.dx, hx) /\ p.dy = 0
          [] sd = 1 -> rel(p.dy, hy) /\ p.dx = 0
          [] sd = 2 -> rel(-p.dx, hx) /\ p.dy = 0
          [] sd = 3 -> rel(-p.dy, hy) /\ p.dx = 0
          [] sd = 4 -> rel(p.dx, hx)
          [] sd = 5 -> rel(p.dy, hy)
          [] sd = 6 -> rel(-p.dx, hx)
          [] sd = 7 -> rel(-p.dy, hy)
\* the symmetries acting on placements (index = libdialect's SepTransform): a point (x, y) goes to ...
\*  0 ROTATE90CW (-y, x)  1 ROTATE90ACW (y, -x)  2 ROTATE180 (-x, -y)  3 FLIPV (-x, y)  4 FLIPH (x, -y)  5 FLIPMD (y, x)  6 FLIPOD (-y, -x)
T(k, p) == CASE k = 0 -> [dx |-> -p.dy, dy |-> p.dx,  ws |-> p.hs, hs |-> p.ws, wt |-> p.ht, ht |-> p.wt]
             [] k = 1 -> [dx |-> p.dy,  dy |-> -p.dx, ws |-> p.hs, hs |-> p.ws, wt |-> p.ht, ht |-> p.wt]
             [] k = 2 -> [p EXCEPT !.dx = -p.dx, !.dy = -p.dy]
             [] k = 3 -> [p EXCEPT !.dx = -p.dx]
             [] k = 4 -> [p EXCEPT !.dy = -p.dy]
             [] k = 5 -> [dx |-> p.dy,  dy |-> p.dx,  ws |-> p.hs, hs |-> p.ws, wt |-> p.ht, ht |-> p.wt]
             [] k = 6 -> [dx |-> -p.dy, dy |-> -p.dx, ws |-> p.hs, hs |-> p.ws, wt |-> p.ht, ht |-> p.wt]
Offsets == {-12, -8, -4, 0, 4, 8, 12, 16, -16}
Sizes == {8, 16}
Placements == {[dx |-> a, dy |-> b, ws |-> c, hs |-> d, wt |-> e, ht |-> f] : a \in Offsets, b \in Offsets, c \in Sizes, d \in Sizes, e \in Sizes, f \in Sizes}
\* placements with the node sizes the harness used for the SepMatrix rows: src 2x4, tgt 4x2
MatOffsets == {4 * i : i \in (-10)..10}      \* covers gap 3 + half sizes 3 + extra 2 = 8 units, and one beyond
MatPlacements == {[dx |-> a, dy |-> b, ws |-> 8, hs |-> 16, wt |-> 16, ht |-> 8] : a \in MatOffsets, b \in MatOffsets}
VpscHolds(cs, ia, ib, d) == \A i \in DOMAIN cs : LET pos(ix) == IF ix = ia THEN 0 ELSE d
                                                     diff == pos(cs[i][2]) - pos(cs[i][1])
                                                 IN  IF cs[i][4] THEN diff = cs[i][3] ELSE diff >= cs[i][3]
\* (every tag is a pair <<name, transform or -1>>: TLC cannot hold strings and tuples in one set)
Tags(r) ==
    (IF r.gap[1] = 0 /\ \E p \in Placements : Sat(p, r.base, 0) # DocSat(p, r.sd, r.st, r.gt, r.gap[2], 0) THEN {<<"addSep-does-not-mean-what-is-documented", -1>>} ELSE {})
    \cup {<<"transform-does-not-commute-with-geometry", k - 1>> : k \in {k \in 1..7 : \E p \in Placements : Sat(p, r.base, 0) # Sat(T(k - 1, p), r.tf[k], 0)}}
    \cup (IF Data.compose /\ \E k1 \in 0..6, k2 \in 0..6 : \E p \in Placements : Sat(p, r.base, 0) # Sat(T(k2, T(k1, p)), r.tf2[k1 * 7 + k2 + 1], 0)
          THEN {<<"composition-does-not-commute", -1>>} ELSE {})
    \cup (IF \E k \in 1..7 : r.pow[k] # r.base THEN {<<"four-quarter-turns-or-two-flips-do-not-restore", -1>>} ELSE {})
    \cup (IF \E i \in DOMAIN r.mat : LET m == r.mat[i] IN
              \E p \in MatPlacements : (VpscHolds(m.cx, m.ia, m.ib, p.dx) /\ VpscHolds(m.cy, m.ia, m.ib, p.dy)) # Sat(p, r.base, 4 * m.extra)
          THEN {<<"generated-vpsc-constraints-not-equivalent", -1>>} ELSE {})
VARIABLES k, phase, bad
vars == <<k, phase, bad>>
Init == k \in 0..(NChunks - 1) /\ phase = "todo" /\ bad = {}
Idx(kk) == {i \in (kk * CH + 1)..((kk + 1) * CH) : i <= Len(Recs)}
Eval == /\ phase = "todo" /\ phase' = "done" /\ UNCHANGED k
        /\ bad' = UNION { {<<i, t>> : t \in Tags(Recs[i])} : i \in Idx(k) }
Spec == Init /\ [][Eval]_vars
AllCommute == bad = {}
\* ---- design level: the eight maps T form the symmetry group of the square on placements ----
LemmaInit == k = 0 /\ phase = "lemma" /\ bad = {}
LemmaStep == /\ phase = "lemma" /\ phase' = "done" /\ UNCHANGED k
             /\ bad' = {<<"group", p>> : p \in {p \in Placements :
                            ~( T(0, T(0, T(0, T(0, p)))) = p /\ T(1, T(0, p)) = p /\ T(2, p) = T(0, T(0, p)) /\ T(3, T(3, p)) = p /\ T(4, T(4, p)) = p
                               /\ T(5, T(5, p)) = p /\ T(6, T(6, p)) = p /\ T(5, p) = T(0, T(4, p)) /\ T(6, p) = T(0, T(3, p)) /\ T(4, T(3, p)) = T(2, p) )}}
LemmaSpec == LemmaInit /\ [][LemmaStep]_vars
=============================================================================
