--------------------------------- MODULE Peel ---------------------------------
(* C19 (first half): peeling, connected components, symmetric tree layout.  *)
(* Design level: peeling as a nondeterministic process -- Strip(v) removes  *)
(* any node of current degree one -- is confluent: every maximal run ends   *)
(* in the 2-core of the graph (or, for a tree, in a single node or nothing).*)
(* Conformance: the decomposition the library returns is judged against the *)
(* partition theorem, with the core required to be that unique 2-core.      *)
EXTENDS Integers, Sequences, FiniteSets, FiniteSetsExt, SequencesExt, TLC, Json, IOUtils
\* ---- graphs as [n, E] with E a set of 2-element sets over 1..n -----------------
Deg(E, v) == Cardinality({e \in E : v \in e})
NodesOf(E) == UNION E
RECURSIVE Core2(_)
Core2(E) == LET leaves == {v \in NodesOf(E) : Deg(E, v) = 1}
            IN  IF leaves = {} THEN E ELSE Core2({e \in E : e \cap leaves = {}})
RECURSIVE ReachE(_, _)
ReachE(S, E) == LET T == S \cup UNION {e \in E : e \cap S # {}} IN IF T = S THEN S ELSE ReachE(T, E)
ConnectedOn(V, E) == V = {} \/ ReachE({CHOOSE v \in V : TRUE}, E) \cap V = V
IsTreeOn(V, E) == ConnectedOn(V, E) /\ Cardinality(E) = Cardinality(V) - 1 /\ NodesOf(E) \subseteq V
\* ---- design level -----------------------------------------------------------------
CONSTANT GN
AllEdges == {{u, v} : u \in 1..GN, v \in 1..GN} \ {{u} : u \in 1..GN}
VARIABLES g0, cur, k, phase, bad
dvars == <<g0, cur, k, phase, bad>>
DInit == g0 \in {E \in SUBSET AllEdges : NodesOf(E) = 1..GN /\ ConnectedOn(1..GN, E)} /\ cur = g0 /\ k = 0 /\ phase = "design" /\ bad = {}
Strip(v) == Deg(cur, v) = 1 /\ cur' = {e \in cur : v \notin e} /\ UNCHANGED <<g0, k, phase, bad>>
DNext == \E v \in 1..GN : Strip(v)
DSpec == DInit /\ [][DNext]_dvars
\* whenever no leaf is left, what remains is the 2-core computed in one go (confluence), and it has no leaf
Confluent == (\A v \in 1..GN : Deg(cur, v) # 1) => cur = Core2(g0)
CoreHasNoLeaf == \A v \in NodesOf(Core2(g0)) : Deg(Core2(g0), v) >= 2
\* ---- conformance ------------------------------------------------------------------
Data == JsonDeserialize(IOEnv.PEELRECS)
Recs == Data.recs
CH == Data.chunk
NChunks == (Len(Recs) + CH - 1) \div CH
ESet(es) == {{es[i][1], es[i][2]} : i \in DOMAIN es}
SetOf(s) == {s[i] : i \in DOMAIN s}
CompTags(r) ==
    LET E == ESet(r.edges)  V == 1..r.n
        parts == [i \in DOMAIN r.comps |-> [V |-> SetOf(r.comps[i].nodes), E |-> ESet(r.comps[i].edges)]]
    IN  (IF UNION {parts[i].V : i \in DOMAIN parts} # V \/ \E i \in DOMAIN parts, j \in DOMAIN parts : i # j /\ parts[i].V \cap parts[j].V # {} THEN {"components-do-not-partition-nodes"} ELSE {})
        \cup (IF UNION {parts[i].E : i \in DOMAIN parts} # E \/ \E i \in DOMAIN parts : Len(r.comps[i].edges) # Cardinality(parts[i].E) THEN {"components-do-not-partition-edges"} ELSE {})
        \cup (IF \E i \in DOMAIN parts : ~ConnectedOn(parts[i].V, parts[i].E) \/ ~(NodesOf(parts[i].E) \subseteq parts[i].V) THEN {"component-not-connected"} ELSE {})
PeelTags(r) ==
    LET E == ESet(r.edges)  V == 1..r.n
        coreV == SetOf(r.core.nodes)  coreE == ESet(r.core.edges)
        tr == [i \in DOMAIN r.trees |-> [V |-> SetOf(r.trees[i].g.nodes), E |-> ESet(r.trees[i].g.edges), root |-> r.trees[i].root]]
        c2 == Core2(E)
    IN  IF ~ConnectedOn(V, E) THEN {} ELSE
        (IF coreV \cup UNION {tr[i].V : i \in DOMAIN tr} # V THEN {"a-node-is-in-no-part"} ELSE {})
        \cup (IF \E i \in DOMAIN tr, j \in DOMAIN tr : i # j /\ ((tr[i].V \cap tr[j].V) \ {tr[i].root, tr[j].root}) # {} THEN {"two-trees-share-a-non-root-node"} ELSE {})
        \cup (IF \E i \in DOMAIN tr : (tr[i].V \cap coreV) \ {tr[i].root} # {} \/ (coreV # {} /\ tr[i].root \notin coreV) \/ tr[i].root \notin tr[i].V THEN {"tree-and-core-share-more-than-the-root"} ELSE {})
        \cup (IF \E i \in DOMAIN tr : ~IsTreeOn(tr[i].V, tr[i].E) THEN {"part-is-not-a-tree"} ELSE {})
        \cup (IF coreE \cup UNION {tr[i].E : i \in DOMAIN tr} # E \/ Cardinality(coreE) + FoldSet(LAMBDA i, acc : acc + Cardinality(tr[i].E), 0, DOMAIN tr) # Cardinality(E)
              THEN {"edges-not-partitioned"} ELSE {})
        \cup (IF \E v \in coreV : Deg(coreE, v) = 1 THEN {"core-has-a-leaf"} ELSE {})
        \cup (IF c2 # {} /\ (coreE # c2 \/ coreV # NodesOf(c2)) THEN {"core-is-not-the-2-core"} ELSE {})
        \cup (IF c2 = {} /\ Cardinality(coreV) > 1 THEN {"core-of-a-tree-has-several-nodes"} ELSE {})
        \cup (IF \E i \in DOMAIN r.trees : \E a \in DOMAIN r.trees[i].pos, b \in DOMAIN r.trees[i].pos :
                    a < b /\ r.trees[i].pos[a][2] = r.trees[i].pos[b][2] /\ r.trees[i].pos[a][3] = r.trees[i].pos[b][3]
              THEN {"symmetric-layout-puts-two-nodes-on-one-point"} ELSE {})
        \* pos = <<id, cx, cy, w, h>> on the 1/16 lattice: two node boxes lie on top of each other (overlap by more than 1/8 in both axes)
        \cup (IF \E i \in DOMAIN r.trees : \E a \in DOMAIN r.trees[i].pos, b \in DOMAIN r.trees[i].pos :
                    LET pa == r.trees[i].pos[a]  pb == r.trees[i].pos[b]
                        AbsD(x) == IF x < 0 THEN -x ELSE x
                    IN  a < b /\ 2 * AbsD(pa[2] - pb[2]) < pa[4] + pb[4] - 4 /\ 2 * AbsD(pa[3] - pb[3]) < pa[5] + pb[5] - 4
              THEN {"symmetric-layout-overlaps-two-nodes"} ELSE {})
Tags(r) == IF r.thrown THEN {"exception"} ELSE CompTags(r) \cup PeelTags(r)
NonTrivial(r) == ~r.thrown /\ Len(r.trees) >= 1 /\ r.core.nodes # <<>>
vars == dvars
Init == k \in 0..(NChunks - 1) /\ phase = "todo" /\ bad = {} /\ g0 = {} /\ cur = {}
Idx(kk) == {i \in (kk * CH + 1)..((kk + 1) * CH) : i <= Len(Recs)}
Eval == /\ phase = "todo" /\ phase' = "done" /\ UNCHANGED <<k, g0, cur>>
        /\ bad' = UNION { {<<i, t>> : t \in Tags(Recs[i])} : i \in Idx(k) }
        /\ PrintT(<<"STAT", "peel", k, Cardinality({i \in Idx(k) : NonTrivial(Recs[i])})>>)
Spec == Init /\ [][Eval]_vars
AllPartitions == bad = {}
\* ---- B1: every simple connected graph on GN nodes, written out ----
GenInit == /\ JsonSerialize(IOEnv.PEELGEN, SetToSeq({SetToSeq({SetToSeq(e) : e \in E}) : E \in {E \in SUBSET AllEdges : NodesOf(E) = 1..GN /\ ConnectedOn(1..GN, E)}}))
           /\ k = 0 /\ phase = "gen" /\ bad = {} /\ g0 = {} /\ cur = {}
GenSpec == GenInit /\ [][UNCHANGED vars]_vars
=============================================================================
