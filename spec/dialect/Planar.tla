-------------------------------- MODULE Planar --------------------------------
(* C19, planarisation clause: what OrthoPlanariser::planarise() must hand   *)
(* back for an orthogonally routed graph -- every original node still there *)
(* and where it was; every edge of the planar graph a straight axis-        *)
(* parallel segment between two of its nodes; no two edges meeting anywhere *)
(* but in a common end node; every original edge (u,v) still a chain from u *)
(* to v through new nodes only; and the drawing unchanged: the unit steps   *)
(* covered by the planar graph's edges are exactly the unit steps covered   *)
(* by the routes (overlapping stretches of different routes merged).        *)
(* Also the generator of the routed graphs replayed (B1): nodes on a small  *)
(* grid, every edge routed straight or as one of its two L-shapes.          *)
EXTENDS Integers, Sequences, FiniteSets, TLC, Json, IOUtils, FiniteSetsExt, SequencesExt
Data == JsonDeserialize(IOEnv.PLANARRECS)
Recs == Data.recs
GU == Data.GU           \* lattice units per grid step
S  == Data.S            \* lattice units per input unit
CH == Data.chunk
NChunks == (Len(Recs) + CH - 1) \div CH
Abs(x) == IF x < 0 THEN -x ELSE x
Mn(a, b) == IF a <= b THEN a ELSE b
Mx(a, b) == IF a >= b THEN a ELSE b
\* unit steps of the axis-parallel segment a--b (lattice points, multiples of GU)
Steps(a, b) == IF a[2] = b[2] THEN {<<Mn(a[1], b[1]) + GU * i, a[2], 0>> : i \in 0..((Abs(a[1] - b[1]) \div GU) - 1)}
               ELSE {<<a[1], Mn(a[2], b[2]) + GU * i, 1>> : i \in 0..((Abs(a[2] - b[2]) \div GU) - 1)}
RouteSteps(pts) == UNION {Steps(<<pts[i][1] * S, pts[i][2] * S>>, <<pts[i + 1][1] * S, pts[i + 1][2] * S>>) : i \in 1..(Len(pts) - 1)}
OnGrid(p) == p[1] % GU = 0 /\ p[2] % GU = 0
PPos(r, a) == <<r.pn[a][2], r.pn[a][3]>>
\* closed axis-parallel segments ab and cd: the set they have in common, described by kind
Between(x, a, b) == Mn(a, b) <= x /\ x <= Mx(a, b)
OnSeg(p, a, b) == (a[1] = b[1] /\ p[1] = a[1] /\ Between(p[2], a[2], b[2])) \/ (a[2] = b[2] /\ p[2] = a[2] /\ Between(p[1], a[1], b[1]))
\* two edges e, f of the planar graph meet somewhere other than in a common end node
Cross(r, e, f) ==
    LET a == PPos(r, e[1])  b == PPos(r, e[2])  c == PPos(r, f[1])  d == PPos(r, f[2])
        common == {e[1], e[2]} \cap {f[1], f[2]}
        he == a[2] = b[2]  hf == c[2] = d[2]
    IN  IF he = hf
        THEN \* parallel: collinear and overlapping in more than a shared end node
             IF he THEN a[2] = c[2] /\ Mn(Mx(a[1], b[1]), Mx(c[1], d[1])) - Mx(Mn(a[1], b[1]), Mn(c[1], d[1])) >= (IF common = {} THEN 0 ELSE 1)
                   ELSE a[1] = c[1] /\ Mn(Mx(a[2], b[2]), Mx(c[2], d[2])) - Mx(Mn(a[2], b[2]), Mn(c[2], d[2])) >= (IF common = {} THEN 0 ELSE 1)
        ELSE \* perpendicular: the one point the two lines share lies on both segments and is not a common end node
             LET p == IF he THEN <<c[1], a[2]>> ELSE <<a[1], c[2]>>
             IN  OnSeg(p, a, b) /\ OnSeg(p, c, d) /\ ~\E k \in common : PPos(r, k) = p
\* reachability from u to v through new nodes (ext = 0) only
RECURSIVE Reach(_, _, _)
Reach(r, S0, allowed) == LET T == S0 \cup {k \in allowed : \E i \in DOMAIN r.pe : (r.pe[i][1] = k /\ r.pe[i][2] \in S0) \/ (r.pe[i][2] = k /\ r.pe[i][1] \in S0)}
                         IN  IF T = S0 THEN S0 ELSE Reach(r, T, allowed)
IdxOf(r, extid) == CHOOSE k \in DOMAIN r.pn : r.pn[k][1] = extid
Tags(r) ==
    IF r.thrown THEN {IF r.assertion THEN "assertion" ELSE "exception"} ELSE
    IF \E i \in 1..r.n : Cardinality({k \in DOMAIN r.pn : r.pn[k][1] = i}) # 1 \/ \E k \in DOMAIN r.pn : r.pn[k][1] = i /\ PPos(r, k) # <<r.nodes[i][1] * S, r.nodes[i][2] * S>>
    THEN {"original-node-missing-or-moved"} ELSE
    IF \E i \in DOMAIN r.pe : r.pe[i][1] = 0 \/ r.pe[i][2] = 0 \/ r.pe[i][1] = r.pe[i][2] THEN {"edge-with-unknown-end-or-loop"} ELSE
    IF \E k \in DOMAIN r.pn : ~OnGrid(PPos(r, k)) THEN {"new-node-off-the-routes"} ELSE
    IF \E i \in DOMAIN r.pe : LET a == PPos(r, r.pe[i][1])  b == PPos(r, r.pe[i][2]) IN (a[1] # b[1] /\ a[2] # b[2]) \/ a = b THEN {"edge-not-an-axis-parallel-segment"} ELSE
    LET E == {<<r.pe[i][1], r.pe[i][2]>> : i \in DOMAIN r.pe}
        psteps == UNION {Steps(PPos(r, e[1]), PPos(r, e[2])) : e \in E}
        isteps == UNION {RouteSteps(r.edges[i].pts) : i \in DOMAIN r.edges}
        new == {k \in DOMAIN r.pn : r.pn[k][1] = 0}
    IN  (IF \E e \in E, f \in E : e # f /\ {e[1], e[2]} # {f[1], f[2]} /\ Cross(r, e, f) THEN {"edges-cross"} ELSE {})
        \cup (IF Cardinality(E) # Len(r.pe) \/ \E e \in E : <<e[2], e[1]>> \in E THEN {"parallel-edges"} ELSE {})
        \cup (IF \E i \in DOMAIN r.edges : r.edges[i].u # r.edges[i].v /\ IdxOf(r, r.edges[i].v) \notin Reach(r, {IdxOf(r, r.edges[i].u)}, new \cup {IdxOf(r, r.edges[i].v)})
              THEN {"former-neighbours-no-longer-joined-through-new-nodes"} ELSE {})
        \cup (IF psteps # isteps THEN {"drawing-changed"} ELSE {})
NonTrivial(r) == ~r.thrown /\ \E k \in DOMAIN r.pn : r.pn[k][1] = 0 /\ Cardinality({i \in DOMAIN r.pe : k \in {r.pe[i][1], r.pe[i][2]}}) >= 3
VARIABLES k, phase, bad
vars == <<k, phase, bad>>
Init == k \in 0..(NChunks - 1) /\ phase = "todo" /\ bad = {}
Idx(kk) == {i \in (kk * CH + 1)..((kk + 1) * CH) : i <= Len(Recs)}
Eval == /\ phase = "todo" /\ phase' = "done" /\ UNCHANGED k
        /\ bad' = UNION { {<<i, t>> : t \in Tags(Recs[i])} : i \in Idx(k) }
        /\ PrintT(<<"STAT", "planar", k, Cardinality({i \in Idx(k) : NonTrivial(Recs[i])})>>)
Spec == Init /\ [][Eval]_vars
Planarised == bad = {}
\* ---- B1: routed graphs -------------------------------------------------------
CONSTANTS GN, GMAXN, GMAXE       \* grid side, max nodes, max edges
GPts == {<<2 * x, 2 * y>> : x \in 0..(GN - 1), y \in 0..(GN - 1)}
\* routes of an edge from p to q: straight if aligned, else the two L-shapes
RoutesOf(p, q) == IF p[1] = q[1] \/ p[2] = q[2] THEN {<<p, q>>} ELSE {<<p, <<q[1], p[2]>>, q>>, <<p, <<p[1], q[2]>>, q>>}
OnSegG(x, a, b) == (a[1] = b[1] /\ x[1] = a[1] /\ Between(x[2], a[2], b[2])) \/ (a[2] = b[2] /\ x[2] = a[2] /\ Between(x[1], a[1], b[1]))
\* a route may not pass over the centre of a third node (nor turn on one)
Clear(rt, others) == \A i \in 1..(Len(rt) - 1) : \A o \in others : ~OnSegG(o, rt[i], rt[i + 1])
NodeSets == UNION {kSubset(n, GPts) : n \in 2..GMAXN}
PairsOfSet(V) == {pq \in V \X V : pq[1][1] < pq[2][1] \/ (pq[1][1] = pq[2][1] /\ pq[1][2] < pq[2][2])}
\* all routed graphs over node set V: a set of (pair, route)
RoutedGraphs(V) ==
    LET prs == PairsOfSet(V)
        allR == UNION {RoutesOf(p[1], p[2]) : p \in prs}
        good == {o \in prs \X allR : o[2] \in RoutesOf(o[1][1], o[1][2]) /\ Clear(o[2], V \ {o[1][1], o[1][2]})}
    IN  {Es \in UNION {kSubset(m, good) : m \in 1..Mn(GMAXE, Cardinality(good))} : \A a \in Es, b \in Es : a[1] = b[1] => a = b}
GenInit == /\ JsonSerialize(IOEnv.PLANARGEN, SetToSeq(UNION {{[nodes |-> SetToSeq(V), edges |-> SetToSeq(Es)] : Es \in RoutedGraphs(V)} : V \in NodeSets}))
           /\ k = 0 /\ phase = "gen" /\ bad = {}
GenSpec == GenInit /\ [][UNCHANGED vars]_vars
=============================================================================
