--------------------------------- MODULE Tglf ---------------------------------
(* C18, second half: writing a graph (node geometry, edges with routes,     *)
(* separation constraints) to TGLF and reading it back yields an equivalent *)
(* graph.  "Equivalent" is defined here on abstract graphs: same node ids   *)
(* with the same lattice position and size, the same edge set with the same *)
(* routes, and -- for the constraints -- the same set of separation         *)
(* constraints per dimension once both graphs' SepMatrices have been        *)
(* compiled to (left, right, gap, equality) form, which identifies a        *)
(* constraint stored under (a, b) with its negation stored under (b, a).    *)
EXTENDS Integers, Sequences, FiniteSets, TLC, Json, IOUtils
Data == JsonDeserialize(IOEnv.TGLFRECS)
Recs == Data.recs
CH == Data.chunk
NChunks == (Len(Recs) + CH - 1) \div CH
SetOf(s) == {s[i] : i \in DOMAIN s}
EdgeSet(g) == {<<{g.edges[i].u, g.edges[i].v}, g.edges[i].route>> : i \in DOMAIN g.edges} \cup
              {<<{g.edges[i].u, g.edges[i].v}, [j \in DOMAIN g.edges[i].route |-> g.edges[i].route[Len(g.edges[i].route) + 1 - j]]>> : i \in DOMAIN g.edges}
\* an equality a + g = b is the same constraint as b - g = a
Norm(c) == IF c[4] /\ c[1] > c[2] THEN <<c[2], c[1], -c[3], TRUE>> ELSE c
ConSet(cs) == {Norm(cs[i]) : i \in DOMAIN cs}
Tags(r) ==
    IF r.thrown THEN {"exception"} ELSE
    (IF SetOf(r.before.nodes) # SetOf(r.after.nodes) THEN {"nodes-differ"} ELSE {})
    \cup (IF Len(r.before.edges) # Len(r.after.edges) \/ \E i \in DOMAIN r.after.edges : <<{r.after.edges[i].u, r.after.edges[i].v}, r.after.edges[i].route>> \notin EdgeSet(r.before)
          THEN {"edges-or-routes-differ"} ELSE {})
    \cup (IF ConSet(r.before.cx) # ConSet(r.after.cx) \/ ConSet(r.before.cy) # ConSet(r.after.cy) THEN {"constraints-differ"} ELSE {})
NonTrivial(r) == ~r.thrown /\ (r.before.cx # <<>> \/ r.before.cy # <<>>)
VARIABLES k, phase, bad
vars == <<k, phase, bad>>
Init == k \in 0..(NChunks - 1) /\ phase = "todo" /\ bad = {}
Idx(kk) == {i \in (kk * CH + 1)..((kk + 1) * CH) : i <= Len(Recs)}
Eval == /\ phase = "todo" /\ phase' = "done" /\ UNCHANGED k
        /\ bad' = UNION { {<<i, t>> : t \in Tags(Recs[i])} : i \in Idx(k) }
        /\ PrintT(<<"STAT", "tglf", k, Cardinality({i \in Idx(k) : NonTrivial(Recs[i])})>>)
Spec == Init /\ [][Eval]_vars
RoundTrips == bad = {}
=============================================================================
