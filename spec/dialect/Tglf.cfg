SPECIFICATION Spec
INVARIANT RoundTrips
CHECK_DEADLOCK FALSE
