SPECIFICATION Spec
INVARIANT AllCommute
CHECK_DEADLOCK FALSE
