SPECIFICATION Spec
INVARIANT TableIsDerived
INVARIANT RotationLemma
CHECK_DEADLOCK FALSE
