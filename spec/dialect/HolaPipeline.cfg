SPECIFICATION Spec
INVARIANT CleanDrawing
CHECK_DEADLOCK FALSE
