------------------------------ MODULE HolaPipeline ------------------------------
(* C14: the postcondition of doHOLA(), judged on the graph handed back:     *)
(* same nodes and edges, sizes unchanged, no two nodes overlapping, every   *)
(* edge routed by horizontal/vertical segments from one end node to the     *)
(* other (within the node padding) without passing through a third node, and the separation *)
(* constraints returned with the graph (compiled per dimension, meaning as  *)
(* in SepCo) satisfied by the returned positions.  Lattice 1/64.            *)
EXTENDS Integers, Sequences, FiniteSets, TLC, Json, IOUtils
Data == JsonDeserialize(IOEnv.HOLARECS)
Recs == Data.recs
S == Data.S
CH == Data.chunk
NChunks == (Len(Recs) + CH - 1) \div CH
SENT == 2000000000
TOL == 2
Abs(x) == IF x < 0 THEN -x ELSE x
Mn(a, b) == IF a <= b THEN a ELSE b
Mx(a, b) == IF a >= b THEN a ELSE b
NodeOf(r, id) == r.nodes[CHOOSE i \in DOMAIN r.nodes : r.nodes[i][1] = id]
Rect(nd) == <<nd[2] - nd[4] \div 2, nd[3] - nd[5] \div 2, nd[2] + nd[4] \div 2, nd[3] + nd[5] \div 2>>
Inside(p, q, slack) == p[1] >= q[1] - slack /\ p[1] <= q[3] + slack /\ p[2] >= q[2] - slack /\ p[2] <= q[4] + slack
Overlap(a, b) == Mn(a[3], b[3]) - Mx(a[1], b[1]) > TOL /\ Mn(a[4], b[4]) - Mx(a[2], b[2]) > TOL
\* axis-parallel segment pq through the interior of rectangle q0 (shrunk by the tolerance)
Through(p, r, q0) == LET q == <<q0[1] + TOL, q0[2] + TOL, q0[3] - TOL, q0[4] - TOL>> IN
    /\ q[1] < q[3] /\ q[2] < q[4]
    /\ Mx(p[1], r[1]) > q[1] /\ Mn(p[1], r[1]) < q[3] /\ Mx(p[2], r[2]) > q[2] /\ Mn(p[2], r[2]) < q[4]
Pos(r, id, dim) == NodeOf(r, id)[dim + 2]
ConOK(r, c, dim) == LET d == Pos(r, c[2], dim) - Pos(r, c[1], dim) - c[3] IN IF c[4] THEN Abs(d) <= 2 * TOL ELSE d >= -2 * TOL
Tags(r) ==
    IF r.thrown THEN (IF r.assertion THEN {"assertion"} ELSE {}) ELSE
    LET ids == {r.nodes[i][1] : i \in DOMAIN r.nodes}
        inE == {{r.edges[i][1], r.edges[i][2]} : i \in DOMAIN r.edges}
        outE == {{r.routes[i].u, r.routes[i].v} : i \in DOMAIN r.routes}
    IN  IF ids # 1..r.n \/ Len(r.nodes) # r.n THEN {"node-set-changed"} ELSE
        (IF inE # outE \/ Len(r.routes) # Len(r.edges) THEN {"edge-set-changed"} ELSE {})
        \cup (IF \E i \in DOMAIN r.nodes : r.nodes[i][2] = SENT \/ r.nodes[i][3] = SENT THEN {"non-finite-position"} ELSE
              (IF \E i \in DOMAIN r.nodes : LET nd == r.nodes[i] IN Abs(nd[4] - r.size[nd[1]][1] * S) > 1 \/ Abs(nd[5] - r.size[nd[1]][2] * S) > 1 THEN {"node-size-changed"} ELSE {})
              \cup (IF \E i \in DOMAIN r.nodes, j \in DOMAIN r.nodes : i < j /\ Overlap(Rect(r.nodes[i]), Rect(r.nodes[j])) THEN {"nodes-overlap"} ELSE {})
              \cup (IF \E e \in DOMAIN r.routes : Len(r.routes[e].pts) < 2 THEN {"route-missing"} ELSE
                    \* an edge drawn as one slanted straight line between its two nodes: what libavoid hands back when its search finds no path
                    LET FB == {e \in DOMAIN r.routes : Len(r.routes[e].pts) = 2 /\ Abs(r.routes[e].pts[1][1] - r.routes[e].pts[2][1]) > TOL /\ Abs(r.routes[e].pts[1][2] - r.routes[e].pts[2][2]) > TOL}
                        OK == DOMAIN r.routes \ FB
                    IN
                    (IF FB # {} THEN {"edge-drawn-as-one-slanted-line-between-its-nodes"} ELSE {}) \cup
                    (LET Slant(e, i) == LET a == r.routes[e].pts[i]  b == r.routes[e].pts[i + 1] IN Abs(a[1] - b[1]) > TOL /\ Abs(a[2] - b[2]) > TOL
                         sl == {<<e, i>> \in OK \X (1..50) : i < Len(r.routes[e].pts) /\ Slant(e, i)}
                     IN  IF sl = {} THEN {}
                         \* only the leg that reaches an end node is off axis (by less than half that node's size): a bend point and the node it
                         \* leads to were placed by different steps
                         ELSE IF \A p \in sl : p[2] \in {1, Len(r.routes[p[1]].pts) - 1} THEN {"diagonal-route-segment:only-the-leg-into-an-end-node"}
                         ELSE {"diagonal-route-segment"})
                    \cup (IF \E e \in OK : LET pts == r.routes[e].pts
                                                            ru == Rect(NodeOf(r, r.routes[e].u))  rv == Rect(NodeOf(r, r.routes[e].v))
                                                        IN  ~((Inside(pts[1], ru, r.pad) /\ Inside(pts[Len(pts)], rv, r.pad)) \/ (Inside(pts[1], rv, r.pad) /\ Inside(pts[Len(pts)], ru, r.pad)))
                          THEN {"route-does-not-join-its-end-nodes"} ELSE {})
                    \cup (LET SlantT(e, i) == LET a == r.routes[e].pts[i]  b == r.routes[e].pts[i + 1] IN Abs(a[1] - b[1]) > TOL /\ Abs(a[2] - b[2]) > TOL
                              thr == {<<e, i>> \in OK \X (1..50) : i < Len(r.routes[e].pts) /\ \E k \in DOMAIN r.nodes :
                                          r.nodes[k][1] \notin {r.routes[e].u, r.routes[e].v} /\ Through(r.routes[e].pts[i], r.routes[e].pts[i + 1], Rect(r.nodes[k]))}
                          IN  IF thr = {} THEN {}
                              \* (Through is exact for axis-parallel segments.)  Every offending segment is the off-axis leg into an end node: the
                              \* node it skims is one that leg would have cleared had it been level -- the class of that leg (F46)
                              ELSE IF \A p \in thr : SlantT(p[1], p[2]) /\ p[2] \in {1, Len(r.routes[p[1]].pts) - 1}
                                   THEN {"route-through-a-third-node:on-the-off-axis-leg-into-an-end-node"}
                              ELSE {"route-through-a-third-node"}))
              \cup (LET badc == {<<0, r.cx[i]>> : i \in {i \in DOMAIN r.cx : ~ConOK(r, r.cx[i], 0)}} \cup {<<1, r.cy[i]>> : i \in {i \in DOMAIN r.cy : ~ConOK(r, r.cy[i], 1)}}
                        \* the pairs constrained in the last logged state of the planar graph P, whose positions are the ones handed back
                        inP == {{r.pcons[i][1], r.pcons[i][2]} : i \in DOMAIN r.pcons}
                        \* an alignment (equality, gap 0) of two adjacent nodes
                        AdjAlign(b) == b[2][4] /\ b[2][3] = 0 /\ {b[2][1], b[2][2]} \in inE
                    IN  IF badc = {} THEN {}
                        ELSE IF Len(r.edges) = r.n - 1 /\ \A b \in badc : AdjAlign(b)
                             THEN {"returned-constraint-violated:tree-only-graph:alignment-of-parent-with-middle-child"}
                        ELSE IF Len(r.edges) >= r.n /\ \A b \in badc : {b[2][1], b[2][2]} \notin inP
                             THEN {"returned-constraint-violated:graph-with-core:constraint-of-the-core-not-carried-by-the-planar-graph"}
                        ELSE {"returned-constraint-violated"}))
NonTrivial(r) == ~r.thrown /\ \E e \in DOMAIN r.routes : Len(r.routes[e].pts) > 2
\* ---- phase-level observations (not part of C14's statement; counted in the evidence, never a violation) ----------------
\* r.plog: the logged state of each main pipeline phase: nodes <<cx, cy, w, h>>, constraints compiled per dimension
\*  - every logged main phase from the hub configuration on leaves its own constraints satisfied by its own positions
\*  - the phases that end with an overlap-preventing destress leave no two (padded) nodes overlapping
NoOverlapPhases == {"OP_destress_core", "EOP_destress_core", "P_EOP_destress", "P_nbr_destress", "P_rotation", "P_translation"}
PRect(nd) == <<nd[1] - nd[3] \div 2, nd[2] - nd[4] \div 2, nd[1] + nd[3] \div 2, nd[2] + nd[4] \div 2>>
PConOK(ph, c, dim) == LET d == ph.nodes[c[2]][dim + 1] - ph.nodes[c[1]][dim + 1] - c[3] IN IF c[4] THEN Abs(d) <= 3 * TOL ELSE d >= -3 * TOL
PhaseObs(r) == IF r.thrown THEN {} ELSE UNION {
      LET ph == r.plog[p] IN
      (IF (\E i \in DOMAIN ph.cx : ~PConOK(ph, ph.cx[i], 0)) \/ (\E i \in DOMAIN ph.cy : ~PConOK(ph, ph.cy[i], 1)) THEN {<<ph.name, "own-constraint-violated">>} ELSE {})
      \cup (IF ph.name \in NoOverlapPhases /\ \E i \in DOMAIN ph.nodes, j \in DOMAIN ph.nodes : i < j /\ Overlap(PRect(ph.nodes[i]), PRect(ph.nodes[j]))
            THEN {<<ph.name, "nodes-overlap">>} ELSE {})
      : p \in DOMAIN r.plog }
VARIABLES k, phase, bad
vars == <<k, phase, bad>>
Init == k \in 0..(NChunks - 1) /\ phase = "todo" /\ bad = {}
Idx(kk) == {i \in (kk * CH + 1)..((kk + 1) * CH) : i <= Len(Recs)}
Eval == /\ phase = "todo" /\ phase' = "done" /\ UNCHANGED k
        /\ bad' = UNION { {<<i, t>> : t \in Tags(Recs[i])} : i \in Idx(k) }
        /\ PrintT(<<"STAT", "hola", k, Cardinality({i \in Idx(k) : NonTrivial(Recs[i])}), Cardinality({i \in Idx(k) : Recs[i].thrown})>>)
        /\ PrintT(<<"OBS", k, UNION {{<<i, o[1], o[2]>> : o \in PhaseObs(Recs[i])} : i \in Idx(k)}, Cardinality({i \in Idx(k) : ~Recs[i].thrown /\ Recs[i].plog # <<>>})>>)
Spec == Init /\ [][Eval]_vars
CleanDrawing == bad = {}
=============================================================================
