SPECIFICATION Spec
CONSTANTS
 GN = 3
 GMAXN = 3
 GMAXE = 3
INVARIANT Planarised
CHECK_DEADLOCK FALSE
