-------------------------------- MODULE BendSeq --------------------------------
(* Beyond the listed properties: libdialect's lookup table minimalBendSeqs  *)
(* (bendseqlookup.cpp, written by hand for one final direction and rotated  *)
(* into the other three by a script) re-derived from first principles.      *)
(* An orthogonal path leaves A travelling d0, turns at bends b1..bk (each   *)
(* bend shape maps the direction travelled into it to the direction         *)
(* travelled out of it, chains.cpp applyBendToDir), and enters Z travelling *)
(* d1.  All k+1 legs have positive length.  The path exists iff the legs    *)
(* can be given positive lengths that add up to the displacement from A to  *)
(* Z, whose sign pattern is fixed by the compass direction c from Z to A    *)
(* (y grows to the south) -- and, since nodes have extent, iff it can be    *)
(* walked on a grid without passing through the cell of A or of Z.  The     *)
(* table must hold, for every (c, d0, d1), exactly the walkable bend        *)
(* sequences of minimal length.                                             *)
EXTENDS Integers, Sequences, FiniteSets, TLC, Json, IOUtils
Data == JsonDeserialize(IOEnv.BENDSEQ)
Recs == Data.recs
\* enum values of the library: CardinalDir E,S,W,N = 0..3; CompassDir E,S,W,N,SE,SW,NW,NE = 0..7; LinkShape TLC=0, BLC=2, TRC=3, BRC=5
E == 0  S == 1  W == 2  N == 3
TLCb == 0  BLCb == 2  TRCb == 3  BRCb == 5
Bends == {TLCb, BLCb, TRCb, BRCb}
\* a bend turns the direction of travel by a quarter: the corner shape says which way
Apply(b, d) == CASE b = TLCb /\ d = N -> E [] b = TLCb /\ d = W -> S
                 [] b = TRCb /\ d = N -> W [] b = TRCb /\ d = E -> S
                 [] b = BRCb /\ d = S -> W [] b = BRCb /\ d = E -> N
                 [] b = BLCb /\ d = S -> E [] b = BLCb /\ d = W -> N
                 [] OTHER -> -1
\* directions travelled along a bend sequence starting in d0; <<>> if some bend cannot be entered in the direction reached
RECURSIVE Dirs(_, _)
Dirs(d, bs) == IF bs = <<>> THEN <<d>> ELSE LET nd == Apply(Head(bs), d) IN IF nd = -1 THEN <<-1>> ELSE <<d>> \o Dirs(nd, Tail(bs))
\* sign of the displacement from A to Z in x and y, from the compass direction c from Z to A
SgnX(c) == CASE c \in {0, 4, 7} -> -1 [] c \in {2, 5, 6} -> 1 [] OTHER -> 0      \* A east of Z: Z lies to the west
SgnY(c) == CASE c \in {1, 4, 5} -> -1 [] c \in {3, 6, 7} -> 1 [] OTHER -> 0      \* A south of Z: Z lies to the north (y smaller)
\* positive leg lengths adding up to a displacement of the given sign along one axis (pos/neg: the two directions of that axis)
AxisOK(ds, pos, neg, sgn) == LET p == \E i \in DOMAIN ds : ds[i] = pos   q == \E i \in DOMAIN ds : ds[i] = neg
                             IN  CASE sgn = 1 -> p [] sgn = -1 -> q [] OTHER -> (p /\ q) \/ (~p /\ ~q)
Feasible(c, d0, d1, bs) == LET ds == Dirs(d0, bs) IN
                           /\ \A i \in DOMAIN ds : ds[i] # -1
                           /\ ds[Len(ds)] = d1
                           /\ AxisOK(ds, E, W, SgnX(c)) /\ AxisOK(ds, S, N, SgnY(c))
SeqsOfLen(k) == [1..k -> Bends]
\* ---- the same with extent: A and Z are cells of a grid two apart (one free cell between aligned nodes); the path leaves A's
\* cell in direction d0, may pass through neither cell on its way, and ends by stepping into Z's cell travelling d1.  Leg
\* lengths up to LMAXLEG cells are enough to walk round both cells in either sense.
LMAXLEG == 5
Vec(d) == CASE d = E -> <<1, 0>> [] d = S -> <<0, 1>> [] d = W -> <<-1, 0>> [] OTHER -> <<0, -1>>
CVec(c) == CASE c = 0 -> <<1, 0>> [] c = 1 -> <<0, 1>> [] c = 2 -> <<-1, 0>> [] c = 3 -> <<0, -1>>
             [] c = 4 -> <<1, 1>> [] c = 5 -> <<-1, 1>> [] c = 6 -> <<-1, -1>> [] OTHER -> <<1, -1>>
APos(c) == <<2 * CVec(c)[1], 2 * CVec(c)[2]>>
\* walk leg i (direction ds[i], length ls[i]) from p; FALSE when a forbidden cell is entered
RECURSIVE Walk(_, _, _, _, _)
Walk(c, ds, ls, i, p) ==
    IF i > Len(ds) THEN p = <<0, 0>>
    ELSE LET v == Vec(ds[i])
             cells == {<<p[1] + s * v[1], p[2] + s * v[2]>> : s \in 1..ls[i]}
             endp == <<p[1] + ls[i] * v[1], p[2] + ls[i] * v[2]>>
             final == i = Len(ds)
         IN  /\ APos(c) \notin cells
             /\ (<<0, 0>> \in cells => final /\ endp = <<0, 0>>)
             /\ Walk(c, ds, ls, i + 1, endp)
Realisable(c, d0, d1, bs) == /\ Feasible(c, d0, d1, bs)
                             /\ LET ds == Dirs(d0, bs) IN \E ls \in [1..Len(ds) -> 1..LMAXLEG] : Walk(c, ds, ls, 1, APos(c))
MinLen(c, d0, d1) == CHOOSE k \in 0..6 : (\E bs \in SeqsOfLen(k) : Realisable(c, d0, d1, bs)) /\ \A j \in 0..(k - 1) : ~\E bs \in SeqsOfLen(j) : Realisable(c, d0, d1, bs)
Derived(c, d0, d1) == {bs \in SeqsOfLen(MinLen(c, d0, d1)) : Realisable(c, d0, d1, bs)}
\* the table's own simplification: a node exactly aligned with Z perpendicular to the final direction of travel is looked up as if it
\* stood a little to one side; sequences that need that room are listed although they cannot be walked when the alignment is exact
\* rotating the whole situation by a quarter turn rotates the answer (the conjugation the generator script relies on)
RotD(d) == (d + 1) % 4
RotC(c) == IF c < 4 THEN (c + 1) % 4 ELSE 4 + ((c - 4 + 1) % 4)      \* SE -> SW -> NW -> NE -> SE
RotB(b) == CASE b = TLCb -> TRCb [] b = TRCb -> BRCb [] b = BRCb -> BLCb [] b = BLCb -> TLCb
RotSeq(bs) == [i \in DOMAIN bs |-> RotB(bs[i])]
TableOf(r) == {r.seqs[i] : i \in DOMAIN r.seqs}
VARIABLES k, bad, rot
vars == <<k, bad, rot>>
Init == k \in DOMAIN Recs /\ bad = "todo" /\ rot = TRUE
Eval == /\ bad = "todo" /\ UNCHANGED k
        /\ LET r == Recs[k]  D == Derived(r.c, r.d0, r.d1)  T == TableOf(r) IN
           bad' = IF T = D THEN "ok"
                  ELSE IF D \subseteq T /\ r.c < 4 /\ \A t \in T \ D : Feasible(r.c, r.d0, r.d1, t) /\ Len(t) = MinLen(r.c, r.d0, r.d1)
                       THEN "lists-a-sequence-not-walkable-when-exactly-aligned"
                  ELSE IF \E t \in T : ~Feasible(r.c, r.d0, r.d1, t) THEN "table-has-an-infeasible-sequence"
                  ELSE IF \E t \in T : Len(t) # MinLen(r.c, r.d0, r.d1) THEN "table-sequence-is-not-minimal"
                  ELSE "table-misses-a-minimal-sequence"
        /\ PrintT(<<"BENDSEQ", k, bad'>>)
        \* a quarter turn of the whole situation turns the answer (the conjugation the generator script relies on), entry by entry
        /\ LET r == Recs[k] IN rot' = (Derived(RotC(r.c), RotD(r.d0), RotD(r.d1)) = {RotSeq(bs) : bs \in Derived(r.c, r.d0, r.d1)})
Spec == Init /\ [][Eval]_vars
RotationLemma == rot
TableIsDerived == bad \in {"todo", "ok", "lists-a-sequence-not-walkable-when-exactly-aligned"}
=============================================================================
