SPECIFICATION Spec
INVARIANT TopologyPreserved
CHECK_DEADLOCK FALSE
