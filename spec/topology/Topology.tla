-------------------------------- MODULE Topology --------------------------------
(* C13: topology-preserving layout never pulls an edge through a node.      *)
(* A recorded run is a sequence of states (after every layout step): node   *)
(* rectangles <<x, y, X, Y>> and, per edge, its path as <<node, corner, x,  *)
(* y>> points; everything on a 1/16 lattice.                                 *)
(* State invariants: nodes do not overlap; no segment passes through the    *)
(* interior of a node other than the edge's end nodes (nodes shrunk by the  *)
(* tolerance); paths start and end at their original nodes; every interior  *)
(* path point is a corner of its node.                                       *)
(* Step property (consecutive states): PassSide is unchanged, where          *)
(* PassSide(e, v) says on which side of node v's centre edge e passes --     *)
(* the parity of the crossings of the path with the ray from v's centre      *)
(* in each of the four axis directions.  Pulling an edge through a node      *)
(* flips that parity in two opposite directions.                             *)
EXTENDS Integers, Sequences, FiniteSets, TLC, Json, IOUtils
Data == JsonDeserialize(IOEnv.TOPORECS)
Recs == Data.recs
CH == Data.chunk
NChunks == (Len(Recs) + CH - 1) \div CH
TOL == 2
Abs(x) == IF x < 0 THEN -x ELSE x
Mn(a, b) == IF a <= b THEN a ELSE b
Mx(a, b) == IF a >= b THEN a ELSE b
Cross(ax, ay, bx, by) == ax * by - ay * bx
\* open segment pq meets the open interior of rectangle q shrunk by TOL (separating-axis test, orientation signs only)
Shrunk(q) == <<q[1] + TOL, q[2] + TOL, q[3] - TOL, q[4] - TOL>>
Corners(q) == <<<<q[1], q[2]>>, <<q[3], q[2]>>, <<q[3], q[4]>>, <<q[1], q[4]>>>>
SegThroughRect(p, r, q0) ==
    LET q == Shrunk(q0) IN
    /\ q[1] < q[3] /\ q[2] < q[4] /\ p # r
    /\ ~(Mx(p[1], r[1]) <= q[1] \/ Mn(p[1], r[1]) >= q[3] \/ Mx(p[2], r[2]) <= q[2] \/ Mn(p[2], r[2]) >= q[4])
    /\ LET s == {Cross(r[1] - p[1], r[2] - p[2], Corners(q)[i][1] - p[1], Corners(q)[i][2] - p[2]) : i \in 1..4}
       IN  (\E a \in s : a > 0) /\ (\E a \in s : a < 0)
Overlap(a, b) == Mn(a[3], b[3]) - Mx(a[1], b[1]) > TOL /\ Mn(a[4], b[4]) - Mx(a[2], b[2]) > TOL
\* A step moves things along one axis only (dim 0: x changes, y is constant).  For such a step, take every segment of
\* edge e that strictly straddles the centre line of node v in the constant axis and record on which side of v's centre
\* it crosses that line; the numbers of crossings on either side cannot change unless the edge is pulled through v.
Pt(pp) == <<pp[3], pp[4]>>
Along(p, dim) == IF dim = 0 THEN p[1] ELSE p[2]        \* coordinate that moves
Fixed(p, dim) == IF dim = 0 THEN p[2] ELSE p[1]        \* coordinate that stays
SideCount(path, q, dim, side) ==
    LET c2f == IF dim = 0 THEN q[2] + q[4] ELSE q[1] + q[3]      \* doubled centre, constant axis
        c2a == IF dim = 0 THEN q[1] + q[3] ELSE q[2] + q[4]      \* doubled centre, moving axis
    IN  Cardinality({i \in 1..(Len(path) - 1) :
            LET a == Pt(path[i])  b == Pt(path[i + 1])
                fa == 2 * Fixed(a, dim) - c2f   fb == 2 * Fixed(b, dim) - c2f
                \* (crossing position - centre) * (fb - fa), all doubled
                num == (2 * Along(a, dim) - c2a) * (fb - fa) - fa * (2 * Along(b, dim) - 2 * Along(a, dim))
            IN  /\ (fa < 0 /\ fb >= 0) \/ (fa >= 0 /\ fb < 0)        \* half-open, so a bend exactly on the centre line is counted once
                /\ (IF (fb - fa) > 0 THEN num ELSE -num) * side > 0})
EndNodes(r, e) == {r.edges[e][1] + 1, r.edges[e][2] + 1}
StateTags(r, st) ==
    (IF \E a \in DOMAIN st.nodes, b \in DOMAIN st.nodes : a < b /\ Overlap(st.nodes[a], st.nodes[b]) THEN {"nodes-overlap"} ELSE {})
    \cup (IF \E e \in DOMAIN st.paths : \E i \in 1..(Len(st.paths[e]) - 1), v \in DOMAIN st.nodes :
              v \notin EndNodes(r, e) /\ SegThroughRect(Pt(st.paths[e][i]), Pt(st.paths[e][i + 1]), st.nodes[v]) THEN {"segment-through-node"} ELSE {})
    \cup (IF \E e \in DOMAIN st.paths : Len(st.paths[e]) < 2 \/ {st.paths[e][1][1] + 1, st.paths[e][Len(st.paths[e])][1] + 1} # EndNodes(r, e)
                                        \/ st.paths[e][1][2] # 4 \/ st.paths[e][Len(st.paths[e])][2] # 4 THEN {"path-ends-changed"} ELSE {})
    \cup (IF \E e \in DOMAIN st.paths : \E i \in 2..(Len(st.paths[e]) - 1) :
              LET pp == st.paths[e][i]  q == st.nodes[pp[1] + 1] IN pp[2] = 4 \/ ~(\E cn \in 1..4 : Abs(Corners(q)[cn][1] - pp[3]) <= TOL /\ Abs(Corners(q)[cn][2] - pp[4]) <= TOL)
          THEN {"bend-not-on-a-node-corner"} ELSE {})
\* dim 2 = a resize (topology::applyResizes moves in both axes inside one call): the state clauses alone are judged
StepTags(r, s1, s2, dim) ==
    IF dim = 2 THEN {} ELSE
    IF \E e \in DOMAIN s1.paths, v \in DOMAIN s1.nodes : v \notin EndNodes(r, e) /\
          \E side \in {-1, 1} : SideCount(s1.paths[e], s1.nodes[v], dim, side) # SideCount(s2.paths[e], s2.nodes[v], dim, side)
    THEN {"edge-changed-side-of-a-node"} ELSE {}
Tags(r) == (IF r.thrown THEN {"exception"} ELSE {})
           \cup UNION {StateTags(r, r.states[i]) : i \in DOMAIN r.states}
           \cup UNION {StepTags(r, r.states[i], r.states[i + 1], r.dims[i]) : i \in 1..(Len(r.states) - 1)}
NonTrivial(r) == \E i \in DOMAIN r.states : \E e \in DOMAIN r.states[i].paths : Len(r.states[i].paths[e]) > 2
VARIABLES k, phase, bad
vars == <<k, phase, bad>>
Init == k \in 0..(NChunks - 1) /\ phase = "todo" /\ bad = {}
Idx(kk) == {i \in (kk * CH + 1)..((kk + 1) * CH) : i <= Len(Recs)}
Eval == /\ phase = "todo" /\ phase' = "done" /\ UNCHANGED k
        /\ bad' = UNION { {<<i, t>> : t \in Tags(Recs[i])} : i \in Idx(k) }
        /\ PrintT(<<"STAT", "topo", k, Cardinality({i \in Idx(k) : NonTrivial(Recs[i])})>>)
Spec == Init /\ [][Eval]_vars
TopologyPreserved == bad = {}
=============================================================================
