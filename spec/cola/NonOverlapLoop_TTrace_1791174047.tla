---- MODULE NonOverlapLoop_TTrace_1791174047 ----
EXTENDS Sequences, TLCExt, Toolbox, Naturals, TLC, NonOverlapLoop

_expression ==
    LET NonOverlapLoop_TEExpression == INSTANCE NonOverlapLoop_TEExpression
    IN NonOverlapLoop_TEExpression!expression
----

_trace ==
    LET NonOverlapLoop_TETrace == INSTANCE NonOverlapLoop_TETrace
    IN NonOverlapLoop_TETrace!trace
----

_prop ==
    ~<>[](
        sorted = (FALSE)
        /\
        idx = (0)
        /\
        list = (<<[ov |-> TRUE, proc |-> TRUE, stuck |-> TRUE]>>)
    )
----

_init ==
    /\ idx = _TETrace[1].idx
    /\ sorted = _TETrace[1].sorted
    /\ list = _TETrace[1].list
----

_next ==
    /\ \E i,j \in DOMAIN _TETrace:
        /\ \/ /\ j = i + 1
              /\ i = TLCGet("level")
        /\ idx  = _TETrace[i].idx
        /\ idx' = _TETrace[j].idx
        /\ sorted  = _TETrace[i].sorted
        /\ sorted' = _TETrace[j].sorted
        /\ list  = _TETrace[i].list
        /\ list' = _TETrace[j].list

\* Uncomment the ASSUME below to write the states of the error trace
\* to the given file in Json format. Note that you can pass any tuple
\* to `JsonSerialize`. For example, a sub-sequence of _TETrace.
    \* ASSUME
    \*     LET J == INSTANCE Json
    \*         IN J!JsonSerialize("NonOverlapLoop_TTrace_1791174047.json", _TETrace)

=============================================================================

 Note that you can extract this module `NonOverlapLoop_TEExpression`
  to a dedicated file to reuse `expression` (the module in the 
  dedicated `NonOverlapLoop_TEExpression.tla` file takes precedence 
  over the module `NonOverlapLoop_TEExpression` below).

---- MODULE NonOverlapLoop_TEExpression ----
EXTENDS Sequences, TLCExt, Toolbox, Naturals, TLC, NonOverlapLoop

expression == 
    [
        \* To hide variables of the `NonOverlapLoop` spec from the error trace,
        \* remove the variables below.  The trace will be written in the order
        \* of the fields of this record.
        idx |-> idx
        ,sorted |-> sorted
        ,list |-> list
        
        \* Put additional constant-, state-, and action-level expressions here:
        \* ,_stateNumber |-> _TEPosition
        \* ,_idxUnchanged |-> idx = idx'
        
        \* Format the `idx` variable as Json value.
        \* ,_idxJson |->
        \*     LET J == INSTANCE Json
        \*     IN J!ToJson(idx)
        
        \* Lastly, you may build expressions over arbitrary sets of states by
        \* leveraging the _TETrace operator.  For example, this is how to
        \* count the number of times a spec variable changed up to the current
        \* state in the trace.
        \* ,_idxModCount |->
        \*     LET F[s \in DOMAIN _TETrace] ==
        \*         IF s = 1 THEN 0
        \*         ELSE IF _TETrace[s].idx # _TETrace[s-1].idx
        \*             THEN 1 + F[s-1] ELSE F[s-1]
        \*     IN F[_TEPosition - 1]
    ]

=============================================================================



Parsing and semantic processing can take forever if the trace below is long.
 In this case, it is advised to uncomment the module below to deserialize the
 trace from a generated binary file.

\*
\*---- MODULE NonOverlapLoop_TETrace ----
\*EXTENDS IOUtils, TLC, NonOverlapLoop
\*
\*trace == IODeserialize("NonOverlapLoop_TTrace_1791174047.bin", TRUE)
\*
\*=============================================================================
\*

---- MODULE NonOverlapLoop_TETrace ----
EXTENDS TLC, NonOverlapLoop

trace == 
    <<
    ([sorted |-> FALSE,idx |-> 0,list |-> <<[ov |-> TRUE, proc |-> FALSE, stuck |-> TRUE]>>]),
    ([sorted |-> FALSE,idx |-> 0,list |-> <<[ov |-> TRUE, proc |-> TRUE, stuck |-> TRUE]>>])
    >>
----


=============================================================================

---- CONFIG NonOverlapLoop_TTrace_1791174047 ----
CONSTANTS
    NPAIRS = 2
    FIX = FALSE

PROPERTY
    _prop

CHECK_DEADLOCK
    \* CHECK_DEADLOCK off because of PROPERTY or INVARIANT above.
    FALSE

INIT
    _init

NEXT
    _next

CONSTANT
    _TETrace <- _trace

ALIAS
    _expression
=============================================================================
\* Generated on Mon Oct 05 04:20:48 UTC 2026