SPECIFICATION Spec
CONSTANTS
 NPAIRS = 2
 FIX = FALSE
PROPERTY Termination
