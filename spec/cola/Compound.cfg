SPECIFICATION Spec
INVARIANT AllHold
CHECK_DEADLOCK FALSE
