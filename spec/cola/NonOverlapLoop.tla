--------------------------- MODULE NonOverlapLoop ---------------------------
(* Design-level model of the loop in ConstrainedFDLayout::makeFeasible()    *)
(* that resolves overlapping pairs through NonOverlapConstraints            *)
(* (cc_nonoverlapconstraints.cpp: getCurrSubConstraintAlternatives,         *)
(* markCurrSubConstraintAsActive, subConstraintsRemaining), one action per  *)
(* pass of the while loop.  A pair is "stuck" when none of its four         *)
(* separation alternatives can be satisfied (its nodes are pinned by other  *)
(* constraints).  With FIX = FALSE the model is the code before the repair  *)
(* 6e1feea: TLC finds the lasso in which a stuck pair is offered for ever   *)
(* (known finding F31).  With FIX = TRUE -- a processed pair at the front   *)
(* of the list ends the iteration -- Termination holds.                     *)
EXTENDS Integers, Sequences, FiniteSets, TLC
CONSTANTS NPAIRS, FIX
\* a pair: overlapping now?, already processed?, can one of its alternatives be satisfied?
Pair == [ov : BOOLEAN, proc : BOOLEAN, stuck : BOOLEAN]
VARIABLES list, sorted, idx
vars == <<list, sorted, idx>>
\* processed pairs sort to the back; among the others the overlapping ones (larger overlapMax) come first
Less(a, b) == IF a.proc # b.proc THEN ~a.proc ELSE a.ov /\ ~b.ov
SortedSeqs(s) == {t \in [1..Len(s) -> Pair] : (\A p \in Pair : Cardinality({i \in 1..Len(s) : s[i] = p}) = Cardinality({i \in 1..Len(t) : t[i] = p}))
                                              /\ \A i \in 1..(Len(t) - 1) : ~Less(t[i + 1], t[i])}
Init == /\ list \in UNION {[1..n -> {p \in Pair : ~p.proc}] : n \in 1..NPAIRS}
        /\ sorted = FALSE /\ idx = 0
Done == idx = Len(list)
\* computeAndSortOverlap: the overlap of unprocessed pairs is what it is; the list is re-sorted
Resort == \E t \in SortedSeqs(list) : list' = t
\* one pass of "while (cc->subConstraintsRemaining())"
Pass == /\ ~Done
        /\ LET f == list[1] IN
           IF FIX /\ f.proc THEN idx' = Len(list) /\ UNCHANGED <<list, sorted>>            \* the repair: every pair has been dealt with
           ELSE IF ~f.ov
                THEN IF sorted THEN idx' = Len(list) /\ UNCHANGED <<list, sorted>>           \* "seeing no overlap in the sorted list": finished
                     ELSE Resort /\ sorted' = TRUE /\ UNCHANGED idx                          \* no alternatives this time; sort and look again
                ELSE \* alternatives are offered and tried; markCurrSubConstraintAsActive moves the pair to the back as processed.
                     \* A pair that could be separated no longer overlaps; a stuck pair still does (its overlap is recomputed when it
                     \* reaches the front of the unsorted list again)
                     /\ list' = Tail(list) \o <<[ov |-> f.stuck, proc |-> TRUE, stuck |-> f.stuck]>>
                     /\ sorted' = FALSE /\ UNCHANGED idx
Next == Pass \/ (Done /\ UNCHANGED vars)
Spec == Init /\ [][Next]_vars /\ WF_vars(Pass)
Termination == <>Done
\* (safety side of the repair) when the loop ends, every pair that could be separated has been
AllSeparablePairsHandled == Done => \A i \in 1..Len(list) : (list[i].ov /\ ~list[i].stuck) => FALSE
=============================================================================
