--------------------------- MODULE ShortestPaths ---------------------------
(* C17.  Weighted undirected multigraphs (self-loops and parallel edges     *)
(* allowed); weights are non-negative integers in units of 1/8, so every    *)
(* path length the implementation forms in doubles is exact.                *)
(*   Dist     : Bellman-Ford fixpoint (the oracle, small graphs)            *)
(*   Cert     : certificate form checkable in O(n m) per source             *)
(* Records hold the matrices returned by dijkstra (per source), johnsons    *)
(* and floyd_warshall, and the D/G matrices a ConstrainedFDLayout exposes.  *)
EXTENDS Integers, Sequences, FiniteSets, FiniteSetsExt, SequencesExt, TLC, Json, IOUtils
INF == 1000000000        \* "unreachable" inside the specification
UNREACH == -1            \* how the harness writes numeric_limits<T>::max()
Nodes(g) == 1..g.n
Edges(g) == DOMAIN g.edges        \* g.edges[i] = <<u, v, w>>

MinS(S) == CHOOSE x \in S : \A y \in S : x <= y
\* one round of relaxation of the distances from s
RelaxRound(g, d) ==
    TLCEval([v \in Nodes(g) |->
        LET via == {d[g.edges[e][1]] + g.edges[e][3] : e \in {e \in Edges(g) : g.edges[e][2] = v /\ d[g.edges[e][1]] < INF}}
                   \cup {d[g.edges[e][2]] + g.edges[e][3] : e \in {e \in Edges(g) : g.edges[e][1] = v /\ d[g.edges[e][2]] < INF}}
        IN  IF via = {} THEN d[v] ELSE LET m == MinS(via) IN IF m < d[v] THEN m ELSE d[v]])
RECURSIVE BF(_, _, _)
BF(g, d, k) == IF k = 0 THEN d ELSE BF(g, RelaxRound(g, d), k - 1)
DistFrom(g, s) == BF(g, TLCEval([v \in Nodes(g) |-> IF v = s THEN 0 ELSE INF]), g.n)
Dist(g) == TLCEval([s \in Nodes(g) |-> DistFrom(g, s)])

\* ---- certificate ----------------------------------------------------------
RECURSIVE Closure(_, _, _)
Closure(g, S, ok) ==      \* nodes reachable from S over edges satisfying ok(e, from, to)
    LET T == S \cup {g.edges[e][2] : e \in {e \in Edges(g) : g.edges[e][1] \in S /\ ok[e][1]}}
               \cup {g.edges[e][1] : e \in {e \in Edges(g) : g.edges[e][2] \in S /\ ok[e][2]}}
    IN  IF T = S THEN S ELSE Closure(g, T, ok)
AllOk(g) == [e \in Edges(g) |-> <<TRUE, TRUE>>]
\* d : Nodes -> value (UNREACH for unreachable) claimed to be the distances from s
CertFrom(g, s, d) ==
    LET fin(v) == d[v] # UNREACH
        tight  == TLCEval([e \in Edges(g) |->
                     LET u == g.edges[e][1]  v == g.edges[e][2]  ww == g.edges[e][3]
                     IN  << fin(u) /\ fin(v) /\ d[v] = d[u] + ww, fin(u) /\ fin(v) /\ d[u] = d[v] + ww >>])
    IN  /\ d[s] = 0
        /\ \A v \in Nodes(g) : fin(v) => d[v] >= 0
        /\ \A e \in Edges(g) : LET u == g.edges[e][1]  v == g.edges[e][2]  ww == g.edges[e][3]
                               IN  /\ fin(u) => (fin(v) /\ d[v] <= d[u] + ww)
                                   /\ fin(v) => (fin(u) /\ d[u] <= d[v] + ww)
        /\ Closure(g, {s}, tight) = {v \in Nodes(g) : fin(v)}
MatrixCert(g, M) == \A s \in Nodes(g) : CertFrom(g, s, [v \in Nodes(g) |-> M[(s - 1) * g.n + v]])
Symmetric(g, M) == \A s \in Nodes(g), t \in Nodes(g) : M[(s - 1) * g.n + t] = M[(t - 1) * g.n + s]
MatrixIsDist(g, M) == LET D == Dist(g) IN
    \A s \in Nodes(g), t \in Nodes(g) : M[(s - 1) * g.n + t] = (IF D[s][t] >= INF THEN UNREACH ELSE D[s][t])

\* ---- layout matrix --------------------------------------------------------
\* edge lengths len (1/8 units, may be <= 0) -> effective lengths (non-positive replaced by 1 = 8/8)
EffGraph(g) == [n |-> g.n, edges |-> [e \in Edges(g) |-> <<g.edges[e][1], g.edges[e][2], IF g.elen[e] <= 0 THEN 8 ELSE g.elen[e]>>]]
LayoutOK(g, ideal, LD, LG) ==
    LET eg == EffGraph(g)
        scaled == [i \in DOMAIN LD |-> IF LD[i] = UNREACH THEN UNREACH ELSE LD[i]]
        \* LD holds ideal * dist (in 1/8): divide out exactly
        M == [i \in DOMAIN LD |-> IF LD[i] = UNREACH THEN UNREACH ELSE IF LD[i] % ideal = 0 THEN LD[i] \div ideal ELSE -7]
    IN  /\ IF g.n <= 7 THEN MatrixIsDist(eg, M) ELSE MatrixCert(eg, M)
        /\ \A s \in Nodes(g), t \in Nodes(g) : s # t =>
              LG[(s - 1) * g.n + t] =
                 (IF \E e \in Edges(g) : {g.edges[e][1], g.edges[e][2]} = {s, t} THEN 1
                  ELSE IF M[(s - 1) * g.n + t] = UNREACH THEN 0 ELSE 2)

\* ---- beyond the statement: cola::connectedComponents / separateComponents ----
\* cs[c] = [ids |-> node ids in the component's local order, edges |-> <<i, j>> local indices, rectsok |-> 1 iff rects[k] is node ids[k]'s rectangle]
\* rb / ra : rectangles <<x, X, y, Y>> (1/1024 units) before / after separateComponents
IdSet(c) == {c.ids[i] : i \in DOMAIN c.ids}
PairCount(sq, u, v) == Cardinality({i \in DOMAIN sq : {sq[i][1], sq[i][2]} = {u, v}})
ComponentsOK(g, cs) ==
    /\ \A c \in DOMAIN cs : Len(cs[c].ids) > 0 /\ Cardinality(IdSet(cs[c])) = Len(cs[c].ids) /\ cs[c].rectsok = 1
    /\ UNION {IdSet(cs[c]) : c \in DOMAIN cs} = Nodes(g)
    /\ \A c \in DOMAIN cs, d \in DOMAIN cs : c # d => IdSet(cs[c]) \cap IdSet(cs[d]) = {}
    \* a component is exactly the set of nodes reachable from its first node
    /\ \A c \in DOMAIN cs : IdSet(cs[c]) = Closure(g, {cs[c].ids[1]}, AllOk(g))
    \* every edge of the graph appears, re-indexed, in exactly one component, with its multiplicity
    /\ \A c \in DOMAIN cs : \A e \in DOMAIN cs[c].edges : cs[c].edges[e][1] \in DOMAIN cs[c].ids /\ cs[c].edges[e][2] \in DOMAIN cs[c].ids
    /\ \A c \in DOMAIN cs :
          LET mapped == [e \in DOMAIN cs[c].edges |-> <<cs[c].ids[cs[c].edges[e][1]], cs[c].ids[cs[c].edges[e][2]]>>]
              own    == SelectSeq(g.edges, LAMBDA ed : ed[1] \in IdSet(cs[c]))
          IN  /\ Len(mapped) = Len(own)
              /\ \A e \in DOMAIN own : PairCount(mapped, own[e][1], own[e][2]) = PairCount(own, own[e][1], own[e][2])
AbsV(x) == IF x < 0 THEN -x ELSE x
SeparateOK(cs, rb, ra, border) ==
    LET bb(c) == LET S == IdSet(cs[c]) IN
                 << MinS({ra[i][1] : i \in S}), Max({ra[i][2] : i \in S}), MinS({ra[i][3] : i \in S}), Max({ra[i][4] : i \in S}) >>
        ov(a, b, lo, hi) == (IF a[hi] < b[hi] THEN a[hi] ELSE b[hi]) - (IF a[lo] > b[lo] THEN a[lo] ELSE b[lo])
    IN  \* every component moves rigidly, sizes unchanged
        /\ \A c \in DOMAIN cs : LET f == cs[c].ids[1] IN \A i \in IdSet(cs[c]) :
              /\ AbsV((ra[i][1] - rb[i][1]) - (ra[f][1] - rb[f][1])) <= 1 /\ AbsV((ra[i][2] - rb[i][2]) - (ra[f][2] - rb[f][2])) <= 1
              /\ AbsV((ra[i][3] - rb[i][3]) - (ra[f][3] - rb[f][3])) <= 1 /\ AbsV((ra[i][4] - rb[i][4]) - (ra[f][4] - rb[f][4])) <= 1
        \* the components' bounding boxes no longer overlap
        /\ \A c \in DOMAIN cs, d \in DOMAIN cs : c < d => (ov(bb(c), bb(d), 1, 2) <= 1 \/ ov(bb(c), bb(d), 3, 4) <= 1)
        \* the global border settings are restored
        /\ border = <<0, 0>>

\* ---- records ----------------------------------------------------------------
Data == JsonDeserialize(IOEnv.SPRECS)
Recs == Data.recs
CH == Data.chunk
NChunks == (Len(Recs) + CH - 1) \div CH
Graph(r) == [n |-> r.n, edges |-> r.edges, elen |-> r.elen]
Tags(r) ==
    LET g == Graph(r)
        judge(M) == IF r.n <= 7 THEN MatrixIsDist(g, M) ELSE MatrixCert(g, M)
    IN  (IF judge(r.dij) /\ Symmetric(g, r.dij) THEN {} ELSE {"dijkstra"})
        \cup (IF judge(r.john) /\ Symmetric(g, r.john) THEN {} ELSE {"johnsons"})
        \cup (IF judge(r.fw) /\ Symmetric(g, r.fw) THEN {} ELSE {"floyd_warshall"})
        \cup (IF r.dij = r.john /\ r.john = r.fw THEN {} ELSE {"disagree"})
        \cup (IF LayoutOK(g, r.ideal, r.ld, r.lg) THEN {} ELSE {"layout-matrix"})
        \cup (IF ComponentsOK(g, r.comps) THEN {} ELSE {"components"})
        \cup (IF SeparateOK(r.comps, r.rb, r.ra, r.border) THEN {} ELSE {"separate-components"})
NonTrivial(r) == \E e \in DOMAIN r.edges : r.edges[e][1] # r.edges[e][2]
Special(r) == (\E e \in DOMAIN r.edges : r.edges[e][1] = r.edges[e][2])
              \/ (\E e \in DOMAIN r.edges, f \in DOMAIN r.edges : e # f /\ {r.edges[e][1], r.edges[e][2]} = {r.edges[f][1], r.edges[f][2]})
              \/ (\E i \in DOMAIN r.john : r.john[i] = UNREACH)
VARIABLES k, phase, bad, gr
vars == <<k, phase, bad, gr>>
Init == k \in 0..(NChunks - 1) /\ phase = "todo" /\ bad = {} /\ gr = {}
Idx(kk) == {i \in (kk * CH + 1)..((kk + 1) * CH) : i <= Len(Recs)}
Eval == /\ phase = "todo" /\ phase' = "done" /\ UNCHANGED <<k, gr>>
        /\ bad' = UNION { {<<i, t>> : t \in Tags(Recs[i])} : i \in Idx(k) }
        /\ PrintT(<<"STAT", "sp", k, Cardinality({i \in Idx(k) : NonTrivial(Recs[i])}), Cardinality({i \in Idx(k) : Special(Recs[i])})>>)
Spec == Init /\ [][Eval]_vars
AllExact == bad = {}

\* ---- design level: the certificate accepts exactly the Bellman-Ford distances on all small graphs ----
CONSTANTS GN, GK
WPool == {0, 4, 8, 24}
EPool == {<<u, v, ww>> : u \in 1..GN, v \in 1..GN, ww \in WPool} \ {<<u, v, ww>> \in (1..GN) \X (1..GN) \X WPool : u > v}
GraphSets == UNION {kSubset(kk, EPool) : kk \in 0..GK}
AsMatrix(g) == LET D == Dist(g) IN [i \in 1..(g.n * g.n) |-> LET s == ((i - 1) \div g.n) + 1  t == ((i - 1) % g.n) + 1
                                                            IN  IF D[s][t] >= INF THEN UNREACH ELSE D[s][t]]
LemInit == gr \in GraphSets /\ k = 0 /\ phase = "todo" /\ bad = {}
LemEval == /\ phase = "todo" /\ phase' = "done" /\ UNCHANGED <<k, gr>>
           /\ LET g == [n |-> GN, edges |-> SetToSeq(gr)]
                  M == AsMatrix(g)
              IN  bad' = (IF MatrixCert(g, M) /\ Symmetric(g, M) THEN {} ELSE {"cert-rejects-truth"})
                         \cup (IF \E i \in DOMAIN M : M[i] # UNREACH /\ M[i] > 0 /\ MatrixCert(g, [M EXCEPT ![i] = M[i] - 1]) THEN {"cert-accepts-shorter"} ELSE {})
                         \cup (IF \E i \in DOMAIN M : M[i] # UNREACH /\ MatrixCert(g, [M EXCEPT ![i] = M[i] + 1]) THEN {"cert-accepts-longer"} ELSE {})
                         \cup (IF \E i \in DOMAIN M : M[i] = UNREACH /\ MatrixCert(g, [M EXCEPT ![i] = 8]) THEN {"cert-accepts-phantom"} ELSE {})
LemSpec == LemInit /\ [][LemEval]_<<k, phase, bad, gr>>
\* B1: the same graph sets written out for the harness
GenInit == /\ JsonSerialize(IOEnv.SPGEN, SetToSeq({[n |-> GN, edges |-> SetToSeq(S)] : S \in GraphSets}))
           /\ gr = {} /\ k = Cardinality(GraphSets) /\ phase = "gen" /\ bad = {}
GenSpec == GenInit /\ [][UNCHANGED <<k, phase, bad, gr>>]_<<k, phase, bad, gr>>
=============================================================================
