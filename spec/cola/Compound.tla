------------------------------- MODULE Compound -------------------------------
(* C07 / C08: the meaning of libcola's compound constraints, of node        *)
(* overlap avoidance and of rectangular cluster containment, over rectangle *)
(* centres on the 1e-4 lattice (all recorded values are integers, S units   *)
(* per length unit).  A record is one layout run: sizes, the constraints as *)
(* the user supplied them, which of them the layout reported unsatisfiable, *)
(* sizes and centres afterwards.  Written from the documentation of         *)
(* compound_constraints.h, not from the generate...() code.                 *)
EXTENDS Integers, Sequences, FiniteSets, TLC, Json, IOUtils
Data == JsonDeserialize(IOEnv.LAYOUTRECS)
Recs == Data.recs
S == Data.S
CH == Data.chunk
NChunks == (Len(Recs) + CH - 1) \div CH
SENT == 2000000000
FAR == 1999999999        \* finite, but beyond the lattice: the run cannot be judged (counted, not a violation)
TOL == 3                           \* 1e-4 (one unit) plus lattice rounding on either side
Abs(x) == IF x < 0 THEN -x ELSE x
P(r, i, dim) == r.pos[i + 1][dim + 1]                \* node indices in constraints are 0-based, dim 0 = x
ToSet(s) == {s[i] : i \in DOMAIN s}
\* ---- user constraints ---------------------------------------------------------
\* kind 1: a = <<l, r, gap, eq>>
SepOK(r, c) == LET d == P(r, c.a[2], c.dim) - P(r, c.a[1], c.dim) - c.a[3] * S IN IF c.a[4] = 1 THEN Abs(d) <= TOL ELSE d >= -TOL
\* kind 2: a = <<k, i1, off1, .., ik, offk, fixed, pos>> : all (centre - offset) equal the guide line (= pos if fixed)
AlMembers(c) == {<<c.a[2 * q], c.a[2 * q + 1]>> : q \in 1..c.a[1]}
Guides(r, c) == {P(r, m[1], c.dim) - m[2] * S : m \in AlMembers(c)}
\* (fixPos() is a heavily weighted preference for the guide's position, not a constraint: the members stay
\*  aligned but the line may sit a few 1e-3 off the requested position, so that clause is not asserted)
AlignOK(r, c) == \A g \in Guides(r, c), h \in Guides(r, c) : Abs(g - h) <= TOL
Guide(r, c) == CHOOSE g \in Guides(r, c) : TRUE
\* kind 3: a = <<k, i1, off1, ..>> : offset < 0: node on the low side, at least |offset| from the line; > 0: high side
BoundOK(r, c) == LET ms == AlMembers(c)
                     lo == {P(r, m[1], c.dim) - m[2] * S : m \in {m \in ms : m[2] < 0}}     \* centre + |off|  must be <= line
                     hi == {P(r, m[1], c.dim) - m[2] * S : m \in {m \in ms : m[2] >= 0}}    \* centre - off    must be >= line (offset 0: on or right of it)
                 IN  \A a \in lo, b \in hi : a <= b + TOL
\* kind 4: a = <<minSep, eq, np, a1, a2, ..>> over earlier alignment constraints (0-based indices into r.cons)
\* kind 5: a = <<sep, np, a1, a2, ..>> : consecutive guide lines exactly sep apart
PairsOf(c, base) == {<<c.a[base + 2 * (q - 1)], c.a[base + 2 * (q - 1) + 1]>> : q \in 1..c.a[base - 1]}
GuideOf(r, idx) == Guide(r, r.cons[idx + 1])
Usable(r, rep, idx) == (idx + 1) \notin rep /\ AlignOK(r, r.cons[idx + 1])
MultiSepOK(r, rep, c) == \A pr \in PairsOf(c, 4) : (Usable(r, rep, pr[1]) /\ Usable(r, rep, pr[2])) =>
                              LET d == GuideOf(r, pr[2]) - GuideOf(r, pr[1]) - c.a[1] * S IN IF c.a[2] = 1 THEN Abs(d) <= 2 * TOL ELSE d >= -2 * TOL
DistOK(r, rep, c) == \A pr \in PairsOf(c, 3) : (Usable(r, rep, pr[1]) /\ Usable(r, rep, pr[2])) =>
                              Abs(GuideOf(r, pr[2]) - GuideOf(r, pr[1]) - c.a[1] * S) <= 2 * TOL
\* kind 6: a = <<k, ids..>> : pairwise offsets as in the initial placement
FixedRelOK(r, c) == \A q1 \in 2..(c.a[1] + 1), q2 \in 2..(c.a[1] + 1), dim \in {0, 1} :
                        Abs((P(r, c.a[q1], dim) - P(r, c.a[q2], dim)) - (r.init[c.a[q1] + 1][dim + 1] - r.init[c.a[q2] + 1][dim + 1]) * S) <= 2 * TOL
Holds(r, rep, c) == CASE c.kind = 1 -> SepOK(r, c) [] c.kind = 2 -> AlignOK(r, c) [] c.kind = 3 -> BoundOK(r, c)
                      [] c.kind = 4 -> MultiSepOK(r, rep, c) [] c.kind = 5 -> DistOK(r, rep, c) [] c.kind = 6 -> FixedRelOK(r, c)
KindName(kd) == CASE kd = 1 -> "separation" [] kd = 2 -> "alignment" [] kd = 3 -> "boundary" [] kd = 4 -> "multi-separation" [] kd = 5 -> "distribution" [] kd = 6 -> "fixed-relative"
\* makeFeasible() alone (flag 32) records nothing in the unsatisfiable lists (run() does), so it can only be judged where nothing needs
\* reporting: when the user's constraints are separations without equalities and have no positive cycle in either dimension, they are
\* jointly satisfiable together with any non-overlap requirement (spread the nodes further), and then all of them must hold afterwards
RECURSIVE Relax(_, _, _, _)
Relax(r, dim, dist, k) == IF k = 0 THEN dist
                          ELSE Relax(r, dim, [v \in 0..(r.n - 1) |->
                                   LET inc == {dist[r.cons[i].a[1]] + r.cons[i].a[3] : i \in {i \in DOMAIN r.cons : r.cons[i].dim = dim /\ r.cons[i].a[2] = v}} \cup {dist[v]}
                                   IN  CHOOSE x \in inc : \A y \in inc : x >= y], k - 1)
NoPositiveCycle(r, dim) == LET d0 == [v \in 0..(r.n - 1) |-> 0]
                               dn == Relax(r, dim, d0, r.n)
                           IN  Relax(r, dim, dn, 1) = dn
OnlyPlainSeparations(r) == \A i \in DOMAIN r.cons : r.cons[i].kind = 1 /\ r.cons[i].a[4] = 0
\* Without overlap avoidance the same holds for equalities and alignments: separations, separation equalities and alignments with offsets
\* are difference constraints (x_r - x_l >= g; an equality or a pair of aligned nodes gives one in each direction), satisfiable exactly when
\* their constraint graph has no positive cycle
OnlySepAlign(r) == \A i \in DOMAIN r.cons : r.cons[i].kind \in {1, 2}
DiffsOf(r, dim) == UNION { LET c == r.cons[i] IN
                              IF c.dim # dim THEN {}
                              ELSE IF c.kind = 1 THEN {<<c.a[1], c.a[2], c.a[3]>>} \cup (IF c.a[4] = 1 THEN {<<c.a[2], c.a[1], -c.a[3]>>} ELSE {})
                              ELSE {<<m1[1], m2[1], m2[2] - m1[2]>> : m1 \in AlMembers(c), m2 \in AlMembers(c)} : i \in DOMAIN r.cons }
RECURSIVE RelaxD(_, _, _, _)
RelaxD(r, D, dist, k) == IF k = 0 THEN dist
                         ELSE RelaxD(r, D, [v \in 0..(r.n - 1) |->
                                  LET inc == {dist[e[1]] + e[3] : e \in {e \in D : e[2] = v}} \cup {dist[v]}
                                  IN  CHOOSE x \in inc : \A y \in inc : x >= y], k - 1)
NoPositiveCycleD(r, dim) == LET D == DiffsOf(r, dim)
                                dn == RelaxD(r, D, [v \in 0..(r.n - 1) |-> 0], r.n)
                            IN  RelaxD(r, D, dn, 1) = dn
MakeFeasibleOnly(r) == (r.flags \div 32) % 2 = 1
\* (every tag is a tuple -- <<name>> or <<name, class>>: TLC cannot hold strings and tuples in one set)
C07Tags(r) ==
    IF ~r.thrown /\ MakeFeasibleOnly(r) THEN
        (IF OnlyPlainSeparations(r) /\ NoPositiveCycle(r, 0) /\ NoPositiveCycle(r, 1)
            /\ (\A i \in 1..r.n : r.pos[i][1] \notin {SENT, FAR} /\ r.pos[i][2] \notin {SENT, FAR})
            /\ \E i \in DOMAIN r.cons : ~SepOK(r, r.cons[i])
         THEN {<<"makeFeasible-leaves-a-satisfiable-constraint-violated", "separation">>}
         ELSE IF ~OnlyPlainSeparations(r) /\ OnlySepAlign(r) /\ r.flags % 2 = 0 /\ NoPositiveCycleD(r, 0) /\ NoPositiveCycleD(r, 1)
            /\ (\A i \in 1..r.n : r.pos[i][1] \notin {SENT, FAR} /\ r.pos[i][2] \notin {SENT, FAR})
            /\ \E i \in DOMAIN r.cons : ~Holds(r, {}, r.cons[i])
         \* (the unchanged library does leave such systems violated now and then -- the incremental solver flags a feasible equality that closes
         \*  a cycle and makeFeasible() drops it without a record: known finding F52, so this class has a key of its own)
         THEN {<<"makeFeasible-leaves-a-satisfiable-constraint-violated", "system-with-equalities-or-alignments">>}
         ELSE {}) ELSE
    IF r.thrown THEN {<<"exception">>} ELSE
    LET rep == ToSet(r.reported) IN
    (IF \E i \in 1..r.n : r.pos[i][1] = SENT \/ r.pos[i][2] = SENT THEN {<<"non-finite-coordinate">>} ELSE
     IF \E i \in 1..r.n : r.pos[i][1] = FAR \/ r.pos[i][2] = FAR THEN {} ELSE
       \* a violated, unreported constraint in a dimension where some constraint was reported although it holds in the result: the
       \* unsatisfiable-constraint lists are filled by the descent steps only, not by the projection that produces the final positions
       \* (ConstrainedFDLayout::moveTo), which may have dropped a different member of the contradictory group
       {IF \E j \in rep : j \in DOMAIN r.cons /\ r.cons[j].kind \in {1, 2, 3} /\ r.cons[i].kind \in {1, 2, 3} /\ r.cons[j].dim = r.cons[i].dim /\ Holds(r, rep, r.cons[j])
        THEN <<"unreported-constraint-violated", "a-reported-constraint-of-that-dimension-holds-instead">>
        \* the same mechanism against an unreported opponent: overlap avoidance is on, the two nodes of the violated separation overlap on the
        \* other axis and stand in the opposite order at least their non-overlap distance apart (the pair's non-overlap constraint holds instead)
        ELSE IF r.cons[i].kind = 1 /\ r.flags % 2 = 1 /\
                LET l == r.cons[i].a[1] + 1  rr == r.cons[i].a[2] + 1  d == r.cons[i].dim + 1  o == 3 - d IN
                    /\ 2 * Abs(r.pos[l][o] - r.pos[rr][o]) < (r.size[l][o] + r.size[rr][o]) * S
                    /\ 2 * (r.pos[l][d] - r.pos[rr][d]) >= (r.size[l][d] + r.size[rr][d]) * S - 2 * TOL
             THEN <<"unreported-constraint-violated", "the-non-overlap-constraint-of-the-pair-holds-instead">>
        \* the same mechanism when what was reported is one of the library's own non-overlap constraints (index 0 in the record)
        ELSE IF 0 \in rep /\ r.flags % 2 = 1 THEN <<"unreported-constraint-violated", "a-non-overlap-constraint-was-reported-instead">>
        ELSE <<"unreported-constraint-violated", KindName(r.cons[i].kind)>> : i \in {i \in DOMAIN r.cons : i \notin rep /\ ~Holds(r, rep, r.cons[i])}})
    \cup (IF \E i \in 1..r.n : Abs(r.dim[i][1] - r.size[i][1] * S) > 1 \/ Abs(r.dim[i][2] - r.size[i][2] * S) > 1 THEN {<<"size-changed">>} ELSE {})
\* ---- overlap avoidance and cluster containment (C08) -----------------------------
OvTol == (S \div 1000) + 2                       \* 1e-3
Lo(r, i, d) == r.pos[i][d] - (r.size[i][d] * S) \div 2
Hi(r, i, d) == r.pos[i][d] + (r.size[i][d] * S) \div 2
Overlap(r, i, j) == \A d \in {1, 2} : (IF Hi(r, i, d) < Hi(r, j, d) THEN Hi(r, i, d) ELSE Hi(r, j, d)) - (IF Lo(r, i, d) > Lo(r, j, d) THEN Lo(r, i, d) ELSE Lo(r, j, d)) > OvTol
Exempt(r, i, j) == \E g \in DOMAIN r.groups : i \in ToSet(r.groups[g]) /\ j \in ToSet(r.groups[g])
BoxLo(r, ns, d) == LET vs == {Lo(r, i, d) : i \in ns} IN CHOOSE x \in vs : \A y \in vs : x <= y
BoxHi(r, ns, d) == LET vs == {Hi(r, i, d) : i \in ns} IN CHOOSE x \in vs : \A y \in vs : x >= y
BoxesOverlap(r, A, B) == \A d \in {1, 2} : (IF BoxHi(r, A, d) < BoxHi(r, B, d) THEN BoxHi(r, A, d) ELSE BoxHi(r, B, d))
                                           - (IF BoxLo(r, A, d) > BoxLo(r, B, d) THEN BoxLo(r, A, d) ELSE BoxLo(r, B, d)) > OvTol
C08Tags(r) ==
    IF r.thrown \/ r.reported # <<>> \/ r.flags % 2 = 0 \/ (r.flags \div 2) % 2 = 0 \/ (\E i \in 1..r.n : r.pos[i][1] \in {SENT, FAR} \/ r.pos[i][2] \in {SENT, FAR}) THEN {} ELSE
    (IF \E i \in 1..r.n, j \in 1..r.n : i < j /\ ~Exempt(r, i, j) /\ Overlap(r, i, j) THEN {<<"nodes-overlap">>} ELSE {})
    \* cluster hierarchy: the members of a cluster are its own nodes and those of its descendants (parent = 0: child of the root)
    \cup (LET RECURSIVE Anc(_, _)
               Anc(a, b) == b # 0 /\ (r.clusters[b].parent = a \/ Anc(a, r.clusters[b].parent))          \* a is a proper ancestor of b
               Mem(a) == ToSet(r.clusters[a].nodes) \cup UNION {ToSet(r.clusters[b].nodes) : b \in {b \in DOMAIN r.clusters : Anc(a, b)}}
           IN  (IF \E a \in DOMAIN r.clusters, b \in DOMAIN r.clusters : a < b /\ r.clusters[a].parent = r.clusters[b].parent /\ Mem(a) # {} /\ Mem(b) # {}
                        /\ BoxesOverlap(r, Mem(a), Mem(b)) THEN {<<"sibling-clusters-overlap">>} ELSE {})
               \cup (IF \E a \in DOMAIN r.clusters, i \in 1..r.n : Mem(a) # {} /\ i \notin Mem(a) /\ BoxesOverlap(r, Mem(a), {i})
                     THEN {<<"foreign-node-inside-cluster">>} ELSE {}))
Tags(r) == IF Data.which = "C07" THEN C07Tags(r) ELSE C08Tags(r)
NonTrivial(r) == ~r.thrown /\ (IF Data.which = "C07" THEN r.cons # <<>> ELSE \E i \in 1..r.n, j \in 1..r.n : i < j /\ Abs(r.init[i][1] - r.init[j][1]) * 2 < r.size[i][1] + r.size[j][1] /\ Abs(r.init[i][2] - r.init[j][2]) * 2 < r.size[i][2] + r.size[j][2])
VARIABLES k, phase, bad
vars == <<k, phase, bad>>
Init == k \in 0..(NChunks - 1) /\ phase = "todo" /\ bad = {}
Idx(kk) == {i \in (kk * CH + 1)..((kk + 1) * CH) : i <= Len(Recs)}
Eval == /\ phase = "todo" /\ phase' = "done" /\ UNCHANGED k
        /\ bad' = UNION { {<<i, t>> : t \in Tags(Recs[i])} : i \in Idx(k) }
        /\ PrintT(<<"STAT", "layout", k, Cardinality({i \in Idx(k) : NonTrivial(Recs[i])}), Cardinality({i \in Idx(k) : Recs[i].reported # <<>>})>>)
Spec == Init /\ [][Eval]_vars
AllHold == bad = {}
=============================================================================
