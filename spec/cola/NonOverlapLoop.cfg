SPECIFICATION Spec
CONSTANTS
 NPAIRS = 3
 FIX = TRUE
PROPERTY Termination
INVARIANT AllSeparablePairsHandled
