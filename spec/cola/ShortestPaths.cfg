SPECIFICATION Spec
CONSTANTS
 GN = 1
 GK = 0
INVARIANT AllExact
CHECK_DEADLOCK FALSE
