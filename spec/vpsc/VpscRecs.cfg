SPECIFICATION Spec
INVARIANT AllRunsConform
CHECK_DEADLOCK FALSE
