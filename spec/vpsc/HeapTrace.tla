------------------------------- MODULE HeapTrace -------------------------------
(* B2 for Heap.tla: the recorded executions of the real PairingHeap.  Every *)
(* line is one public call with its observable results; the trace is        *)
(* accepted when every call is an enabled action of Heap and the recorded   *)
(* sizes, emptiness and minima equal the model's after the call.  Elements  *)
(* carry their handle, so the element a deleteMin hands back is known: it   *)
(* must be a live element of that heap with the minimal value (any of them  *)
(* on ties).                                                                *)
EXTENDS Integers, Sequences, FiniteSets, TLC, Json, IOUtils
Lines == ndJsonDeserialize(IOEnv.HEAPTRACE)
ASSUME TLCSet(1, 0)
VARIABLES l, hv    \* hv: handle -> <<heap (0|1), value, alive>>
vars == <<l, hv>>
Live(h) == {e \in DOMAIN hv : hv[e][3] /\ hv[e][1] = h}
Vals(h) == {hv[e][2] : e \in Live(h)}
MinOf(h) == CHOOSE v \in Vals(h) : \A w \in Vals(h) : v <= w
ObsOK(e, f) == LET L(h) == {x \in DOMAIN f : f[x][3] /\ f[x][1] = h}
                   V(h) == {f[x][2] : x \in L(h)}
                   M(h) == CHOOSE v \in V(h) : \A w \in V(h) : v <= w
               IN  /\ e.sizeA = Cardinality(L(0)) /\ e.sizeB = Cardinality(L(1))
                   /\ e.emptyA = (L(0) = {}) /\ e.emptyB = (L(1) = {})
                   /\ (L(0) # {} => e.minA = M(0)) /\ (L(1) # {} => e.minB = M(1))
Init == l = 1 /\ hv = <<>>
Step == /\ l <= Len(Lines) /\ l' = l + 1
        /\ LET e == Lines[l] IN
           IF e.op = "reset" THEN hv' = <<>>
           ELSE IF e.op = "skip" THEN UNCHANGED hv      \* a call of the generated history that the tie-break of an earlier deleteMin made inapplicable
           ELSE IF e.op = "insert" THEN e.e = Len(hv) + 1 /\ hv' = Append(hv, <<e.h, e.v, TRUE>>) /\ ObsOK(e, hv')
           ELSE IF e.op = "deleteMin" THEN
                /\ Live(e.h) # {} /\ e.e \in Live(e.h) /\ hv[e.e][2] = MinOf(e.h) /\ e.got = MinOf(e.h)
                /\ hv' = [hv EXCEPT ![e.e] = <<@[1], @[2], FALSE>>] /\ ObsOK(e, hv')
           ELSE IF e.op = "decreaseKey" THEN
                /\ e.e \in DOMAIN hv /\ hv[e.e][3] /\ e.v <= hv[e.e][2]
                /\ hv' = [hv EXCEPT ![e.e] = <<@[1], e.v, TRUE>>] /\ ObsOK(e, hv')
           ELSE IF e.op = "merge" THEN hv' = [i \in DOMAIN hv |-> <<0, hv[i][2], hv[i][3]>>] /\ ObsOK(e, hv')
           ELSE hv' = [i \in DOMAIN hv |-> IF hv[i][1] = e.h THEN <<hv[i][1], hv[i][2], FALSE>> ELSE hv[i]] /\ ObsOK(e, hv')
Spec == Init /\ [][Step]_vars
Track == TLCSet(1, IF TLCGet(1) > l THEN TLCGet(1) ELSE l)
Accepted == TLCGet(1) = Len(Lines) + 1
=============================================================================
