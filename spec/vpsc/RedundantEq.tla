----------------------------- MODULE RedundantEq -----------------------------
(* Beyond the listed properties: what constraintsRemovingRedundantEqualities *)
(* (libvpsc/constraint.cpp and libavoid's copy) must return.  The statement *)
(* is declarative: the result is a subsequence of the input that keeps      *)
(* every inequality, and it has exactly the same solutions as the input --  *)
(* so a dropped equality is implied by what was kept, and nothing that      *)
(* still constrains the variables was dropped.  Solutions are compared on   *)
(* every integer placement of a window that is wide enough for difference   *)
(* constraints with the generated gaps (total unimodularity: if the two     *)
(* solution sets differ, they differ on an integer point whose spread is    *)
(* at most the sum of the gap magnitudes).                                  *)
(* The module also enumerates the instances replayed (B1): every list of    *)
(* up to LMAX constraints over NV variables, gaps GAPS, both kinds.         *)
EXTENDS Integers, Sequences, FiniteSets, TLC, Json, IOUtils, SequencesExt
Data == JsonDeserialize(IOEnv.REDEQRECS)
Recs == Data.recs
CH == Data.chunk
NChunks == (Len(Recs) + CH - 1) \div CH
Abs(x) == IF x < 0 THEN -x ELSE x
RECURSIVE SumAbs(_, _)
SumAbs(cs, i) == IF i > Len(cs) THEN 0 ELSE Abs(cs[i][3]) + SumAbs(cs, i + 1)
Holds(x, c) == IF c[4] THEN x[c[1]] + c[3] = x[c[2]] ELSE x[c[1]] + c[3] <= x[c[2]]
Sat(x, cs, idx) == \A i \in idx : Holds(x, cs[i])
IsSubseq(kept, m) == /\ \A i \in DOMAIN kept : kept[i] \in 1..m
                     /\ \A i \in 1..(Len(kept) - 1) : kept[i] < kept[i + 1]
Tags(r) ==
    IF r.thrown THEN {"exception"} ELSE
    LET m == Len(r.cons)
        K == {r.kept[i] : i \in DOMAIN r.kept}
        W == SumAbs(r.cons, 1) + 1
        \* difference constraints are translation invariant: the first variable is pinned to the middle of the window
        X == {[i \in 1..r.n |-> IF i = 1 THEN W ELSE y[i - 1]] : y \in [1..(r.n - 1) -> 0..(2 * W)]}
    IN  IF ~IsSubseq(r.kept, m) THEN {"result-is-not-a-subsequence-of-the-input"} ELSE
        (IF \E i \in 1..m : ~r.cons[i][4] /\ i \notin K THEN {"inequality-dropped"} ELSE {})
        \cup (IF \E x \in X : Sat(x, r.cons, K) /\ ~Sat(x, r.cons, 1..m) THEN {"dropped-equality-was-not-redundant"} ELSE {})
        \* minimality: an equality that was kept is not implied by the equalities kept before it (else it is a redundant one left in)
        \cup (IF \E i \in K : r.cons[i][4] /\ LET before == {j \in K : j < i /\ r.cons[j][4]}
                                               IN  (\E x \in X : Sat(x, r.cons, before)) /\ \A x \in X : Sat(x, r.cons, before) => Holds(x, r.cons[i])
              THEN {"redundant-equality-kept"} ELSE {})
NonTrivial(r) == ~r.thrown /\ Len(r.kept) < Len(r.cons)
VARIABLES k, phase, bad
vars == <<k, phase, bad>>
Init == k \in 0..(NChunks - 1) /\ phase = "todo" /\ bad = {}
Idx(kk) == {i \in (kk * CH + 1)..((kk + 1) * CH) : i <= Len(Recs)}
Eval == /\ phase = "todo" /\ phase' = "done" /\ UNCHANGED k
        /\ bad' = UNION { {<<i, t>> : t \in Tags(Recs[i])} : i \in Idx(k) }
        /\ PrintT(<<"STAT", "redeq", k, Cardinality({i \in Idx(k) : NonTrivial(Recs[i])})>>)
Spec == Init /\ [][Eval]_vars
SameSolutions == bad = {}
\* ---- B1 ----
CONSTANTS NV, LMAX, GAPS
GapsWide == {-1, 0, 1}     \* (a cfg file cannot spell a negative number: the thorough tier substitutes GAPS <- GapsWide)
AllCons == {<<l, r, g, e>> : l \in 1..NV, r \in 1..NV, g \in GAPS, e \in BOOLEAN}
Lists == UNION {[1..m -> {c \in AllCons : c[1] # c[2]}] : m \in 1..LMAX}
\* only lists with at least two equalities can have anything removed
GenInit == /\ JsonSerialize(IOEnv.REDEQGEN, SetToSeq({L \in Lists : Cardinality({i \in DOMAIN L : L[i][4]}) >= 2}))
           /\ k = 0 /\ phase = "gen" /\ bad = {}
GenSpec == GenInit /\ [][UNCHANGED vars]_vars
=============================================================================
