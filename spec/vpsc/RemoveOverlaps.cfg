SPECIFICATION Spec
INVARIANT AllClean
CHECK_DEADLOCK FALSE
