--------------------------------- MODULE Heap ---------------------------------
(* Beyond the listed properties: libvpsc's PairingHeap (the priority queue   *)
(* of both VPSC's constraint heaps and libcola's Dijkstra) as the API user  *)
(* sees it -- two heaps A and B holding bags of integers, with handles for  *)
(* decreaseKey.  One action per public call.  The observable results of a   *)
(* call (size, isEmpty, findMin / extractMin value) are functions of the    *)
(* bags.  Histories are behaviours of this module (TLC simulation, B1);     *)
(* HeapTrace validates the recorded results of the real heap against it,    *)
(* call by call (B2).                                                       *)
EXTENDS Integers, Sequences, FiniteSets, TLC, Json
CONSTANTS VALS, HMAX, HLEN
VARIABLES elems,   \* handle -> [h |-> "A" | "B", v |-> value]  (live elements; handles are 1, 2, ... in order of insertion)
          next,    \* next handle
          hist
vars == <<elems, next, hist>>
In(h) == {e \in DOMAIN elems : elems[e].h = h}
Size(h) == Cardinality(In(h))
Min(h) == CHOOSE v \in {elems[e].v : e \in In(h)} : \A w \in {elems[e].v : e \in In(h)} : v <= w
Init == elems = <<>> /\ next = 1 /\ hist = <<>>
Op(o) == hist' = Append(hist, o)
Restrict(f, S) == [x \in S |-> f[x]]
Insert(h, v) == /\ next <= HMAX /\ elems' = [e \in DOMAIN elems \cup {next} |-> IF e = next THEN [h |-> h, v |-> v] ELSE elems[e]]
                /\ next' = next + 1 /\ Op(<<1, IF h = "A" THEN 0 ELSE 1, v>>)
\* deleteMin removes ONE element of minimal value: which handle goes is not observable, so any of them
DeleteMin(h) == /\ In(h) # {} /\ \E e \in In(h) : elems[e].v = Min(h) /\ elems' = Restrict(elems, DOMAIN elems \ {e})
                /\ UNCHANGED next /\ Op(<<2, IF h = "A" THEN 0 ELSE 1>>)
DecreaseKey(e, v) == /\ e \in DOMAIN elems /\ v <= elems[e].v /\ elems' = [elems EXCEPT ![e].v = v]
                     /\ UNCHANGED next /\ Op(<<3, e, v>>)
\* merge(B into A): B is left empty
Merge == /\ elems' = [e \in DOMAIN elems |-> [elems[e] EXCEPT !.h = "A"]] /\ UNCHANGED next /\ Op(<<4>>)
MakeEmpty(h) == /\ elems' = Restrict(elems, DOMAIN elems \ In(h)) /\ UNCHANGED next /\ Op(<<5, IF h = "A" THEN 0 ELSE 1>>)
Next == /\ Len(hist) < HLEN
        /\ \/ \E h \in {"A", "B"}, v \in VALS : Insert(h, v)
           \/ \E h \in {"A", "B"} : DeleteMin(h)
           \/ \E e \in DOMAIN elems, v \in VALS : DecreaseKey(e, v)
           \/ Merge
           \/ \E h \in {"A", "B"} : MakeEmpty(h)
Spec == Init /\ [][Next]_vars
\* design-level sanity: the bags partition the live handles
TypeOK == \A e \in DOMAIN elems : elems[e].h \in {"A", "B"} /\ elems[e].v \in VALS
\* deleteMin with ties: whichever minimal handle goes, the remaining multiset of values is the same (what the trace can observe)
EmitHist == Len(hist) = HLEN => PrintT(<<"HIST", ToJson(hist)>>)
=============================================================================
