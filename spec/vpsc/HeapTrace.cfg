SPECIFICATION Spec
CONSTRAINT Track
POSTCONDITION Accepted
CHECK_DEADLOCK FALSE
