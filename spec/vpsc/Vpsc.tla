-------------------------------- MODULE Vpsc --------------------------------
(* The incremental VPSC solver (vpsc::IncSolver, and its copy in libavoid)  *)
(* as a state machine, one action per critical section of                   *)
(* IncSolver::solve / satisfy / splitBlocks / mostViolated, for variables   *)
(* of scale 1.  Everything the code leaves to container order (which of     *)
(* several tied constraints is taken, order of blocks) is nondeterministic. *)
(*                                                                           *)
(* Numbers: a block's position is (sum w*(des-off))/(sum w); with integer   *)
(* data every position times L (a common multiple of all possible block     *)
(* weight sums) is an integer, so the whole specification is exact integer  *)
(* arithmetic: XxxL means "Xxx times L".                                     *)
(*                                                                           *)
(* The declarative side (Feasible, PositiveCycle, OptL = best feasible      *)
(* active-set candidate) is written from the mathematics of the QP and owes *)
(* nothing to split/merge; the invariants relate the two.                   *)
EXTENDS Integers, Sequences, FiniteSets, FiniteSetsExt, SequencesExt, TLC

VARIABLES des, w, C, lat,   \* lat: the lattice constant L (a function of w, cached); problem: desired positions, weights (sequences over Vars), constraints (sequence of records)
          blk, off,         \* block id (= least member) and offset of each variable
          act, inact, unsat,\* partition of DOMAIN C (plus constraints parked nowhere: none)
          pc,               \* "idle" | "split" | "merge" | "passdone" | "returned"
          todo,             \* blocks still to be examined by splitBlocks()
          mode,             \* "solve" | "satisfy": which public call is running
          first, prevcost,  \* solve(): first pass flag, cost (times L^2) after the previous pass
          rounds,           \* number of completed public calls (history depth)
          passSplit         \* ghost: did the current/last pass split a block in splitBlocks()
pvars == <<des, w, C, lat>>
svars == <<blk, off, act, inact, unsat>>
cvars == <<pc, todo, mode, first, prevcost, rounds, passSplit>>
vars  == <<des, w, C, lat, blk, off, act, inact, unsat, pc, todo, mode, first, prevcost, rounds, passSplit>>

Vars == DOMAIN des
NV   == Len(des)

RECURSIVE SumF(_, _)
SumF(S, f) == IF S = {} THEN 0 ELSE LET x == CHOOSE x \in S : TRUE IN f[x] + SumF(S \ {x}, f)
RECURSIVE GcdI(_, _)
GcdI(a, b) == IF b = 0 THEN a ELSE GcdI(b, a % b)
LcmI(a, b) == (a \div GcdI(a, b)) * b
RECURSIVE LcmUpTo(_)
LcmUpTo(k) == IF k <= 1 THEN 1 ELSE LcmI(LcmUpTo(k - 1), k)
WTotal(ww) == SumF(DOMAIN ww, ww)
LOf(ww) == LcmUpTo(WTotal(ww))     \* every block weight sum is <= the total weight, hence divides L
L == lat
MinOf(S) == CHOOSE x \in S : \A y \in S : x <= y
AbsV(x) == IF x < 0 THEN -x ELSE x

\* tolerances of the code, on the lattice:  lm < -1e-4  <=>  lmL * 10000 < -L ;  slack < -1e-10 <=> slackL < 0
LmNegative(lmL)   == lmL * 10000 < -L
CostDiffers(a, b) == AbsV(a - b) > (L * L) \div 10000       \* |a-b|/L^2 > 1e-4, exact for integer a, b

----------------------------------------------------------------------------
\* Generic "placement" helpers, parameterised by (bk, of) so that they can be
\* evaluated on hypothetical states too.
Members(bk, b) == {v \in Vars : bk[v] = b}
BlocksOf(bk)   == {bk[v] : v \in Vars}
BPosL(bk, of, b) == LET vs == Members(bk, b)
                    IN  SumF(vs, [v \in Vars |-> w[v] * (des[v] - of[v])]) * (L \div SumF(vs, w))
PosL(bk, of, v)  == BPosL(bk, of, bk[v]) + of[v] * L
SlackOfL(bk, of, c) == PosL(bk, of, C[c].r) - PosL(bk, of, C[c].l) - C[c].g * L
DfdvL(bk, of, v) == 2 * w[v] * (PosL(bk, of, v) - des[v] * L)
CostL2(bk, of)   == LET bp == TLCEval([b \in BlocksOf(bk) |-> BPosL(bk, of, b)])
                    IN  SumF(Vars, [v \in Vars |-> LET dv == bp[bk[v]] + of[v] * L - des[v] * L IN w[v] * dv * dv])
Renumber(bk)     == [v \in Vars |-> MinOf({u \in Vars : bk[u] = bk[v]})]

\* the active constraint forest
RECURSIVE ReachU(_, _)
ReachU(S, A) == LET T == S \cup {C[c].r : c \in {c \in A : C[c].l \in S}} \cup {C[c].l : c \in {c \in A : C[c].r \in S}}
                IN  IF T = S THEN S ELSE ReachU(T, A)
RECURSIVE ReachD(_, _)
ReachD(S, A) == LET T == S \cup {C[c].r : c \in {c \in A : C[c].l \in S}} IN IF T = S THEN S ELSE ReachD(T, A)
RSide(c, A) == ReachU({C[c].r}, A \ {c})
LSide(c, A) == ReachU({C[c].l}, A \ {c})
BlockAct(bk, A, b) == {c \in A : bk[C[c].l] = b}
\* Lagrange multiplier (times L) of active constraint c: derivative of the cost of the right subtree
LmL(bk, of, A, c) == SumF(RSide(c, A), [v \in Vars |-> DfdvL(bk, of, v)])
\* forward constraints on the tree path a ~> z
OnPathFwd(A, a, z, c) == a \in LSide(c, A) /\ z \in RSide(c, A)

\* Tables of the same quantities (function constructors are evaluated once by TLC; the
\* operators above re-evaluate on every use).  PosTab = positions of all variables,
\* SlackTab = slack of all constraints, LmTab = multipliers of all active constraints.
PosTab(bk, of) == LET bp == TLCEval([b \in BlocksOf(bk) |-> BPosL(bk, of, b)])
                  IN  TLCEval([v \in Vars |-> bp[bk[v]] + of[v] * L])
SlackTab(bk, of) == LET ps == PosTab(bk, of)
                    IN  TLCEval([c \in DOMAIN C |-> ps[C[c].r] - ps[C[c].l] - C[c].g * L])
LmTab(bk, of, A) == LET ps == PosTab(bk, of)
                        df == TLCEval([v \in Vars |-> 2 * w[v] * (ps[v] - des[v] * L)])
                    IN  TLCEval([c \in A |-> SumF(RSide(c, A), df)])

\* current-state shorthands
Blocks   == BlocksOf(blk)
Pos(v)   == PosL(blk, off, v)
Slack(c) == SlackOfL(blk, off, c)
Lm(c)    == LmL(blk, off, act, c)
SplitCandsT(lm, b) == LET cs == {c \in BlockAct(blk, act, b) : ~C[c].eq}
                      IN  {c \in cs : \A d \in cs : lm[c] <= lm[d]}
SplitCands(b) == SplitCandsT(LmTab(blk, off, act), b)

----------------------------------------------------------------------------
\* Actions of the public API
StartPass == /\ pc' = "split" /\ todo' = Blocks /\ passSplit' = FALSE
CallSolve ==
    /\ pc \in {"idle", "returned"} /\ mode' = "solve" /\ first' = TRUE /\ prevcost' = 0
    /\ StartPass /\ UNCHANGED <<pvars, svars, rounds>>
CallSatisfy ==
    /\ pc \in {"idle", "returned"} /\ mode' = "satisfy" /\ first' = TRUE /\ prevcost' = 0
    /\ StartPass /\ UNCHANGED <<pvars, svars, rounds>>
SetDesired(d) ==
    /\ pc \in {"idle", "returned"} /\ des' = d /\ pc' = "idle"     \* results of the last call are stale now
    /\ UNCHANGED <<w, C, lat, svars, todo, mode, first, prevcost, rounds, passSplit>>
AddConstraint(cn) ==
    /\ pc \in {"idle", "returned"} /\ C' = Append(C, cn) /\ inact' = inact \cup {Len(C) + 1} /\ pc' = "idle"
    /\ UNCHANGED <<des, w, lat, blk, off, act, unsat, todo, mode, first, prevcost, rounds, passSplit>>

\* splitBlocks(): every block present at entry is examined once; it is split at
\* a (non-equality) constraint of minimum multiplier if that multiplier is
\* below the tolerance.  Blocks created by a split are not re-examined.
Split(c) ==
    /\ pc = "split"
    /\ LET b  == blk[C[c].l]
           lm == LmTab(blk, off, act) IN
       /\ c \in act /\ b \in todo /\ c \in SplitCandsT(lm, b) /\ LmNegative(lm[c])
       /\ todo' = todo \ {b}
       /\ LET rs == RSide(c, act) IN blk' = Renumber([v \in Vars |-> IF v \in rs THEN NV + 1 ELSE blk[v]])
    /\ act' = act \ {c} /\ inact' = inact \cup {c} /\ passSplit' = TRUE
    /\ UNCHANGED <<pvars, off, unsat, pc, mode, first, prevcost, rounds>>
SplitsDone ==
    /\ pc = "split"
    /\ LET lm == LmTab(blk, off, act) IN \A b \in todo : \A c \in SplitCandsT(lm, b) : ~LmNegative(lm[c])
    /\ pc' = "merge" /\ todo' = {}
    /\ UNCHANGED <<pvars, svars, mode, first, prevcost, rounds, passSplit>>

\* mostViolated(): the first equality in the inactive list, else a constraint of least slack
CandidatesT(sl) == IF \E c \in inact : C[c].eq THEN {c \in inact : C[c].eq}
                   ELSE {c \in inact : \A d \in inact : sl[c] <= sl[d]}
TakenT(sl, c) == c \in CandidatesT(sl) /\ (C[c].eq \/ sl[c] < 0)
Candidates == CandidatesT(SlackTab(blk, off))
Taken(c) == TakenT(SlackTab(blk, off), c)
MergeShift(bk, of, c) ==      \* merge the right block of c into the left one so that c becomes tight
    LET d  == of[C[c].l] + C[c].g - of[C[c].r]
        rb == bk[C[c].r]
    IN  <<Renumber([v \in Vars |-> IF bk[v] = rb THEN bk[C[c].l] ELSE bk[v]]),
          [v \in Vars |-> IF bk[v] = rb THEN of[v] + d ELSE of[v]]>>
Merge(c) ==
    /\ pc = "merge" /\ Taken(c) /\ blk[C[c].l] # blk[C[c].r]
    /\ LET m == MergeShift(blk, off, c) IN blk' = m[1] /\ off' = m[2]
    /\ act' = act \cup {c} /\ inact' = inact \ {c}
    /\ UNCHANGED <<pvars, unsat, cvars>>
FwdSplitPoints(c) == {k \in BlockAct(blk, act, blk[C[c].l]) : ~C[k].eq /\ OnPathFwd(act, C[c].l, C[c].r, k)}
MarkUnsat(c) ==
    /\ pc = "merge" /\ Taken(c) /\ blk[C[c].l] = blk[C[c].r]
    /\ \/ C[c].l \in ReachD({C[c].r}, act)         \* an active directed path right ~> left: a cycle
       \/ FwdSplitPoints(c) = {}                   \* nowhere to split without creating a violation
    /\ unsat' = unsat \cup {c} /\ inact' = inact \ {c}
    /\ UNCHANGED <<pvars, blk, off, act, cvars>>
\* split the block between the ends of c at forward constraint s of least multiplier, then
\* either c is already satisfied (both go back to the inactive list) or the halves are merged across c
SplitBetween(c, s) ==
    /\ pc = "merge" /\ Taken(c) /\ blk[C[c].l] = blk[C[c].r]
    /\ ~(C[c].l \in ReachD({C[c].r}, act))
    /\ LET fw == FwdSplitPoints(c)
           lm == LmTab(blk, off, act)
       IN  s \in fw /\ \A j \in fw : lm[s] <= lm[j]
    /\ LET rs  == RSide(s, act)
           bk2 == Renumber([v \in Vars |-> IF v \in rs THEN NV + 1 ELSE blk[v]])
           a2  == act \ {s}
       IN  IF SlackOfL(bk2, off, c) >= 0
           THEN /\ blk' = bk2 /\ off' = off /\ act' = a2 /\ inact' = inact \cup {s}
           ELSE LET m == MergeShift(bk2, off, c)
                IN  /\ blk' = m[1] /\ off' = m[2] /\ act' = a2 \cup {c} /\ inact' = (inact \ {c}) \cup {s}
    /\ UNCHANGED <<pvars, unsat, cvars>>
PassDone ==           \* the while loop of satisfy() ends; final scan; copyResult
    /\ pc = "merge" /\ LET sl == SlackTab(blk, off) IN \A c \in CandidatesT(sl) : ~TakenT(sl, c)
    /\ pc' = "passdone"
    /\ UNCHANGED <<pvars, svars, todo, mode, first, prevcost, rounds, passSplit>>
NextPass ==           \* solve(): while (fabs(lastcost - cost) > 0.0001) satisfy();
    /\ pc = "passdone" /\ mode = "solve"
    /\ first \/ CostDiffers(prevcost, CostL2(blk, off))
    /\ first' = FALSE /\ prevcost' = CostL2(blk, off)
    /\ StartPass /\ UNCHANGED <<pvars, svars, mode, rounds>>
Return ==
    /\ pc = "passdone"
    /\ mode = "satisfy" \/ (~first /\ ~CostDiffers(prevcost, CostL2(blk, off)))
    /\ pc' = "returned" /\ rounds' = rounds + 1
    /\ UNCHANGED <<pvars, svars, todo, mode, first, prevcost, passSplit>>

MergeStep(c) == Taken(c) /\ (Merge(c) \/ MarkUnsat(c) \/ (\E s \in act : SplitBetween(c, s)))
Internal == \/ (pc = "split" /\ ((\E c \in act : Split(c)) \/ SplitsDone))
            \/ (pc = "merge" /\ ((\E c \in inact : MergeStep(c)) \/ PassDone))
            \/ NextPass \/ Return

----------------------------------------------------------------------------
\* Declarative side
FeasibleAt(bk, of, cs) == LET sl == SlackTab(bk, of) IN \A c \in cs : IF C[c].eq THEN sl[c] = 0 ELSE sl[c] >= 0
\* Positive-gap cycle in an inequality-only system: longest-path relaxation from every node diverges
RECURSIVE Relax(_, _, _)
Relax(dist, cs, k) ==
    IF k = 0 THEN dist
    ELSE Relax(TLCEval([v \in Vars |-> LET inc == {dist[C[c].l] + C[c].g : c \in {c \in cs : C[c].r = v}}
                               IN  IF inc = {} THEN dist[v] ELSE LET m == CHOOSE x \in inc : \A y \in inc : x >= y
                                                                 IN  IF m > dist[v] THEN m ELSE dist[v]]), cs, k - 1)
PositiveCycle(cs) == LET d0 == [v \in Vars |-> 0]
                         dn == TLCEval(Relax(d0, cs, NV))
                     IN  Relax(dn, cs, 1) # dn
\* Equality-constrained optimum for a forest A of constraints treated as equalities:
\* components of A become rigid blocks placed at their weighted mean.
ForestPlacement(A) ==
    LET RECURSIVE Grow(_, _, _)
        \* assign offsets by walking the forest from each component's least member
        Grow(of, done, A2) ==
            LET nxt == {c \in A2 : (C[c].l \in done) # (C[c].r \in done)}
            IN  IF nxt = {} THEN <<of, done>>
                ELSE LET c == CHOOSE c \in nxt : TRUE
                     IN  IF C[c].l \in done
                         THEN Grow(TLCEval([of EXCEPT ![C[c].r] = of[C[c].l] + C[c].g]), done \cup {C[c].r}, A2 \ {c})
                         ELSE Grow(TLCEval([of EXCEPT ![C[c].l] = of[C[c].r] - C[c].g]), done \cup {C[c].l}, A2 \ {c})
        RECURSIVE All(_, _, _)
        All(of, done, bk) ==
            IF done = Vars THEN <<bk, of>>
            ELSE LET r == MinOf(Vars \ done)
                     g == Grow(of, {r}, A)
                     comp == g[2] \ done
                 IN  All(g[1], done \cup g[2], TLCEval([v \in Vars |-> IF v \in comp THEN r ELSE bk[v]]))
    IN  All([v \in Vars |-> 0], {}, [v \in Vars |-> v])
IsForest(A) == LET RECURSIVE Acyc(_, _)
                   Acyc(S, comp) == IF S = {} THEN TRUE
                                    ELSE LET c == CHOOSE c \in S : TRUE
                                         IN  comp[C[c].l] # comp[C[c].r]
                                             /\ Acyc(S \ {c}, TLCEval([v \in Vars |-> IF comp[v] = comp[C[c].r] THEN comp[C[c].l] ELSE comp[v]]))
               IN  Acyc(A, [v \in Vars |-> v])
AllC == DOMAIN C
Candidates2 == {A \in SUBSET AllC : IsForest(A)}
\* the optimum: positions (times L) of the cheapest feasible candidate (positions are unique; the forest need not be).
\* Written with function constructors so that TLC evaluates every candidate once.
OptData == LET plc  == TLCEval([A \in Candidates2 |-> ForestPlacement(A)])
               feas == {A \in Candidates2 : FeasibleAt(plc[A][1], plc[A][2], AllC)}
               cst  == TLCEval([A \in feas |-> CostL2(plc[A][1], plc[A][2])])
           IN  IF feas = {} THEN [cost |-> -1, pos |-> [v \in Vars |-> 0]]
               ELSE LET best == CHOOSE A \in feas : \A B \in feas : cst[A] <= cst[B]
                    IN  [cost |-> cst[best], pos |-> PosTab(plc[best][1], plc[best][2])]
OptCost == OptData.cost
OptPosL == OptData.pos
FeasibleProblem == OptCost >= 0

----------------------------------------------------------------------------
\* Invariants
TypeOK == /\ lat = LOf(w)
          /\ act \cap inact = {} /\ act \cap unsat = {} /\ inact \cap unsat = {}
          /\ act \cup inact \cup unsat = DOMAIN C
Forest == \A b \in Blocks :
             /\ Cardinality(BlockAct(blk, act, b)) = Cardinality(Members(blk, b)) - 1
             /\ ReachU({b}, BlockAct(blk, act, b)) = Members(blk, b)
Tight  == LET sl == SlackTab(blk, off) IN \A c \in act : sl[c] = 0 /\ blk[C[c].l] = blk[C[c].r]
Returned == pc = "returned"
Holds(c) == IF C[c].eq THEN Slack(c) = 0 ELSE Slack(c) >= 0
HoldsOrFlagged == Returned => LET sl == SlackTab(blk, off) IN \A c \in DOMAIN C : c \in unsat \/ (IF C[c].eq THEN sl[c] = 0 ELSE sl[c] >= 0)
IneqOnly == \A c \in DOMAIN C : ~C[c].eq
FlagIffInfeasible == Returned /\ IneqOnly => ((unsat # {}) <=> PositiveCycle(DOMAIN C))
KKT == Returned /\ mode = "solve" /\ unsat = {} => LET lm == LmTab(blk, off, act) IN \A c \in act : C[c].eq \/ ~LmNegative(lm[c])
Optimal == Returned /\ mode = "solve" /\ unsat = {} => PosTab(blk, off) = OptPosL
\* KKT with a feasible point is sufficient for optimality of this convex QP: the two must agree
KKTImpliesOptimal == Returned /\ mode = "solve" /\ unsat = {} /\ (LET lm == LmTab(blk, off, act) IN \A c \in act : C[c].eq \/ lm[c] >= 0)
                        => PosTab(blk, off) = OptPosL
=============================================================================
