------------------------------ MODULE VpscTrace ------------------------------
(* B2: validation of executions of the real vpsc::IncSolver (hook H1)       *)
(* against Vpsc.  One ndjson line per specification action; every line must *)
(* be explained by the corresponding action of Vpsc with the logged         *)
(* arguments, and the logged projected state (positions on the lattice,     *)
(* flagged set, active set) must equal the specification's.  All invariants *)
(* of Vpsc are evaluated in every state of every recorded execution.        *)
(* Executions are concatenated; a Reset line starts the next one.           *)
EXTENDS Vpsc, Json, IOUtils
TraceLog == ndJsonDeserialize(IOEnv.VPSCTRACE)
VARIABLES l,          \* cursor: next line to consume
          sub,        \* "" | "begin" (SolveBegin seen, its SatisfyBegin pending) | "kept" | "remerged" (outcome line of SplitBetween pending)
          K           \* lattice refinement of logged positions: X = round(x * L * K)
tvars == <<vars, l, sub, K>>
Line == TraceLog[l]
IsEv(e) == l <= Len(TraceLog) /\ TraceLog[l].e = e /\ l' = l + 1
ToSetT(s) == {s[i] : i \in DOMAIN s}

TInit == /\ l = 1 /\ sub = "" /\ K = 1
         /\ des = <<0>> /\ w = <<1>> /\ C = <<>> /\ lat = 1
         /\ blk = <<1>> /\ off = <<0>> /\ act = {} /\ inact = {} /\ unsat = {}
         /\ pc = "idle" /\ todo = {} /\ mode = "solve" /\ first = TRUE /\ prevcost = 0 /\ rounds = 0 /\ passSplit = FALSE

TrReset == /\ IsEv("Reset") /\ pc \in {"idle", "returned"} /\ sub = ""
           /\ des' = Line.des /\ w' = Line.w /\ C' = Line.cons /\ lat' = LOf(Line.w)
           /\ blk' = [v \in 1..Line.n |-> v] /\ off' = [v \in 1..Line.n |-> 0]
           /\ act' = {} /\ inact' = DOMAIN Line.cons /\ unsat' = {}
           /\ pc' = "idle" /\ todo' = {} /\ mode' = "solve" /\ first' = TRUE /\ prevcost' = 0 /\ rounds' = 0 /\ passSplit' = FALSE
           /\ K' = Line.K /\ sub' = ""
           /\ LOf(Line.w) = Line.L          \* harness and specification agree on the lattice
TrSetDesired == IsEv("SetDesired") /\ sub = "" /\ SetDesired(Line.des) /\ UNCHANGED <<sub, K>>
TrAdd        == IsEv("AddConstraint") /\ sub = "" /\ AddConstraint(Line.c) /\ UNCHANGED <<sub, K>>
TrSolveBegin == IsEv("SolveBegin") /\ sub = "" /\ CallSolve /\ sub' = "begin" /\ UNCHANGED K
TrSatisfyBegin ==
    /\ IsEv("SatisfyBegin")
    /\ \/ sub = "begin" /\ sub' = "" /\ UNCHANGED <<vars, K>>                 \* the first satisfy() of solve()
       \/ sub = "" /\ pc = "passdone" /\ NextPass /\ UNCHANGED <<sub, K>>     \* a further pass of solve()
       \/ sub = "" /\ pc \in {"idle", "returned"} /\ CallSatisfy /\ UNCHANGED <<sub, K>>
TrSplit      == IsEv("Split") /\ sub = "" /\ Split(Line.c) /\ UNCHANGED <<sub, K>>
TrSplitsDone == IsEv("SplitsDone") /\ sub = "" /\ SplitsDone /\ UNCHANGED <<sub, K>>
TrMerge      == IsEv("Merge") /\ sub = "" /\ Merge(Line.c) /\ UNCHANGED <<sub, K>>
TrUnsat      == IsEv("Unsat") /\ sub = "" /\ MarkUnsat(Line.c) /\ UNCHANGED <<sub, K>>
TrSplitBetween == /\ IsEv("SplitBetween") /\ sub = "" /\ SplitBetween(Line.c, Line.s)
                  /\ sub' = (IF Line.c \in inact' THEN "kept" ELSE "remerged") /\ UNCHANGED K
TrSplitOutcome == /\ \/ (IsEv("SplitKept") /\ sub = "kept") \/ (IsEv("SplitRemerged") /\ sub = "remerged")
                  /\ sub' = "" /\ UNCHANGED <<vars, K>>
\* projected state logged at the end of satisfy()/solve()
PosTolU == 2 + ((L * K) \div 1000000)
StateAgrees == /\ LET ps == PosTab(blk, off) IN \A v \in Vars : AbsV(Line.pos[v] - ps[v] * K) <= PosTolU
               /\ ToSetT(Line.unsat) = unsat
               /\ ToSetT(Line.act) = act
TrSatisfyEnd ==
    /\ IsEv("SatisfyEnd") /\ sub = ""
    /\ pc = "merge" /\ LET sl == SlackTab(blk, off) IN \A c \in CandidatesT(sl) : ~TakenT(sl, c)          \* PassDone's guard
    /\ StateAgrees
    /\ IF mode = "satisfy"
       THEN pc' = "returned" /\ rounds' = rounds + 1            \* PassDone . Return
       ELSE pc' = "passdone" /\ rounds' = rounds
    /\ UNCHANGED <<pvars, svars, todo, mode, first, prevcost, passSplit, sub, K>>
TrSolveEnd == IsEv("SolveEnd") /\ sub = "" /\ mode = "solve" /\ Return /\ StateAgrees /\ UNCHANGED <<sub, K>>
TrEnd == IsEv("End") /\ sub = "" /\ pc \in {"idle", "returned"} /\ UNCHANGED <<vars, sub, K>>

TNext == TrReset \/ TrSetDesired \/ TrAdd \/ TrSolveBegin \/ TrSatisfyBegin \/ TrSplit \/ TrSplitsDone
         \/ TrMerge \/ TrUnsat \/ TrSplitBetween \/ TrSplitOutcome \/ TrSatisfyEnd \/ TrSolveEnd \/ TrEnd
TraceSpec == TInit /\ [][TNext]_tvars

\* acceptance: the whole file was consumed (register updated from a constraint; -workers 1)
Track == TLCSet(1, IF TLCGet(1) > l THEN TLCGet(1) ELSE l)
Accepted == TLCGet(1) = Len(TraceLog) + 1
ASSUME TLCSet(1, 0)
\* the furthest line reached, for diagnosing a rejection
Furthest == PrintT(<<"FURTHEST", TLCGet(1)>>)
=============================================================================
