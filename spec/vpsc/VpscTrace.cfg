SPECIFICATION TraceSpec
CONSTRAINT Track
INVARIANTS TypeOK Forest Tight HoldsOrFlagged FlagIffInfeasible KKT Optimal
POSTCONDITION Accepted
CHECK_DEADLOCK FALSE
