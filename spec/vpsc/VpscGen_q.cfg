SPECIFICATION GenSpec
CONSTANTS
 N = 3
 DESMAX = 1
 MAXC = 2
 RESOLVES = 0
 EQS = TRUE
 ADDS = FALSE
CHECK_DEADLOCK FALSE
