------------------------------- MODULE VpscQP -------------------------------
(* The VPSC problem as mathematics, independent of any algorithm:           *)
(*    minimise  sum_v w_v (x_v - d_v)^2                                     *)
(*    subject to sc_r x_r - sc_l x_l >= g   (or = g)   for each constraint  *)
(* over exact rationals (Rat).  Defines feasibility, the positive-cycle     *)
(* criterion, the equality-constrained optimum of an active forest, its     *)
(* Lagrange multipliers, the optimum as the best feasible active-set        *)
(* candidate, and the KKT certificate.  Used to judge *recorded results* of *)
(* the real solvers (VpscRecs) -- scales, weights and orders included.      *)
EXTENDS Integers, Sequences, FiniteSets, Rat, TLC

\* A problem is a record [n, des, w, sc, cons]; cons[i] = [l, r, g, eq]
PVars(p) == 1..p.n
PCons(p) == DOMAIN p.cons

RECURSIVE RSumF(_, _)
RSumF(S, f) == IF S = {} THEN RI(0) ELSE LET x == CHOOSE x \in S : TRUE IN RAdd(f[x], RSumF(S \ {x}, f))
QMin(S) == CHOOSE x \in S : \A y \in S : x <= y

\* ---- positive cycle (inequality graph in y = sc*x space) -----------------
RECURSIVE QRelax(_, _, _, _)
QRelax(p, cs, dist, k) ==
    IF k = 0 THEN dist
    ELSE QRelax(p, cs,
           TLCEval([v \in PVars(p) |->
              LET inc == {dist[p.cons[c].l] + p.cons[c].g : c \in {c \in cs : p.cons[c].r = v}}
              IN  IF inc = {} THEN dist[v]
                  ELSE LET m == CHOOSE x \in inc : \A y \in inc : x >= y IN IF m > dist[v] THEN m ELSE dist[v]]),
           k - 1)
\* equalities count as two opposite inequalities
AsIneqs(p) == [i \in 1..(2 * Len(p.cons)) |->
                 IF i <= Len(p.cons) THEN p.cons[i]
                 ELSE LET c == p.cons[i - Len(p.cons)]
                      IN  IF c.eq THEN [l |-> c.r, r |-> c.l, g |-> -c.g, eq |-> FALSE] ELSE c]
PositiveCycleQ(p) ==
    LET q  == [p EXCEPT !.cons = AsIneqs(p)]
        cs == DOMAIN q.cons
        d0 == [v \in PVars(p) |-> 0]
        dn == TLCEval(QRelax(q, cs, d0, p.n))
    IN  QRelax(q, cs, dn, 1) # dn
Feasible(p) == ~PositiveCycleQ(p)

\* ---- placements (functions Vars -> Rat) ---------------------------------
SlackQ(p, x, c) == RSub(RSub(RMul(RI(p.sc[p.cons[c].r]), x[p.cons[c].r]),
                             RMul(RI(p.sc[p.cons[c].l]), x[p.cons[c].l])), RI(p.cons[c].g))
HoldsQ(p, x, c) == IF p.cons[c].eq THEN RSgn(SlackQ(p, x, c)) = 0 ELSE RSgn(SlackQ(p, x, c)) >= 0
FeasibleAtQ(p, x, cs) == \A c \in cs : HoldsQ(p, x, c)
CostQ(p, x) == RSumF(PVars(p), [v \in PVars(p) |-> RMul(RI(p.w[v]), RMul(RSub(x[v], RI(p.des[v])), RSub(x[v], RI(p.des[v]))))])

\* ---- forests -------------------------------------------------------------
RECURSIVE QReach(_, _, _)
QReach(p, S, A) == LET T == S \cup {p.cons[c].r : c \in {c \in A : p.cons[c].l \in S}}
                              \cup {p.cons[c].l : c \in {c \in A : p.cons[c].r \in S}}
                   IN  IF T = S THEN S ELSE QReach(p, T, A)
IsForestQ(p, A) ==
    LET RECURSIVE Acyc(_, _)
        Acyc(S, comp) == IF S = {} THEN TRUE
                         ELSE LET c == CHOOSE c \in S : TRUE
                              IN  comp[p.cons[c].l] # comp[p.cons[c].r]
                                  /\ Acyc(S \ {c}, TLCEval([v \in PVars(p) |-> IF comp[v] = comp[p.cons[c].r] THEN comp[p.cons[c].l] ELSE comp[v]]))
    IN  Acyc(A, [v \in PVars(p) |-> v])
\* offsets in y-space relative to the least member of each component, and the component map
ForestShape(p, A) ==
    LET RECURSIVE Grow(_, _, _)
        Grow(of, done, A2) ==
            LET nxt == {c \in A2 : (p.cons[c].l \in done) # (p.cons[c].r \in done)}
            IN  IF nxt = {} THEN <<of, done>>
                ELSE LET c == CHOOSE c \in nxt : TRUE
                     IN  IF p.cons[c].l \in done
                         THEN Grow(TLCEval([of EXCEPT ![p.cons[c].r] = of[p.cons[c].l] + p.cons[c].g]), done \cup {p.cons[c].r}, A2 \ {c})
                         ELSE Grow(TLCEval([of EXCEPT ![p.cons[c].l] = of[p.cons[c].r] - p.cons[c].g]), done \cup {p.cons[c].l}, A2 \ {c})
        RECURSIVE All(_, _, _)
        All(of, done, comp) ==
            IF done = PVars(p) THEN <<comp, of>>
            ELSE LET r == QMin(PVars(p) \ done)
                     g == Grow(of, {r}, A)
                     cc == g[2] \ done
                 IN  All(g[1], done \cup g[2], TLCEval([v \in PVars(p) |-> IF v \in cc THEN r ELSE comp[v]]))
    IN  All([v \in PVars(p) |-> 0], {}, [v \in PVars(p) |-> v])
\* the optimum with the constraints of A tight: x_v = (t_b + off_v)/sc_v,
\* t_b = sum (w/sc)(d - off/sc) / sum (w/sc^2) over the component b of v
ForestOptimum(p, A) ==
    LET sh   == TLCEval(ForestShape(p, A))
        comp == sh[1]
        of   == sh[2]
        T(b) == LET vs == {v \in PVars(p) : comp[v] = b}
                    num == RSumF(vs, [v \in PVars(p) |-> RMul(<<p.w[v], p.sc[v]>>, RSub(RI(p.des[v]), <<of[v], p.sc[v]>>))])
                    den == RSumF(vs, [v \in PVars(p) |-> <<p.w[v], p.sc[v] * p.sc[v]>>])
                IN  RDiv(num, den)
        tb   == TLCEval([b \in {comp[v] : v \in PVars(p)} |-> T(b)])
    IN  TLCEval([v \in PVars(p) |-> RDiv(RAdd(tb[comp[v]], RI(of[v])), RI(p.sc[v]))])
\* multiplier of tree edge c of forest A at placement x: sum over the right side of 2 w (x - d)/sc
MultiplierQ(p, A, x, c) ==
    LET rs == QReach(p, {p.cons[c].r}, A \ {c})
    IN  RSumF(rs, [v \in PVars(p) |-> RMul(<<2 * p.w[v], p.sc[v]>>, RSub(x[v], RI(p.des[v])))])

\* ---- the optimum ----------------------------------------------------------
\* KKT certificate: A is a forest, its optimum is feasible for the constraint set cs and every
\* inequality of A has a non-negative multiplier.  Sufficient for optimality of a convex QP.
Certifies(p, A, cs) ==
    /\ IsForestQ(p, A)
    /\ LET x == ForestOptimum(p, A)
       IN  /\ FeasibleAtQ(p, x, cs)
           /\ \A c \in A : p.cons[c].eq \/ RSgn(MultiplierQ(p, A, x, c)) >= 0
\* the optimum by enumeration of active sets (small problems): best feasible candidate
OptQ(p, cs) ==
    LET forests == {A \in SUBSET cs : IsForestQ(p, A)}
        plc     == TLCEval([A \in forests |-> ForestOptimum(p, A)])
        feas    == {A \in forests : FeasibleAtQ(p, plc[A], cs)}
        cst     == TLCEval([A \in feas |-> CostQ(p, plc[A])])
        best    == CHOOSE A \in feas : \A B \in feas : RLe(cst[A], cst[B])
    IN  plc[best]
\* Certificate with the placement handed in (so callers evaluate ForestOptimum once)
CertifiesAt(p, A, cs, x) ==
    /\ FeasibleAtQ(p, x, cs)
    /\ \A c \in A : p.cons[c].eq \/ RSgn(MultiplierQ(p, A, x, c)) >= 0
=============================================================================
