SPECIFICATION Spec
CONSTANTS
 N = 3
 DESMAX = 2
 MAXC = 2
 RESOLVES = 0
 EQS = TRUE
 ADDS = FALSE
INVARIANTS TypeOK Forest Tight HoldsOrFlagged FlagIffInfeasible KKT Optimal KKTImpliesOptimal
CHECK_DEADLOCK FALSE
