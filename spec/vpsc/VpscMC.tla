------------------------------- MODULE VpscMC -------------------------------
(* Bounded model of Vpsc: every instance with N variables, desired          *)
(* positions in 0..DESMAX, a weight vector from a small catalogue and every *)
(* set of at most MAXC constraints over ordered pairs x gaps -1..2 (x       *)
(* {<=, =} when EQS), every tie-break, and histories of up to RESOLVES      *)
(* further calls after SetDesired / AddConstraint.                          *)
EXTENDS Vpsc, Json, IOUtils, Randomization
CONSTANTS N, DESMAX, MAXC, RESOLVES, EQS, ADDS
VS == 1..N
GAPS == (-1)..2
Pairs == {p \in VS \X VS : p[1] # p[2]}
Pool == { [l |-> p[1], r |-> p[2], g |-> g, eq |-> e] : p \in Pairs, g \in GAPS, e \in (IF EQS THEN {FALSE, TRUE} ELSE {FALSE}) }
WVecs == IF N = 3 THEN { <<1, 1, 1>>, <<1, 2, 1>>, <<3, 1, 2>> }
         ELSE IF N = 4 THEN { <<1, 1, 1, 1>>, <<3, 1, 1, 2>> }
         ELSE { [v \in VS |-> 1] }
ConSets == UNION { kSubset(k, Pool) : k \in 0..MAXC }
Init == /\ des \in [VS -> 0..DESMAX] /\ w \in WVecs /\ lat = LOf(w)
        /\ \E S \in ConSets : C = SetToSeq(S)
        /\ blk = [v \in VS |-> v] /\ off = [v \in VS |-> 0]
        /\ act = {} /\ inact = DOMAIN C /\ unsat = {}
        /\ pc = "idle" /\ todo = {} /\ mode = "solve" /\ first = TRUE /\ prevcost = 0 /\ rounds = 0 /\ passSplit = FALSE
\* initial states for -simulate at sizes where the instance set cannot be enumerated:
\* one random instance per trace (TLC's simulator re-evaluates the initial predicate for every trace)
SimInit == /\ des = RandomElement([VS -> 0..DESMAX]) /\ w = RandomElement(WVecs) /\ lat = LOf(w)
           /\ C = SetToSeq(RandomSubset(MAXC, Pool))
           /\ blk = [v \in VS |-> v] /\ off = [v \in VS |-> 0]
           /\ act = {} /\ inact = DOMAIN C /\ unsat = {}
           /\ pc = "idle" /\ todo = {} /\ mode = "solve" /\ first = TRUE /\ prevcost = 0 /\ rounds = 0 /\ passSplit = FALSE
FirstCall == pc = "idle" /\ rounds = 0 /\ (CallSolve \/ CallSatisfy)
Again == /\ pc \in {"idle", "returned"} /\ rounds >= 1 /\ rounds <= RESOLVES
         /\ \/ \E d \in [VS -> 0..DESMAX] : d # des /\ SetDesired(d)
            \/ (ADDS /\ Len(C) < MAXC + 1 /\ \E cn \in Pool : AddConstraint(cn))
            \/ (rounds < RESOLVES + 1 /\ CallSolve)
Next == FirstCall \/ Internal \/ Again
Spec == Init /\ [][Next]_vars
\* simulation takes one random new desired vector per re-solve (all of them would make every step 600-fold)
SimAgain == \/ pc = "returned" /\ rounds <= RESOLVES /\ SetDesired(RandomElement([VS -> 0..DESMAX]))
            \/ pc = "idle" /\ rounds >= 1 /\ rounds <= RESOLVES /\ CallSolve
SimSpec == SimInit /\ [][FirstCall \/ Internal \/ SimAgain]_vars
\* SetDesired/AddConstraint do not count as rounds; bound the history by rounds (completed calls)
Bound == rounds <= RESOLVES + 1
\* termination: every call returns (checked under fairness on the unconstrained model)
FairSpec == Spec /\ WF_vars(Internal)
Terminates == [](pc \in {"split", "merge", "passdone"} => <>(pc = "returned"))
\* B1: the same instance set written out for replay into the real solvers
InstSet == { [des |-> d, w |-> ww, cons |-> SetToSeq(S)] : d \in [VS -> 0..DESMAX], ww \in WVecs, S \in ConSets }
GenInit == /\ JsonSerialize(IOEnv.VPSCGEN, SetToSeq(InstSet))
           /\ des = <<0>> /\ w = <<1>> /\ lat = 1 /\ C = <<>> /\ blk = <<1>> /\ off = <<0>>
           /\ act = {} /\ inact = {} /\ unsat = {} /\ pc = "gen" /\ todo = {} /\ mode = "solve"
           /\ first = TRUE /\ prevcost = 0 /\ rounds = Cardinality(InstSet) /\ passSplit = FALSE
GenSpec == GenInit /\ [][UNCHANGED vars]_vars
=============================================================================
