--------------------------- MODULE RemoveOverlaps ---------------------------
(* C09.  What removeoverlaps() and the scan-line constraint generators must *)
(* deliver, stated on rectangles <<x, X, y, Y>> over an integer lattice.    *)
(* The generators are not transcribed: a constraint set over one axis is    *)
(* judged by difference-constraint theory -- it must be acyclic and, for    *)
(* every pair that overlaps on the other axis, force a separation of at     *)
(* least the half-sizes sum (the set of feasible differences x_b - x_a of a *)
(* DAG of separation constraints is the interval                            *)
(* [longest(a~>b), -longest(b~>a)], so this is necessary and sufficient).   *)
EXTENDS Integers, Sequences, FiniteSets, TLC, Json, IOUtils, SequencesExt
Data == JsonDeserialize(IOEnv.RORECS)
Recs == Data.recs
CH == Data.chunk
NChunks == (Len(Recs) + CH - 1) \div CH
NEG == -1000000000
Abs(x) == IF x < 0 THEN -x ELSE x
Mx(a, b) == IF a >= b THEN a ELSE b
Mn(a, b) == IF a <= b THEN a ELSE b


\* ---- constraint sets: cs[i] = <<l, r, gap2>> over rectangles 1..n, gaps in half units of the input lattice
\* longest path matrix (max-plus closure); LP[a][b] = NEG if no path
LongestPaths(n, cs) ==       \* flat matrix over pairs (nested lazy functions would be re-evaluated exponentially often)
    LET PP == (1..n) \X (1..n)
        base == TLCEval([p \in PP |->
                   LET gs == {cs[i][3] : i \in {i \in DOMAIN cs : cs[i][1] = p[1] /\ cs[i][2] = p[2]}}
                   IN  IF gs = {} THEN NEG ELSE CHOOSE g \in gs : \A h \in gs : g >= h])
        RECURSIVE FW(_, _)
        FW(M, k) == IF k > n THEN M
                    ELSE FW(TLCEval([p \in PP |->
                                LET via == IF M[<<p[1], k>>] = NEG \/ M[<<k, p[2]>>] = NEG THEN NEG ELSE M[<<p[1], k>>] + M[<<k, p[2]>>]
                                IN  Mx(M[p], via)]), k + 1)
    IN  FW(base, 1)
Acyclic(n, cs) == LET RECURSIVE Reach(_)
                      Reach(S) == LET T == S \cup {cs[i][2] : i \in {i \in DOMAIN cs : cs[i][1] \in S}} IN IF T = S THEN S ELSE Reach(T)
                  IN  \A i \in DOMAIN cs : cs[i][1] \notin Reach({cs[i][2]})
\* rects in doubled input units: r = <<x, X, y, Y>> * 2, border b2 = 2*border ; axis 1 = x, 2 = y
Lo(r, ax) == IF ax = 1 THEN r[1] ELSE r[3]
Hi(r, ax) == IF ax = 1 THEN r[2] ELSE r[4]
CrossOverlap(ra, rb, ax, bo2) ==     \* positive-length overlap on the OTHER axis, that axis' border (bo2) included
    Mn(Hi(ra, 3 - ax) + bo2, Hi(rb, 3 - ax) + bo2) - Mx(Lo(ra, 3 - ax) - bo2, Lo(rb, 3 - ax) - bo2) > 0
HalfSum(ra, rb, ax, b2) == ((Hi(ra, ax) - Lo(ra, ax) + 2 * b2) + (Hi(rb, ax) - Lo(rb, ax) + 2 * b2)) \div 2
Separates(n, rs, cs, ax, b2, bo2) ==      \* b2: doubled border on this axis, bo2: on the other axis
    LET LP == LongestPaths(n, cs)
    IN  \A a \in 1..n, b \in 1..n : (a < b /\ CrossOverlap(rs[a], rs[b], ax, bo2)) =>
            (LP[<<a, b>>] >= HalfSum(rs[a], rs[b], ax, b2) \/ LP[<<b, a>>] >= HalfSum(rs[a], rs[b], ax, b2))
\* (generator tags are <<0, name>>, run tags <<run index, name>>: TLC cannot hold strings and tuples in one set)
GenTags(r) ==
    IF ~r.gen THEN {} ELSE      \* very large sets are recorded without their constraint sets
    (IF Acyclic(r.n, r.cxn) THEN {} ELSE {<<0, "genX-neighbours-cyclic">>})
    \cup (IF Acyclic(r.n, r.cx) THEN {} ELSE {<<0, "genX-cyclic">>})
    \cup (IF Acyclic(r.n, r.cy) THEN {} ELSE {<<0, "genY-cyclic">>})
    \cup (IF Acyclic(r.n, r.cx) /\ ~Separates(r.n, r.rin2, r.cx, 1, r.b2[1], r.b2[2]) THEN {<<0, "genX-admits-overlap">>} ELSE {})
    \cup (IF Acyclic(r.n, r.cy) /\ ~Separates(r.n, r.rin2, r.cy, 2, r.b2[2], r.b2[1]) THEN {<<0, "genY-admits-overlap">>} ELSE {})

\* ---- results of removeoverlaps: run.out[i] = <<x, X, y, Y>> * S -------------
OvX(a, b) == Mn(a[2], b[2]) - Mx(a[1], b[1])
OvY(a, b) == Mn(a[4], b[4]) - Mx(a[3], b[3])
TolU(r) == (r.S \div 1000000) + 2
Cx2(q) == q[1] + q[2]          \* twice the centre
Cy2(q) == q[3] + q[4]
\* axis-tight contact in the output (an active separation constraint): distance of centres = half sizes + 2*(border + EXTRA_GAP)
TightContact(r, run, a, b) ==
    LET oa == run.out[a]  ob == run.out[b]
        eg4x == 2 * r.b2[1] * r.S + 4 * (r.S \div 1000)       \* 4*(xBorder + EXTRA_GAP) in lattice units
        eg4y == 2 * r.b2[2] * r.S + 4 * (r.S \div 1000)
        tol == TolU(r) + (r.S \div 50000)
    \* (the other-axis overlap that caused the constraint may be gone after the later pass, so only tightness is required)
    IN  \/ Abs(Abs(Cx2(oa) - Cx2(ob)) - ((oa[2] - oa[1]) + (ob[2] - ob[1]) + eg4x)) <= 2 * tol
        \/ Abs(Abs(Cy2(oa) - Cy2(ob)) - ((oa[4] - oa[3]) + (ob[4] - ob[3]) + eg4y)) <= 2 * tol
RECURSIVE ChainFrom(_, _, _)
ChainFrom(r, run, S0) == LET T == S0 \cup {b \in 1..r.n : \E a \in S0 : a # b /\ TightContact(r, run, a, b)}
                         IN  IF T = S0 THEN S0 ELSE ChainFrom(r, run, T)
RunTags(r, run) ==
    LET n == r.n
        fixed == ToSet(run.fixed)
        scale == r.S \div 2                       \* rin2 is in doubled input units
        in(i) == [j \in 1..4 |-> r.rin2[i][j] * scale]
        avg2 == LET RECURSIVE Sum(_) Sum(i) == IF i > n THEN 0 ELSE (r.rin2[i][2] - r.rin2[i][1]) + (r.rin2[i][4] - r.rin2[i][3]) + Sum(i + 1)
                IN  Sum(1)                        \* sum of (w + h) in doubled units: average size = avg2 / (4 n)
        \* 1% of the average size, in lattice units
        limit == ((avg2 * 1024) \div (400 * n)) * (r.S \div 1024)
        \* disjoint as the algorithm sees them: borders included
        fixedDisjoint == \A a \in fixed, b \in fixed : a < b =>
                            ~(OvX(in(a), in(b)) + 2 * r.b2[1] * scale > 0 /\ OvY(in(a), in(b)) + 2 * r.b2[2] * scale > 0)
        moved(i) == Mx(Abs(Cx2(run.out[i]) - Cx2(in(i))), Abs(Cy2(run.out[i]) - Cy2(in(i)))) > 2 * limit + 2
    IN  (IF run.thrown THEN {"exception"} ELSE
         (IF \E a \in 1..n, b \in 1..n : a < b /\ OvX(run.out[a], run.out[b]) > TolU(r) /\ OvY(run.out[a], run.out[b]) > TolU(r)
          THEN {"overlap-left"} ELSE {})
         \cup (IF \E i \in 1..n : Abs((run.out[i][2] - run.out[i][1]) - (in(i)[2] - in(i)[1])) > 2
                                 \/ Abs((run.out[i][4] - run.out[i][3]) - (in(i)[4] - in(i)[3])) > 2
               THEN {"size-changed"} ELSE {})
         \cup (IF run.bafter # r.b2 \/ ~run.bexact THEN {"border-not-restored"} ELSE {})
         \cup (IF fixedDisjoint /\ (\E i \in fixed : moved(i))
               THEN (IF \A i \in fixed : moved(i) => (ChainFrom(r, run, {i}) \cap (fixed \ {i}) # {})
                     THEN {"fixed-moved:chain-between-two-fixed"}
                     ELSE IF \A i \in fixed : moved(i) => (ChainFrom(r, run, {i}) \cap (fixed \ {i}) # {} \/ Cardinality(ChainFrom(r, run, {i})) >= 12)
                     THEN {"fixed-moved:long-chain-outweighs-fixed"}
                     ELSE {"fixed-moved"})
               ELSE {}))
Tags(r) == GenTags(r) \cup UNION { {<<j, t>> : t \in RunTags(r, r.runs[j])} : j \in DOMAIN r.runs }
NonTrivial(r) == \E a \in 1..r.n, b \in 1..r.n : a < b /\ OvX(r.rin2[a], r.rin2[b]) > 0 /\ OvY(r.rin2[a], r.rin2[b]) > 0

VARIABLES k, phase, bad
vars == <<k, phase, bad>>
Init == k \in 0..(NChunks - 1) /\ phase = "todo" /\ bad = {}
Idx(kk) == {i \in (kk * CH + 1)..((kk + 1) * CH) : i <= Len(Recs)}
Eval == /\ phase = "todo" /\ phase' = "done" /\ UNCHANGED k
        /\ bad' = UNION { {<<i, t>> : t \in Tags(Recs[i])} : i \in Idx(k) }
        /\ PrintT(<<"STAT", "ro", k, Cardinality({i \in Idx(k) : NonTrivial(Recs[i])})>>)
Spec == Init /\ [][Eval]_vars
AllClean == bad = {}

\* ---- B1: exhaustive small rectangle sets (corners on a G x G grid) written out for replay ----
CONSTANTS G2, G3
RectsOn(g) == {<<x, X, y, Y>> \in (0..(g - 1)) \X (0..(g - 1)) \X (0..(g - 1)) \X (0..(g - 1)) : x < X /\ y < Y}
Code(q) == ((q[1] * 8 + q[2]) * 8 + q[3]) * 8 + q[4]
Pairs2 == {<<a, b>> \in RectsOn(G2) \X RectsOn(G2) : Code(a) <= Code(b)}
Triples3 == {<<a, b, c>> \in RectsOn(G3) \X RectsOn(G3) \X RectsOn(G3) : Code(a) <= Code(b) /\ Code(b) <= Code(c)}
GenInit == /\ JsonSerialize(IOEnv.ROGEN, <<SetToSeq(Pairs2), SetToSeq(Triples3)>>)
           /\ k = Cardinality(Pairs2) + Cardinality(Triples3) /\ phase = "gen" /\ bad = {}
GenSpec == GenInit /\ [][UNCHANGED vars]_vars
=============================================================================
