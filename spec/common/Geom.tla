------------------------------- MODULE Geom -------------------------------
(* Exact planar geometry over integer points <<x, y>>.  Everything here is  *)
(* mathematics (signs of integer determinants, rational comparisons by     *)
(* cross-multiplication); nothing is transcribed from the library except   *)
(* where a predicate is *defined* as a case analysis on orientations       *)
(* (InValidRegion, CornerSide, TouchRule), in which case the cases come    *)
(* from the library's documentation and the orientations are exact.        *)
(* All callers keep coordinates small enough that every product below      *)
(* stays inside TLC's 32-bit integers.                                     *)
EXTENDS Integers, Sequences, FiniteSets

Sgn(x)  == IF x > 0 THEN 1 ELSE IF x < 0 THEN -1 ELSE 0
AbsI(x) == IF x < 0 THEN -x ELSE x
MinI(a, b) == IF a <= b THEN a ELSE b
MaxI(a, b) == IF a >= b THEN a ELSE b

Sub(a, b)   == <<a[1] - b[1], a[2] - b[2]>>
Cross(u, v) == u[1] * v[2] - u[2] * v[1]
Dot(u, v)   == u[1] * v[1] + u[2] * v[2]

(* Orientation of c relative to the directed line a->b: +1 / 0 / -1.       *)
Orient(a, b, c) == Sgn(Cross(Sub(b, a), Sub(c, a)))

Colinear(a, b, c) == Cross(Sub(b, a), Sub(c, a)) = 0

(* c lies in the relative interior of segment ab (open segment).           *)
StrictlyBetween(a, b, c) ==
    /\ Colinear(a, b, c)
    /\ Dot(Sub(c, a), Sub(b, a)) > 0
    /\ Dot(Sub(c, b), Sub(a, b)) > 0

(* c lies on the closed segment ab.                                        *)
OnClosedSeg(a, b, c) ==
    /\ Colinear(a, b, c)
    /\ Dot(Sub(c, a), Sub(c, b)) <= 0

(* Open segments ab and cd cross at a single point interior to both:       *)
(* solve a + t(b-a) = c + s(d-c) by Cramer's rule, 0 < t, s < 1.           *)
ProperCross(a, b, c, d) ==
    LET r  == Sub(b, a)
        q  == Sub(d, c)
        dn == Cross(r, q)
        tn == Cross(Sub(c, a), q)
        sn == Cross(Sub(c, a), r)
    IN  /\ dn # 0
        /\ IF dn > 0 THEN tn > 0 /\ tn < dn /\ sn > 0 /\ sn < dn
                     ELSE tn < 0 /\ tn > dn /\ sn < 0 /\ sn > dn

(* Closed segments ab and cd, non-parallel, share a point.                  *)
ClosedCrossNonParallel(a, b, c, d) ==
    LET r  == Sub(b, a)
        q  == Sub(d, c)
        dn == Cross(r, q)
        tn == Cross(Sub(c, a), q)
        sn == Cross(Sub(c, a), r)
    IN  /\ dn # 0
        /\ IF dn > 0 THEN tn >= 0 /\ tn <= dn /\ sn >= 0 /\ sn <= dn
                     ELSE tn <= 0 /\ tn >= dn /\ sn <= 0 /\ sn >= dn

BoxesOverlap(a, b, c, d) ==
    /\ MaxI(MinI(a[1], b[1]), MinI(c[1], d[1])) <= MinI(MaxI(a[1], b[1]), MaxI(c[1], d[1]))
    /\ MaxI(MinI(a[2], b[2]), MinI(c[2], d[2])) <= MinI(MaxI(a[2], b[2]), MaxI(c[2], d[2]))

(* Classification used by segmentIntersectPoint: 0 = no intersection,      *)
(* 1 = a single intersection point of non-parallel closed segments,        *)
(* 3 = parallel: all four points on one line and the boxes overlap.        *)
SegIntClass(a, b, c, d) ==
    IF Cross(Sub(b, a), Sub(d, c)) # 0
    THEN IF ClosedCrossNonParallel(a, b, c, d) THEN 1 ELSE 0
    ELSE IF /\ Cross(Sub(a, c), Sub(d, c)) = 0
            /\ Cross(Sub(c, a), Sub(b, a)) = 0
            /\ BoxesOverlap(a, b, c, d)
         THEN 3 ELSE 0

(* The intersection point as two fractions over a common denominator:      *)
(* <<xnum, ynum, den>>, den # 0 (callers compare by cross-multiplication). *)
SegIntPoint(a, b, c, d) ==
    LET r  == Sub(b, a)
        q  == Sub(d, c)
        dn == Cross(r, q)
        tn == Cross(Sub(c, a), q)
    IN  <<a[1] * dn + tn * r[1], a[2] * dn + tn * r[2], dn>>

(* ---- polygons: sequences of points ------------------------------------ *)
PrevIdx(P, i) == IF i = 1 THEN Len(P) ELSE i - 1

OnBoundary(P, q) == \E i \in 1..Len(P) : OnClosedSeg(P[PrevIdx(P, i)], P[i], q)

(* Ray casting in exact arithmetic: edge (u,v) is crossed by the rightward *)
(* ray from q iff it straddles the ray's line half-openly and the crossing *)
(* abscissa is strictly right of q.                                        *)
CrossesRay(u, v, q) ==
    /\ (u[2] > q[2]) # (v[2] > q[2])
    /\ LET dy == v[2] - u[2]
           n  == (u[1] - q[1]) * dy + (q[2] - u[2]) * (v[1] - u[1])   \* (x_cross - q.x) * dy
       IN  IF dy > 0 THEN n > 0 ELSE n < 0

OddCrossings(P, q) ==
    Cardinality({i \in 1..Len(P) : CrossesRay(P[PrevIdx(P, i)], P[i], q)}) % 2 = 1

InClosedPoly(P, q) == OnBoundary(P, q) \/ OddCrossings(P, q)
InOpenPoly(P, q)   == ~OnBoundary(P, q) /\ OddCrossings(P, q)

Area2(P) == LET RECURSIVE S(_)
                S(i) == IF i > Len(P) THEN 0 ELSE Cross(P[PrevIdx(P, i)], P[i]) + S(i + 1)
            IN S(1)

StrictlyConvexCCW(P) ==
    /\ Len(P) >= 3
    /\ \A i \in 1..Len(P) : Orient(P[PrevIdx(P, PrevIdx(P, i))], P[PrevIdx(P, i)], P[i]) = 1
    /\ \A i \in 1..Len(P) : \A j \in 1..Len(P) :
          (j # i /\ j # PrevIdx(P, i)) => Orient(P[PrevIdx(P, i)], P[i], P[j]) = 1

(* ---- case analyses defined by the library's documentation -------------- *)
(* InValidRegion: a0,a1,a2 consecutive shape vertices, b the query point.  *)
InValidRegion(ignore, a0, a1, a2, b) ==
    LET rS == Orient(b, a0, a1)
        sS == Orient(b, a1, a2)
    IN  IF Orient(a0, a1, a2) > 0
        THEN IF ignore THEN (rS <= 0 /\ ~(sS < 0)) \/ (~(rS < 0) /\ sS <= 0)
                       ELSE rS <= 0 \/ sS <= 0
        ELSE IF ignore THEN FALSE ELSE rS <= 0 /\ sS <= 0

CornerSide(c1, c2, c3, p) ==
    LET s123 == Orient(c1, c2, c3)
        s12p == Orient(c1, c2, p)
        s23p == Orient(c2, c3, p)
    IN  IF s123 = 1 THEN (IF s12p >= 0 /\ s23p >= 0 THEN 1 ELSE -1)
        ELSE IF s123 = -1 THEN (IF s12p <= 0 /\ s23p <= 0 THEN -1 ELSE 1)
        ELSE s12p

(* segmentShapeIntersect with its once-per-shape endpoint allowance made   *)
(* explicit: returns <<blocked, seen'>>.                                    *)
TouchesAtEndpoint(e1, e2, s1, s2) ==
    \/ ((s2 = e1 \/ StrictlyBetween(s1, s2, e1)) /\ Orient(s1, s2, e2) # 0)
    \/ ((s2 = e2 \/ StrictlyBetween(s1, s2, e2)) /\ Orient(s1, s2, e1) # 0)
TouchRule(e1, e2, s1, s2, seen) ==
    IF ProperCross(e1, e2, s1, s2) THEN <<TRUE, seen>>
    ELSE IF TouchesAtEndpoint(e1, e2, s1, s2)
         THEN (IF seen THEN <<TRUE, TRUE>> ELSE <<FALSE, TRUE>>)
         ELSE <<FALSE, seen>>

(* ---- axis-parallel rectangles <<x1, y1, x2, y2>>, x1 < x2, y1 < y2 ----- *)
(* The open segment pq meets the open interior of r.  Clip the parameter   *)
(* interval (0,1) against both slabs; fractions compared exactly.          *)
FracLt(n1, d1, n2, d2) == n1 * d2 < n2 * d1          \* d1, d2 > 0
FMaxF(f, g) == IF f[1] * g[2] >= g[1] * f[2] THEN f ELSE g
FMinF(f, g) == IF f[1] * g[2] <= g[1] * f[2] THEN f ELSE g
SlabIv(p, d, lo, hi) ==                               \* <<ok, lofrac, hifrac>>
    IF d = 0 THEN <<(p > lo /\ p < hi), <<0, 1>>, <<1, 1>>>>
    ELSE IF d > 0 THEN <<TRUE, <<lo - p, d>>, <<hi - p, d>>>>
    ELSE <<TRUE, <<p - hi, -d>>, <<p - lo, -d>>>>
SegMeetsOpenRect(p, q, r) ==
    LET ax == SlabIv(p[1], q[1] - p[1], r[1], r[3])
        ay == SlabIv(p[2], q[2] - p[2], r[2], r[4])
    IN  /\ ax[1] /\ ay[1]
        /\ LET lo == FMaxF(FMaxF(ax[2], ay[2]), <<0, 1>>)
               hi == FMinF(FMinF(ax[3], ay[3]), <<1, 1>>)
           IN  FracLt(lo[1], lo[2], hi[1], hi[2])

PointInOpenRect(p, r)   == p[1] > r[1] /\ p[1] < r[3] /\ p[2] > r[2] /\ p[2] < r[4]
PointInClosedRect(p, r) == p[1] >= r[1] /\ p[1] <= r[3] /\ p[2] >= r[2] /\ p[2] <= r[4]
RectCorners(r) == <<<<r[1], r[2]>>, <<r[3], r[2]>>, <<r[3], r[4]>>, <<r[1], r[4]>>>>

(* The open segment pq meets the open interior of a strictly convex CCW    *)
(* polygon P: some point of the open segment is strictly inside.  For a    *)
(* convex polygon the set {t : a + t d strictly inside} is the open        *)
(* interval cut out by the half-planes; clip (0,1) against each.           *)
HalfIv(P, i, p, q) ==
    \* edge u->v, inside is Orient(u,v,x) > 0 :  f(t) = c0 + t*c1 > 0
    LET u  == P[PrevIdx(P, i)]
        v  == P[i]
        c0 == Cross(Sub(v, u), Sub(p, u))
        c1 == Cross(Sub(v, u), Sub(q, p))
    IN  IF c1 = 0 THEN <<c0 > 0, <<0, 1>>, <<1, 1>>>>
        ELSE IF c1 > 0 THEN <<TRUE, <<-c0, c1>>, <<1, 1>>>>      \* t > -c0/c1
        ELSE <<TRUE, <<0, 1>>, <<c0, -c1>>>>                     \* t <  c0/(-c1)
SegMeetsOpenConvex(p, q, P) ==
    LET RECURSIVE Clip(_, _, _)
        Clip(i, lo, hi) ==
            IF i > Len(P) THEN FracLt(lo[1], lo[2], hi[1], hi[2])
            ELSE LET h == HalfIv(P, i, p, q)
                 IN  IF ~h[1] THEN FALSE
                     ELSE Clip(i + 1, FMaxF(lo, h[2]), FMinF(hi, h[3]))
    IN  p # q /\ Clip(1, <<0, 1>>, <<1, 1>>)
=============================================================================
