-------------------------------- MODULE Rat --------------------------------
(* Exact rationals as normalised pairs <<num, den>>, den > 0.  TLC raises   *)
(* an error on 32-bit overflow (it never wraps), so a result is either      *)
(* exact or the run is reported as broken.                                  *)
EXTENDS Integers
RECURSIVE RGcd(_, _)
RGcd(a, b) == IF b = 0 THEN a ELSE RGcd(b, a % b)
RAbs(x) == IF x < 0 THEN -x ELSE x
RNorm(n, d) == LET s == IF d < 0 THEN -1 ELSE 1
                   g == RGcd(RAbs(n), RAbs(d))
               IN  IF g = 0 THEN <<0, 1>> ELSE <<(s * n) \div g, (s * d) \div g>>
RI(i)      == <<i, 1>>
RAdd(a, b) == LET g == RGcd(a[2], b[2]) IN RNorm(a[1] * (b[2] \div g) + b[1] * (a[2] \div g), (a[2] \div g) * b[2])
RNeg(a)    == <<-a[1], a[2]>>
RSub(a, b) == RAdd(a, RNeg(b))
RMul(a, b) == LET g1 == RGcd(RAbs(a[1]), b[2])
                  g2 == RGcd(RAbs(b[1]), a[2])
                  h1 == IF g1 = 0 THEN 1 ELSE g1
                  h2 == IF g2 = 0 THEN 1 ELSE g2
              IN  RNorm((a[1] \div h1) * (b[1] \div h2), (a[2] \div h2) * (b[2] \div h1))
RDiv(a, b) == RMul(a, IF b[1] < 0 THEN <<-b[2], -b[1]>> ELSE <<b[2], b[1]>>)     \* b # 0
RSgn(a)    == IF a[1] > 0 THEN 1 ELSE IF a[1] < 0 THEN -1 ELSE 0
RLt(a, b)  == RSgn(RSub(a, b)) < 0
RLe(a, b)  == RSgn(RSub(a, b)) <= 0
REq(a, b)  == a = b
\* floor(a * S) for S = S1 * S2 without overflow when |a| * S1 * den stays small
RFloorScaled(a, S1, S2) ==
    LET n1 == a[1] * S1
        e1 == n1 \div a[2]          \* floor division (TLC: \div rounds toward -infinity)
        r1 == n1 % a[2]
    IN  e1 * S2 + ((r1 * S2) \div a[2])
=============================================================================
