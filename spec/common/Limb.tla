------------------------------- MODULE Limb -------------------------------
(* Sign of a*d - b*c for |a|,|b|,|c|,|d| < 2^22 without leaving TLC's      *)
(* 32-bit integers: magnitudes are multiplied as base-2^11 digit strings    *)
(* and compared lexicographically.                                          *)
EXTENDS Integers
LB == 2048
LSgn(x) == IF x > 0 THEN 1 ELSE IF x < 0 THEN -1 ELSE 0
LAbs(x) == IF x < 0 THEN -x ELSE x
\* |x|*|y| as <<d3, d2, d1, d0>>, base 2^11
MulMag(x, y) ==
    LET h1 == LAbs(x) \div LB   l1 == LAbs(x) % LB
        h2 == LAbs(y) \div LB   l2 == LAbs(y) % LB
        t0 == l1 * l2
        t1 == h1 * l2 + l1 * h2 + (t0 \div LB)
        t2 == h1 * h2 + (t1 \div LB)
    IN  <<t2 \div LB, t2 % LB, t1 % LB, t0 % LB>>
CmpMag(p, q) ==
    IF p[1] # q[1] THEN LSgn(p[1] - q[1])
    ELSE IF p[2] # q[2] THEN LSgn(p[2] - q[2])
    ELSE IF p[3] # q[3] THEN LSgn(p[3] - q[3])
    ELSE LSgn(p[4] - q[4])
\* sign of a*d - b*c
CmpProd(a, d, b, c) ==
    LET s1 == LSgn(a) * LSgn(d)
        s2 == LSgn(b) * LSgn(c)
    IN  IF s1 # s2 THEN LSgn(s1 - s2)
        ELSE IF s1 = 0 THEN 0
        ELSE s1 * CmpMag(MulMag(a, d), MulMag(b, c))
\* exactness lemma on small numbers: CmpProd agrees with direct evaluation
LimbLemma(R) == \A a \in R, d \in R, b \in R, c \in R : CmpProd(a, d, b, c) = LSgn(a * d - b * c)
=============================================================================
