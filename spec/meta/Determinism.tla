------------------------------ MODULE Determinism ------------------------------
(* C20: reproducibility and frame independence, judged on recorded pairs.   *)
(*  - repeat: the same call sequence on equal inputs, with unrelated work    *)
(*    and allocations in between, gives bit-identical routes and solver      *)
(*    positions (doubles recorded as limb triples: tuple equality is bit     *)
(*    equality) and layout positions equal to 1e-9                           *)
(*  - translate: a routing scene or VPSC problem moved by k * 2^-10 gives    *)
(*    the raw result moved by exactly that much (lattice arithmetic), the    *)
(*    displayed / solver result moved by that much within 1e-9               *)
(*  - symmetry: under each of the 7 non-identity symmetries of the square    *)
(*    every connector's raw route keeps its cost (length + P * bends; exact  *)
(*    integers for orthogonal routes, integer-square-root intervals for      *)
(*    polylines)                                                             *)
EXTENDS Integers, Sequences, FiniteSets, TLC, Json, IOUtils
Data == JsonDeserialize(IOEnv.DETRECS)
Recs == Data.recs
CH == Data.chunk
NChunks == (Len(Recs) + CH - 1) \div CH
SENT == 2000000000
Abs(x) == IF x < 0 THEN -x ELSE x
LS == 1024
RECURSIVE IsqrtBS(_, _, _)
IsqrtBS(n, lo, hi) == IF lo >= hi THEN lo ELSE LET m == (lo + hi + 1) \div 2 IN IF m * m <= n THEN IsqrtBS(n, m, hi) ELSE IsqrtBS(n, lo, m - 1)
Isqrt(n) == IsqrtBS(n, 0, 46340)
\* routes on the 2^-10 lattice with integer coordinates (multiples of 1024): divide out
Unit(rt) == [i \in DOMAIN rt |-> <<rt[i][1] \div LS, rt[i][2] \div LS>>]
Integral(rt) == \A i \in DOMAIN rt : rt[i][1] # SENT /\ rt[i][2] # SENT /\ rt[i][1] % LS = 0 /\ rt[i][2] % LS = 0
D2(a, b) == (a[1] - b[1]) * (a[1] - b[1]) + (a[2] - b[2]) * (a[2] - b[2])
LenLo(a, b) == Isqrt(D2(a, b) * 65536)              \* 2^-8 resolution keeps 65536 * d2 below 2^31 for spans up to 180
LenHi(a, b) == LET s == LenLo(a, b) IN IF s * s = D2(a, b) * 65536 THEN s ELSE s + 1
RECURSIVE Dedup(_)
Dedup(rt) == IF Len(rt) <= 1 THEN rt ELSE IF rt[1] = rt[2] THEN Dedup(Tail(rt)) ELSE <<rt[1]>> \o Dedup(Tail(rt))
Straight(u, c, v) == (c[1] - u[1]) * (v[2] - c[2]) = (c[2] - u[2]) * (v[1] - c[1]) /\ (c[1] - u[1]) * (v[1] - c[1]) + (c[2] - u[2]) * (v[2] - c[2]) > 0
Bends(rt) == Cardinality({i \in 2..(Len(rt) - 1) : ~Straight(rt[i - 1], rt[i], rt[i + 1])})
RECURSIVE SumLo(_, _)
SumLo(rt, i) == IF i >= Len(rt) THEN 0 ELSE LenLo(rt[i], rt[i + 1]) + SumLo(rt, i + 1)
RECURSIVE SumHi(_, _)
SumHi(rt, i) == IF i >= Len(rt) THEN 0 ELSE LenHi(rt[i], rt[i + 1]) + SumHi(rt, i + 1)
CostLo(rt, P) == SumLo(rt, 1) + P * 256 * Bends(rt)
CostHi(rt, P) == SumHi(rt, 1) + P * 256 * Bends(rt)
SameCost(a, b, P) == LET ra == Dedup(Unit(a))  rb == Dedup(Unit(b)) IN CostLo(ra, P) <= CostHi(rb, P) /\ CostLo(rb, P) <= CostHi(ra, P)
\* (every route tag is a pair <<name, symmetry or -1>>: TLC cannot hold strings and tuples in one set)
RouteTags(r) ==
    IF r.thrown THEN {} ELSE
    (IF r.rawA # r.rawB THEN {<<"repeat-raw-route-differs", -1>>} ELSE {})
    \cup (IF r.dispA # r.dispB THEN {<<"repeat-displayed-route-differs", -1>>} ELSE {})
    \* exact clause for raw routes whose coordinates are lattice values (buffered non-rectangular shapes give irrational
    \* offset vertices: those are covered by the 1e-9 clause on the displayed route)
    \cup (IF (\A c \in DOMAIN r.latA : \A i \in DOMAIN r.latA[c] : r.latA[c][i][1] # SENT /\ r.latA[c][i][2] # SENT) /\
             (Len(r.latA) # Len(r.latT) \/ \E c \in DOMAIN r.latA : Len(r.latA[c]) # Len(r.latT[c]) \/
              \E i \in DOMAIN r.latA[c] : r.latT[c][i][1] # r.latA[c][i][1] + r.kx \/ r.latT[c][i][2] # r.latA[c][i][2] + r.ky)
          THEN {IF r.mode = 0 /\ r.buf > 0 /\ \E sh \in DOMAIN r.shapes : Len(r.shapes[sh]) # 4 \/ \E j \in DOMAIN r.shapes[sh] :
                                     LET a == r.shapes[sh][j]  b == r.shapes[sh][(j % Len(r.shapes[sh])) + 1] IN a[1] # b[1] /\ a[2] # b[2]
                THEN <<"translated-raw-route-differs:polyline:buffered-shape-with-slanted-sides", -1>> ELSE <<"translated-raw-route-differs", -1>>} ELSE {})
    \cup (IF ~r.dispShape \/ r.dispDevE12 > 1000
          THEN {IF r.mode = 1 /\ Len(r.latA) = Len(r.latT) /\ \A c \in DOMAIN r.latA : Len(r.latA[c]) = Len(r.latT[c]) /\
                                      \A i \in DOMAIN r.latA[c] : r.latA[c][i][1] = SENT \/ (r.latT[c][i][1] = r.latA[c][i][1] + r.kx /\ r.latT[c][i][2] = r.latA[c][i][2] + r.ky)
                THEN <<"translated-displayed-route-differs:orthogonal:same-raw-routes-nudged-differently", -1>>
                ELSE IF r.mode = 0 /\ r.buf > 0 THEN <<"translated-displayed-route-differs:polyline:buffered-shapes", -1>>
                ELSE <<"translated-displayed-route-differs", -1>>} ELSE {})
    \* (tagged apart: every connector whose cost changes has an end lying exactly on the boundary of a shape -- a point that is
    \*  neither inside nor outside, for which the orientation tests of the visibility code have no symmetric answer)
    \cup {LET CC == {c \in DOMAIN r.latA : Integral(r.latA[c]) /\ Integral(r.sym[t].lat[c]) /\ ~SameCost(r.latA[c], r.sym[t].lat[c], r.P)}
              OnEdge(p, a, b) == (b[1] - a[1]) * (p[2] - a[2]) = (b[2] - a[2]) * (p[1] - a[1])
                                 /\ (p[1] - a[1]) * (p[1] - b[1]) <= 0 /\ (p[2] - a[2]) * (p[2] - b[2]) <= 0
              OnBoundary(p) == \E sh \in DOMAIN r.shapes : \E j \in DOMAIN r.shapes[sh] :
                                   LET a == r.shapes[sh][j]  b == r.shapes[sh][(j % Len(r.shapes[sh])) + 1] IN OnEdge(p, a, b)
              EndOnBoundary(c) == LET u == Unit(r.latA[c]) IN OnBoundary(u[1]) \/ OnBoundary(u[Len(u)])
              \* (tagged apart: every connector whose cost changes has a direction-restricted end)
              Restricted(c) == r.masks[c] # <<15, 15>>
          IN  IF \A c \in CC : EndOnBoundary(c) THEN <<"symmetry-changes-route-cost:an-end-lies-on-a-shape-boundary", r.sym[t].t>>
              ELSE IF \A c \in CC : Restricted(c) THEN <<"symmetry-changes-route-cost:direction-restricted-end", r.sym[t].t>>
              \* (tagged apart: orthogonal routes, a symmetry that swaps the axes, same length, only the number of bends differs)
              ELSE IF r.mode = 1 /\ r.sym[t].t \in {1, 3, 6, 7} /\
                      \A c \in CC : LET ML(rt) == LET u == Unit(rt) IN
                                                  LET RECURSIVE Sm(_) Sm(i) == IF i >= Len(u) THEN 0 ELSE Abs(u[i + 1][1] - u[i][1]) + Abs(u[i + 1][2] - u[i][2]) + Sm(i + 1) IN Sm(1)
                                    IN  ML(r.latA[c]) = ML(r.sym[t].lat[c])
                   THEN <<"symmetry-changes-route-cost:orthogonal:axes-swapped:only-the-bend-count-differs", r.sym[t].t>>
              \* (tagged apart: orthogonal routing, a symmetry that swaps the axes, and some connector of the scene has a direction-restricted end --
              \*  the x/y asymmetry of the search (F43) then also reaches unrestricted connectors of that scene, with different lengths)
              ELSE IF r.mode = 1 /\ r.sym[t].t \in {1, 3, 6, 7} /\ \E c \in DOMAIN r.masks : r.masks[c] # <<15, 15>>
                   THEN <<"symmetry-changes-route-cost:orthogonal:axes-swapped:scene-with-a-direction-restricted-end", r.sym[t].t>>
              \* (tagged apart: polyline routing round buffered shapes with slanted sides: the mitred routing polygon of an acute corner reaches
              \*  far beyond the buffer distance and its vertices are computed in floating point from absolute coordinates -- F23/F48)
              ELSE IF r.mode = 0 /\ r.buf > 0 /\ \E sh \in DOMAIN r.shapes : Len(r.shapes[sh]) # 4 \/ \E j \in DOMAIN r.shapes[sh] :
                                     LET a == r.shapes[sh][j]  b == r.shapes[sh][(j % Len(r.shapes[sh])) + 1] IN a[1] # b[1] /\ a[2] # b[2]
                   THEN <<"symmetry-changes-route-cost:polyline:buffered-shape-with-slanted-sides", r.sym[t].t>>
              ELSE <<"symmetry-changes-route-cost", r.sym[t].t>>
          : t \in {t \in DOMAIN r.sym : ~r.sym[t].thrown /\
              \E c \in DOMAIN r.latA : Integral(r.latA[c]) /\ Integral(r.sym[t].lat[c]) /\ ~SameCost(r.latA[c], r.sym[t].lat[c], r.P)}}
VpscTags(r) == (IF r.A # r.B THEN {"repeat-solver-positions-differ"} ELSE {})
               \* (r.againE9 > 0: somewhere in this history a solve() repeated at once still moved a variable, i.e. IncSolver::solve() had stopped
               \*  before its own fixpoint -- the early exit of F8/F54; where it stops depends on cost magnitudes and on the order of blocks, so
               \*  those records are tagged apart)
               \cup (IF ~r.shape \/ r.devE12 > 1000
                     THEN {IF r.againE9 > 1 THEN "translated-solution-differs:incremental-solver-stops-before-its-fixpoint"
                           \* (an infeasible system has no unique answer: which constraints are given up is the solver's choice)
                           ELSE IF r.unsat THEN "translated-solution-differs:a-constraint-was-reported-unsatisfiable"
                           ELSE "translated-solution-differs"} ELSE {})
               \* (devSat: the placements returned by satisfy() calls of the history -- feasible, not optimal, hence not unique: kept apart)
               \cup (IF r.shape /\ r.devE12 <= 1000 /\ r.devSatE12 > 1000 THEN {"translated-satisfy-result-differs"} ELSE {})
               \* the optimum is unique, so a relabelled and shuffled copy of the problem must give the same placement (1e-6)
               \cup (IF r.ordJudged /\ r.ordIncE9 > 1000
                     THEN {IF r.againE9 > 1 THEN "solution-depends-on-order:incremental-solver-stops-before-its-fixpoint" ELSE "solution-depends-on-order:incremental-solver"} ELSE {})
               \cup (IF r.ordJudged /\ r.ordStaticE9 > 1000 THEN {"solution-depends-on-order:static-solver"} ELSE {})
LayoutTags(r) == IF r.thrown THEN {} ELSE IF r.repeatMaxDiffE9 > 1 THEN {"repeat-layout-differs"} ELSE {}
Tags(r) == IF r.kind = "route" THEN RouteTags(r) ELSE IF r.kind = "vpsc" THEN VpscTags(r) ELSE LayoutTags(r)
VARIABLES k, phase, bad
vars == <<k, phase, bad>>
Init == k \in 0..(NChunks - 1) /\ phase = "todo" /\ bad = {}
Idx(kk) == {i \in (kk * CH + 1)..((kk + 1) * CH) : i <= Len(Recs)}
Eval == /\ phase = "todo" /\ phase' = "done" /\ UNCHANGED k
        /\ bad' = UNION { {<<i, t>> : t \in Tags(Recs[i])} : i \in Idx(k) }
Spec == Init /\ [][Eval]_vars
Reproducible == bad = {}
=============================================================================
