SPECIFICATION Spec
INVARIANT Reproducible
CHECK_DEADLOCK FALSE
