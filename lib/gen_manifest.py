#!/usr/bin/env python3
"""Regenerates MANIFEST.json from the table below (single source of truth)."""
import json, os
CHECKS = {}
NA = {}

def chk(pid, cat, text, note, tech, ref, thorough=True):
    CHECKS[pid] = dict(property_id=pid, quick_cmd='bin/check %s quick' % pid,
                       evidence_file='/verif/evidence/%s.json' % pid,
                       replay_cmd_template='bin/check %s quick --replay {path}' % pid,
                       engine='tla', level_claimed=dict(category=cat, text=text, design_ref=ref),
                       level_note=note, technique=tech)
    if thorough:
        CHECKS[pid]['thorough_cmd'] = 'bin/check %s thorough' % pid

exec(open(os.path.join(os.path.dirname(__file__), 'manifest_table.py')).read())

allp = [json.loads(l)['id'] for l in open('/verif/properties.jsonl')]
doc = {
 'version': 1,
 'setup_cmd': 'make -C /verif/harness CFG=plain libs -j16',
 'hooks': HOOKS,
 'engines': [{'name': 'tla', 'path': '/verif/spec', 'serves_properties': sorted(CHECKS),
              'kind_free_text': 'explicit TLA+ specifications checked with TLC; bound to the code by replaying TLC-generated '
                                'instances/histories into harnesses built from /repo (B1), validating traces/records of the real '
                                'code against the specifications (B2) and TLC refutation searches seeded with the implementation\'s results (B3)'}],
 'checks': [CHECKS[p] for p in allp if p in CHECKS],
 'not_applicable': [{'property_id': p, 'reason': NA.get(p, 'check not built yet in this round (planned in DESIGN.md section 4)')}
                    for p in allp if p not in CHECKS],
 'notes': NOTES,
}
json.dump(doc, open('/verif/MANIFEST.json', 'w'), indent=1)
print('MANIFEST.json: %d checks, %d not_applicable' % (len(doc['checks']), len(doc['not_applicable'])))
