"""Shared machinery for the /verif checks: build, TLC runs, evidence, findings.

Exit-code contract (MANIFEST): 0 = property held on everything explored,
1 = violation (a line "VIOLATION property=<id> replay=<path>" was printed),
2 = the check itself is broken (build failure, TLC error, timeout): never a
VIOLATION line.
"""
import json, os, re, shutil, subprocess, sys, time, hashlib

VERIF = '/verif'
REPO = os.environ.get('VERIF_REPO', '/repo')
BUILD = os.environ.get('VERIF_BUILD', os.path.join(VERIF, 'build'))
SPEC = os.path.join(VERIF, 'spec')
EVID = os.environ.get('VERIF_EVIDENCE', os.path.join(VERIF, 'evidence'))   # self-tests on mutated copies write elsewhere
JAR = '/opt/veriftools/tla/tla2tools.jar:/opt/veriftools/tla/CommunityModules-deps.jar'
NCPU = os.cpu_count() or 4


class Broken(Exception):
    pass


def log(*a):
    print(*a, flush=True)


def seed():
    try:
        return int(os.environ.get('VERIF_SEED', '1'))
    except ValueError:
        return 1


def run(cmd, timeout=None, env=None, cwd=None, check=False, stdin=None):
    e = dict(os.environ)
    if env:
        e.update({k: str(v) for k, v in env.items()})
    if cwd is None:
        # harnesses run in a scratch directory: parts of the libraries write debug files to the current directory
        # (libdialect's orthogonal router: NN_MM_routing_attempt.svg whenever a Logger is passed)
        cwd = os.path.join(BUILD, 'run', 'cwd')
        os.makedirs(cwd, exist_ok=True)
    try:
        p = subprocess.run(cmd, stdout=subprocess.PIPE, stderr=subprocess.STDOUT, timeout=timeout,
                           env=e, cwd=cwd, input=stdin, universal_newlines=True, errors='replace')
    except subprocess.TimeoutExpired as ex:
        out = ex.stdout or ''
        if isinstance(out, bytes):
            out = out.decode('utf-8', 'replace')
        return 124, out
    if check and p.returncode != 0:
        raise Broken('command failed (%d): %s\n%s' % (p.returncode, ' '.join(map(str, cmd)), p.stdout[-4000:]))
    return p.returncode, p.stdout


def build(targets, cfg='plain'):
    """(Re)build libraries/harnesses from /repo's current working tree."""
    t = [os.path.join(BUILD, cfg, x) for x in targets]
    rc, out = run(['make', '-C', os.path.join(VERIF, 'harness'), 'CFG=' + cfg, 'REPO=' + REPO, 'BUILDROOT=' + BUILD, '-j%d' % NCPU] + t,
                  timeout=1500)
    if rc != 0:
        raise Broken('harness build failed:\n' + out[-6000:])
    return [os.path.join(BUILD, cfg, x) for x in targets]


def rundir(name):
    d = os.path.join(BUILD, 'run', name)
    shutil.rmtree(d, ignore_errors=True)
    os.makedirs(d)
    return d


_tlc_counter = [0]


class TlcResult:
    def __init__(self, rc, out, wall):
        self.rc, self.out, self.wall = rc, out, wall
        m = re.findall(r'(\d+) states generated, (\d+) distinct states found', out)
        self.generated = int(m[-1][0]) if m else 0
        self.distinct = int(m[-1][1]) if m else 0
        if not m:
            m2 = re.findall(r'The number of states generated: (\d+)', out) or re.findall(r'Progress: (\d+) states checked', out)
            if m2:
                self.generated = self.distinct = int(m2[-1])
        self.violated = re.findall(r'Error: Invariant (\S+) is violated', out)
        self.errors = [l for l in out.splitlines() if l.startswith('Error:')]
        self.finished = 'Model checking completed' in out or 'Finished in' in out
        self.post_failed = re.search(r'[Pp]ostcondition.* (is )?(false|violated)', out) is not None

    def states_dump(self):
        """State dumps printed after each error: list of dict var->text."""
        res = []
        for blk in re.split(r'\nError: ', '\n' + self.out)[1:]:
            sts = re.findall(r'State \d+: .*?\n((?:.|\n)*?)(?=\n\n|\nState \d+:|\Z)', blk)
            res.append((blk.splitlines()[0], sts))
        return res


TIMEOUTS = []


def tlc(module_path, cfg_path, env=None, workers=None, timeout=900, extra=None, mem='8g', simulate=None,
        deadlock=False, cont=False, seedv=None):
    """Run TLC; module_path is absolute path to X.tla.  Returns TlcResult."""
    _tlc_counter[0] += 1
    meta = os.path.join(BUILD, 'tlc', '%d_%d' % (os.getpid(), _tlc_counter[0]))
    shutil.rmtree(meta, ignore_errors=True)
    os.makedirs(meta)
    libs = os.pathsep.join([os.path.join(SPEC, 'common')] +
                           [os.path.join(SPEC, d) for d in sorted(os.listdir(SPEC))
                            if os.path.isdir(os.path.join(SPEC, d)) and d != 'common'])
    cmd = ['java', '-XX:+UseParallelGC', '-Xmx' + mem, '-DTLA-Library=' + libs, '-cp', JAR, 'tlc2.TLC',
           '-metadir', meta, '-workers', str(workers or NCPU), '-config', cfg_path]
    if not deadlock:
        cmd.append('-deadlock')   # -deadlock switches deadlock checking OFF
    if cont:
        cmd.append('-continue')
    if simulate:
        cmd += ['-simulate', simulate]
    if seedv is not None:
        cmd += ['-seed', str(seedv)]
    if extra:
        cmd += extra
    cmd.append(module_path)
    t0 = time.time()
    rc, out = run(cmd, timeout=timeout, env=env, cwd=os.path.dirname(module_path))
    shutil.rmtree(meta, ignore_errors=True)
    # TLC writes *_TTrace_* files next to the module on errors: remove
    d = os.path.dirname(module_path)
    for f in os.listdir(d):
        if '_TTrace_' in f or f.endswith('.bin'):
            try:
                os.remove(os.path.join(d, f))
            except OSError:
                pass
    r = TlcResult(rc, out, time.time() - t0)
    if rc == 124:
        # a record-level run (-continue) that was cut short has printed the violations it met so far: they are reported.
        # Verdict.finish() turns the run into "check broken" if none of them is a new violation (a timeout is never silently accepted).
        if cont and r.violated:
            TIMEOUTS.append('TLC timed out after %ss on %s' % (timeout, module_path))
            return r
        raise Broken('TLC timed out after %ss on %s' % (timeout, module_path))
    if rc not in (0, 12, 13) and not r.post_failed:
        if r.violated and not r.finished and cont:
            # ended abnormally (killed, out of memory, evaluation error) after printing violations: as for a timeout, what was found is
            # reported, and the check is failed as broken if nothing new was among it
            TIMEOUTS.append('TLC ended abnormally (rc=%d) on %s: %s' % (rc, module_path, out[-300:].replace('\n', ' | ')))
            return r
        if not r.violated:
            raise Broken('TLC failed (rc=%d) on %s:\n%s' % (rc, module_path, out[-5000:]))
    return r


class Died(Exception):
    """A harness process died while running library code (signal, abort, std::terminate, sanitizer stop, or no end within its time
    limit): the libraries "trip none of their own internal assertions, terminate" -- that is a violation to report, not a broken check."""
    def __init__(self, key, what, replay):
        Exception.__init__(self, what)
        self.key, self.what, self.replay = key, what, replay


def harness_exit(name, rc, out, context=None):
    """Called with the non-zero exit status of a harness: raises Died for a death inside library code, Broken otherwise
    (usage error, unreadable input: the harness's own exits are 2 and 3)."""
    tail = (out or '')[-1500:]
    sig = {124: 'did-not-terminate', 134: 'abort', 136: 'fpe', 139: 'segv', -6: 'abort', -8: 'fpe', -11: 'segv', -9: 'killed'}.get(rc)
    if sig is None and ('terminate called' in tail or 'AddressSanitizer' in tail or 'runtime error:' in tail or 'Assertion' in tail):
        sig = 'terminate'
    if sig is None and rc < 0:
        sig = 'signal%d' % -rc
    if sig is None:
        raise Broken('%s failed rc=%d: %s' % (name, rc, tail))
    m = re.search(r"Assertion `([^']*)' failed|expression: (.*)", tail)
    site = re.sub(r'[^A-Za-z0-9_>!=<.()-]+', '', (m.group(1) or m.group(2)))[:50] if m else ''
    raise Died('process-died:%s:%s%s' % (name, sig, (':' + site) if site else ''), '%s died (rc=%d): %s' % (name, rc, tail[-600:].replace('\n', ' | ')),
               {'harness': name, 'rc': rc, 'context': context, 'tail': tail})


class Evidence:
    def __init__(self, pid, tier, level='model_checking'):
        self.pid, self.tier, self.level = pid, tier, level
        self.t0 = time.time()
        self.cov = {'states': 0, 'transitions': 0, 'traces_validated_against_impl': 0, 'samples': [],
                    'evaluations': 0, 'distinct_nontrivial': 0, 'rule': '', 'exhaustive': False,
                    'tlc_runs': [], 'known_findings_seen': []}
        self.assumptions = []
        self.violations = 0

    def add_tlc(self, name, r, note=None):
        self.cov['states'] += r.distinct
        self.cov['transitions'] += r.generated
        d = {'name': name, 'generated': r.generated, 'distinct': r.distinct, 'wall_s': round(r.wall, 1)}
        if note:
            d['note'] = note
        self.cov['tlc_runs'].append(d)

    def sample(self, s, cap=6):
        if len(self.cov['samples']) < cap:
            self.cov['samples'].append(s)

    def write(self):
        os.makedirs(EVID, exist_ok=True)
        doc = {'property_id': self.pid, 'tier': self.tier, 'seed': seed(), 'level': self.level,
               'coverage': self.cov, 'assumptions': self.assumptions,
               'wall_s': round(time.time() - self.t0, 1), 'violations': self.violations}
        with open(os.path.join(EVID, self.pid + '.json'), 'w') as f:
            json.dump(doc, f, indent=1, sort_keys=True)
            f.write('\n')


def known_findings(pid):
    """known-findings.txt: 'known: property=<id> key=<k> <text>' lines."""
    res = {}
    p = os.path.join(VERIF, 'known-findings.txt')
    if os.path.exists(p):
        for l in open(p):
            m = re.match(r'known:\s+property=(\S+)\s+key=(\S+)\s*(.*)', l.strip())
            if m and m.group(1) == pid:
                res[m.group(2)] = m.group(3)
    return res


class Verdict:
    """Collects violations; separates the ones listed in known-findings.txt."""

    def __init__(self, pid, ev):
        self.pid, self.ev = pid, ev
        self.known = known_findings(pid)
        self.seen_known = {}
        self.new = []

    def violation(self, key, what, replay):
        """key: fingerprint of the failing input/call site/history."""
        what = str(what).replace('\n', ' | ')
        if key in self.known:
            self.seen_known.setdefault(key, []).append(what)
            return False
        self.new.append((key, what, replay))
        return True

    def finish(self):
        for k, v in self.seen_known.items():
            log('KNOWN-FINDING: property=%s key=%s %s (%d case(s) this run, e.g. %s)' %
                (self.pid, k, self.known[k][:160], len(v), str(v[0])[:160]))
            self.ev.cov['known_findings_seen'].append({'key': k, 'cases': len(v)})
        self.ev.violations = len(self.new)
        if TIMEOUTS:
            self.ev.cov['tlc_timeouts'] = list(TIMEOUTS)
        if not self.new:
            if TIMEOUTS:
                raise Broken('; '.join(TIMEOUTS) + ' (and nothing new was found in the part that was evaluated)')
            return 0
        hist = {}
        for key, what, replay in self.new:
            hist[key] = hist.get(key, 0) + 1
        log('violations by key: ' + ', '.join('%s x%d' % kv for kv in sorted(hist.items())))
        self.ev.cov['violation_keys'] = hist
        rdir = os.path.join(EVID, 'replays')
        os.makedirs(rdir, exist_ok=True)
        # one replay per distinct key first, then further cases of the same keys
        firsts, rest, seenk = [], [], set()
        for v in self.new:
            (rest if v[0] in seenk else firsts).append(v)
            seenk.add(v[0])
        for i, (key, what, replay) in enumerate((firsts + rest)[:8]):
            path = os.path.join(rdir, '%s-%d-%d.json' % (self.pid, seed(), i))
            with open(path, 'w') as f:
                json.dump({'property': self.pid, 'key': key, 'seed': seed(), 'tier': os.environ.get('VERIF_TIER', 'quick'), 'what': what, 'replay': replay}, f, indent=1, default=str)
            log('VIOLATION property=%s replay=%s' % (self.pid, path))
            log('  key=%s %s' % (key, str(what)[:300]))
        return 1


def stat(out, tag):
    """<<"STAT", tag, chunk, a, b, ...>> lines printed by the record specs, one per chunk (TLC may evaluate an action more than once)."""
    d = {}
    for m in re.finditer(r'<<"STAT", "%s", (\d+)((?:, \d+)+)>>' % tag, out):
        d[int(m.group(1))] = [int(x) for x in m.group(2).split(',')[1:]]
    return list(d.values())


def parse_tla_value(txt):
    """Very small parser for TLC-printed values: ints, strings, sets, tuples, records, functions."""
    s = txt.strip()
    pos = [0]

    def ws():
        while pos[0] < len(s) and s[pos[0]] in ' \n\t\r':
            pos[0] += 1

    def val():
        ws()
        c = s[pos[0]]
        if c == '{':
            pos[0] += 1
            out = []
            ws()
            if s[pos[0]] == '}':
                pos[0] += 1
                return out
            while True:
                out.append(val())
                ws()
                if s[pos[0]] == ',':
                    pos[0] += 1
                    continue
                if s[pos[0]] == '}':
                    pos[0] += 1
                    return out
                raise ValueError('set at %d' % pos[0])
        if s.startswith('<<', pos[0]):
            pos[0] += 2
            out = []
            ws()
            if s.startswith('>>', pos[0]):
                pos[0] += 2
                return out
            while True:
                out.append(val())
                ws()
                if s[pos[0]] == ',':
                    pos[0] += 1
                    continue
                if s.startswith('>>', pos[0]):
                    pos[0] += 2
                    return out
                raise ValueError('tuple at %d' % pos[0])
        if c == '[':
            pos[0] += 1
            out = {}
            while True:
                ws()
                m = re.match(r'([A-Za-z_][A-Za-z0-9_]*)\s*\|->', s[pos[0]:])
                if not m:
                    raise ValueError('record at %d' % pos[0])
                pos[0] += m.end()
                out[m.group(1)] = val()
                ws()
                if s[pos[0]] == ',':
                    pos[0] += 1
                    continue
                if s[pos[0]] == ']':
                    pos[0] += 1
                    return out
        if c == '(':
            pos[0] += 1
            out = {}
            while True:
                k = val()
                ws()
                assert s.startswith(':>', pos[0])
                pos[0] += 2
                out[json.dumps(k)] = val()
                ws()
                if s.startswith('@@', pos[0]):
                    pos[0] += 2
                    continue
                if s[pos[0]] == ')':
                    pos[0] += 1
                    return out
        if c == '"':
            e = s.index('"', pos[0] + 1)
            r = s[pos[0] + 1:e]
            pos[0] = e + 1
            return r
        m = re.match(r'-?\d+', s[pos[0]:])
        if m:
            pos[0] += m.end()
            return int(m.group(0))
        m = re.match(r'[A-Za-z_][A-Za-z0-9_]*', s[pos[0]:])
        if m:
            pos[0] += m.end()
            w = m.group(0)
            return {'TRUE': True, 'FALSE': False}.get(w, w)
        raise ValueError('value at %d: %r' % (pos[0], s[pos[0]:pos[0] + 30]))

    return val()


def parse_state(txt):
    """'/\\ var = value' lines of one printed state -> dict."""
    vals = {}
    for m in re.finditer(r'(?:^|\n)/\\ (\w+) = ((?:.|\n)*?)(?=\n/\\ \w+ = |\Z)', txt):
        try:
            vals[m.group(1)] = parse_tla_value(m.group(2))
        except Exception:
            vals[m.group(1)] = m.group(2).strip()
    return vals


def violating_states(r):
    """For runs with -continue: list of (invariant, {var: parsed value}) for the last state of every reported violation
    (handles both 'is violated.' + behaviour and 'is violated by the initial state:')."""
    res = []
    parts = re.split(r'Error: Invariant (\S+) is violated([^\n]*)\n', r.out)
    for i in range(1, len(parts), 3):
        inv, how, body = parts[i], parts[i + 1], parts[i + 2]
        if 'initial state' in how:
            res.append((inv, parse_state(body.split('\n\n')[0])))
            continue
        states = re.split(r'\nState \d+: [^\n]*\n', '\n' + body)
        if len(states) < 2:
            res.append((inv, {}))
            continue
        last = states[-1].split('\n\n')[0]
        res.append((inv, parse_state(last)))
    return res


def emitted_histories(out):
    """JSON histories printed by a specification as PrintT(<<"HIST", ToJson(hist)>>) (TLC may wrap the tuple over lines)."""
    return sorted(set(m.replace('\\"', '"') for m in re.findall(r'"HIST",\s*"(\[.*?\])"\s*>>', out, flags=re.S)))
