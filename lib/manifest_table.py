HOOKS = dict(guard='ADAPTAGRAMS_VERIF',
             enable='checks compile /repo/cola/lib*/*.cpp into /verif/build/<cfg>/ with -DADAPTAGRAMS_VERIF -DUSE_ASSERT_EXCEPTIONS (harness/Makefile)',
             baseline_off_cmd='make -C /repo/cola -k check',
             source_commits=['31cf118'], add_only=True)
NOTES = ('See DESIGN.md. bin/check <Cnn> quick|thorough is the single entry point; exit 2 = check broken (never a VIOLATION). Thorough tiers of most checks run several rounds with further seeds (ROUNDS in bin/check; VERIF_ROUNDS overrides), stopping at the first round with a violation. Hook commit in /repo: 31cf118 (H1: IncSolver step events in '
         'libvpsc/solve_VPSC.{h,cpp}, guarded by ADAPTAGRAMS_VERIF, add-only). Repairs of genuine defects in /repo (unguarded "fix:" commits): a92ac61, a8080b2, 7e61e2d, 6e1feea, 43c244c, 41ebabe, e517133, f673802, 7f15c51, 98eb188; '
         'recorded in known-findings.txt as "fixed:" lines; defects recorded rather than repaired are the "known:" lines of that file (DESIGN 6b).')

chk('C16', 'model_checking',
    'Every entry of the exhaustive result tables of the real geometry predicates (all 3-/4-point tuples of a 5x5 (quick) / 6x6 (thorough) grid, '
    'all triangles and quadrilaterals of a 4x4 / 5x5 grid x all query points, random tuples up to 2^20) is re-derived by TLC from the exact '
    'integer/rational definitions in Geom.tla; symmetry lemmas of those definitions are model-checked over the grid, so table equality '
    'transfers symmetry to the code. Exhaustive within the stated grids, which is what the property quantifies over.',
    'Trusts TLC integer arithmetic and the JSON table transport; polygons positively wound.',
    'TLA+ exact-geometry specification; TLC re-derives implementation result tables (records as parallel chunks)', '4/C16')

chk('C01', 'model_checking',
    'Design level: TLC explores the algorithm-shaped specification of IncSolver (Vpsc.tla: one action per critical section of solve/satisfy/splitBlocks/mostViolated) '
    'for every instance of the bounded class (n=3, all multisets of <=2 constraints over ordered pairs x gaps -1..2 x {<=,=}, all tie-breaks) and checks '
    'HoldsOrFlagged, FlagIffInfeasible (positive-cycle oracle), Forest, Tight in every state. Conformance: hook-H1 step traces of the real solver on the same '
    'TLC-enumerated instances plus seeded re-solve histories are validated line by line against the specification with all invariants evaluated at every step; '
    'results of IncSolver, the static Solver and libavoid\'s copy (fresh, permuted, live re-solves, scaled, medium n<=12) are judged by the declarative VpscQP.',
    'Bounds: exhaustive n=3; step traces only for total weight <=7; lattice resolution ~4e-6; the static solver\'s known defects F2/F3 are listed in known-findings.txt. Extra stage beyond the statement: RedundantEq.tla (constraintsRemovingRedundantEqualities of both VPSC copies returns a subsequence with the same solutions; every list of <=3 constraints over 3 variables + random lists).',
    'TLA+ algorithm spec + declarative QP oracle; TLC BFS/simulation; hook-trace validation; record validation', '4/C01')
chk('C02', 'model_checking',
    'Same pipeline as C01 with the optimality invariants: KKT and Optimal (= the best feasible active-set candidate, computed by the specification independently of '
    'split/merge) on every returned state of the model and of every recorded execution; record level: exact KKT certificate (forest optimum in rationals, multipliers >= 0) '
    'or exhaustive active-set enumeration, compared with the implementation\'s positions at 1e-5, for permuted/relabelled/scaled/medium instances and live re-solves.',
    'As C01. F8 (early exit of IncSolver::solve on re-solve) and F3 are known findings.',
    'TLA+ algorithm spec + declarative QP oracle; TLC BFS/simulation; hook-trace validation; record validation', '4/C02')

chk('C17', 'model_checking',
    'ShortestPaths.tla defines distances by a Bellman-Ford fixpoint and an O(nm) certificate (potential inequalities + reachability in the tight-edge subgraph); '
    'TLC proves certificate == Bellman-Ford on every multigraph of the small class (and that every single-entry perturbation is rejected), enumerates every multigraph '
    'on 4 nodes with <=3 (quick) / <=4 (thorough) edges incl. self-loops, parallel and zero-weight edges for replay, and judges the matrices the real dijkstra / johnsons / '
    'floyd_warshall / ConstrainedFDLayout::readLinearD,G return for those and for seeded random graphs up to 100 / 200 nodes. Exact equality on a 1/8 weight lattice.',
    'Weights are multiples of 1/8 (sums exact in doubles). floyd_warshall was repaired (fix: commit) after this check found F1. Extra stage beyond the statement: Heap.tla / HeapTrace.tla (the PairingHeap under Dijkstra and VPSC: call histories generated from the specification, every recorded call of the real heap validated). Also beyond the statement: cola::connectedComponents / separateComponents (connected_components.cpp, an anchored file) judged on every record by ComponentsOK / SeparateOK of ShortestPaths.tla.',
    'TLA+ Bellman-Ford/certificate specification; TLC-enumerated multigraphs replayed; record validation', '4/C17')

chk('C09', 'model_checking',
    'RemoveOverlaps.tla states what removeoverlaps and the scan-line generators must deliver: no pair overlapping in both axes, sizes unchanged, borders restored, fixed rectangles '
    '(pairwise disjoint at entry) displaced < 1% of the average size; generated constraint sets acyclic and -- by difference-constraint theory, longest paths in the constraint DAG -- '
    'forcing a separation of at least the half-sizes sum for every pair that overlaps on the other axis (necessary and sufficient). TLC enumerates every multiset of 2 rectangles on a '
    '4x4 (quick) / 6x6 (thorough) grid and of 3 on a 3x3 / 4x4 grid for replay (all fixed subsets x thirdPass, some with borders) and judges the recorded results of those and of seeded sets up to 30 rectangles, and the results (no overlap, sizes, borders) of sets of 100..300 (quick) / 100..400 (thorough) rectangles.',
    'Output observed on a 2^-20 lattice. F14 / F20 (fixed rectangles moved through chains) are known findings recognised from axis-tight contact chains in the output.',
    'TLA+ declarative specification (difference-constraint theory); TLC-enumerated rectangle sets replayed; record validation', '4/C09')

chk('C05', 'model_checking',
    'OrthoPath.tla is a unit-step path model on the integer grid (a step is blocked iff its midpoint is strictly inside a rectangle; direction masks restrict first/last step). '
    'B2: every recorded raw route must be a behaviour of that model (ends, exact axis-parallelism, freedom of every unit step, masks). B3: TLC searches the Hanan grid for a route '
    'cheaper (length + P*bends, cost computed by the specification) than the implementation\'s; a hit is a concrete cheaper route. Scenes: TLC-enumerated sets of <=2 separated rectangles '
    'on the even lattice, endpoints on the odd lattice, P in {1,3,10,50} and {0.001, 0.008, 0.05, 0.5} (costs then counted in thousandths), masks {all, single, opposite pairs}. Bends.tla: all 128 entries of the real Avoid::bends() are refuted-or-not against '
    'the free-plane bend model (admissibility).',
    'One connector per router (other connectors\' endpoints are not obstacles in the statement). With direction restrictions the oracle is "no cheaper route on the Hanan grid". '
    'F22 (direction-restricted endpoints give non-minimal routes) is a known finding.',
    'TLA+ path model; trace validation of routes; TLC refutation search seeded with the implementation\'s cost', '4/C05')

chk('C04', 'model_checking',
    'PolyPath.tla: Visible(p,q) is the textbook definition (open segment meets no open obstacle interior, exact rational clipping); B2: every segment of every recorded raw route must be Visible '
    'and the route must join the endpoints; B3: TLC searches the visibility graph of obstacle corners for a route whose upper length bound is below the lower bound of the implementation\'s route '
    '(integer-square-root intervals at 2^-11); with P>0 over taut paths with P per bend. Scenes: TLC-enumerated sets of <=2 separated convex obstacles (rectangles, right triangles, diamonds), '
    'free-space endpoints, P in {0,3,10}.',
    'Length resolution ~1e-3 (the statement asks 1e-6): shorter detours are not detected. P>0 optimality is over taut paths (DESIGN 1, reading (a)). One connector per router.',
    'TLA+ visibility-graph path model; trace validation of routes; TLC refutation search seeded with the implementation\'s length', '4/C04')

chk('C03', 'model_checking',
    'RouteValid.tla judges every displayed route (after nudging, with buffer, both modes): at least two points, starts/ends at the attachments, orthogonal segments axis-parallel, and no segment meets '
    'the open interior of a shape not containing an endpoint -- decided exactly by the separating-axis theorem with orientation tests on the 2^-10 lattice, with a 2-unit tolerance that can only miss shallow '
    'penetrations. The antecedent "an obstacle-free path exists" is decided by TLC reachability in PolyPath.tla for every suspicious record. Scenes: TLC-enumerated sets of <=2 rectangles / convex polygons '
    '(touching and collinear sides included) and seeded random scenes (<=8 shapes, <=6 connectors, buffer 0|2, all nudging option combinations, ends inside shapes), every chain of three touching rectangles of the enumerated family in every insertion order, rows A|B|C of butted rectangles whose outer corners lie inside opposite sides of the middle one, and object-level histories (nested connectors between side pins next to a wall) whose processing-point records are judged by the same RouteValid.',
    'Known findings: F13 (option nudgeOrthogonalSegmentsConnectedToShapes moves free endpoints), F4, F23 (mitred buffer polygon at acute corners), F11 (nudging assertion).',
    'TLA+ declarative route-validity specification (separating-axis predicate); record validation; TLC reachability for the antecedent', '4/C03')

chk('C06', 'model_checking',
    'RouterApi.tla models the Router as the API user sees it: scene + action queue with the de-duplication rules of addShape/moveShape (relative, and absolute = resize)/deleteShape/modifyConnector, one action per public call, '
    'transactions on and off; TLC checks for every interleaving (bounded) that the queue stays well formed and that the processed scene is what the calls add up to. Histories are behaviours of that '
    'specification (TLC simulation) replayed on one long-lived Router; RouterTrace.tla validates call sequence + the scene the code reports at every processing point; RouteInc.tla judges every route at every '
    'processing point: valid for the final scene (RouteValid), cost(incremental) <= cost(fresh router) as integer-square-root intervals, a no-op transaction changes nothing (bit-exact). Besides the TLC-generated histories: hand-written families that are behaviours of the same specification (shapes butted against each other, a wall moved next to a route, an end inside a shape that is then moved away, two connectors sharing a visibility edge that a later shape blocks) and a shapes-only profile.',
    'Rectangular shapes, 3 shapes / 2 connectors, documented preconditions and interior-disjointness as generator rules. The dead selective-reroute test was repaired (fix: commit a8080b2). F4 is a known finding.',
    'TLA+ API state machine; TLC-generated histories replayed; trace validation; record validation against a fresh router', '4/C06')

chk('C10', 'model_checking',
    'Nudge.tla judges raw route R and displayed route D of every connector of a scene: D keeps R\'s first and last point, has no more segments, still visits every checkpoint; interior segments of two '
    'connectors without a common endpoint are not collinear-overlapping when the channel between the nearest immovable things (buffered obstacle sides, first/last segments) has room; parallel interior '
    'segments are coincident or at least d/10 apart. Scenes: corridor family (width 0..40 x 2..4 connectors x option/distance combinations), seeded random scenes with checkpoints, pin-attached families replayed through the object-level harness (segments hugging an obstacle side next to a fixed end segment; two checkpoints on one stretch followed by a z-bend that nudging centres), rows of aligned checkpoints.',
    'Known findings F13 (option moves endpoints/checkpoints), F11/F25/F34 (nudging assertions; F11 also kills the process), F26 (checkpoint excursion dropped), F35 (shared path ending at one connector\'s endpoint with nudgeSharedPathsWithCommonEndPoint off). Channel = common free interval of the whole sharing segments, room for k+1 spacings; segments carrying a checkpoint count as immovable. The reduced nudging distance is not observable: distances below d/10 are reported as observations only (DESIGN 10). Extra stage beyond the statement: Simplify.tla -- Polygon::simplify() with the live checkpoint cache that nudging reads (design model of the loop checked by TLC, every enumerated instance replayed through the real function and judged by the same postcondition); it found F67, repaired by fix: commit 98eb188.',
    'TLA+ declarative nudging specification + design model of Polygon::simplify (TLC); record validation of raw/displayed route pairs; TLC-enumerated instances replayed', '4/C10')

chk('C15', 'model_checking',
    'Lifecycle.tla models the ownership protocol of libavoid at object granularity (shapes, pins, junctions, connectors: unborn/queued/live/dying/freed; connector ends, pins and hyperedge registrations as references; '
    'documented preconditions as enabling conditions; transactions on/off). TLC checks for all legal histories to a depth that no reference to a freed object exists in any state. Histories are behaviours of the '
    'specification (TLC simulation) replayed on an ASan+UBSan+LSan build of the real library; every completed execution is trace-validated against Lifecycle (each call an enabled action; at every processing point the live object sets, the shape rectangles and what every '
    'connector end is attached to -- pin class of a shape, junction, free point -- equal the model\'s); an execution that ends in a failed assertion, sanitizer report, crash or non-termination is rejected and reported. The hyperedge scenarios of C12 (junctions of degree 4..5, both improvement options, registration by junction or terminal list, follow-up transactions) are replayed on the same sanitizer build; the executions that ended cleanly are run once more in one process so that the exit report of LeakSanitizer can be attributed (one finding per libavoid allocation site). A last stage runs the conformance harnesses of the other four libraries (libvpsc, libcola, libtopology, libdialect, and the shortest-paths/heap templates) on the same sanitizer build over TLC-generated/seeded inputs and reports any sanitizer finding per allocation or access site.',
    'Memory errors / UB below object level are seen by the sanitizers on the replayed histories, not by the specification; the object-level protocol model is libavoid only (2 shapes, 1 junction, 3 connectors), the other libraries are covered by the sanitizer stage alone. F10, F17, F18, F27, F37, F50 (libdialect leaks) and F61 (hyperedge improver leak) are known findings; F16, F7 and F49 were repaired (fix: commits 7e61e2d, 41ebabe, e517133).',
    'TLA+ object-lifecycle protocol; TLC-generated API histories replayed on a sanitizer build; trace validation', '4/C15')

chk('C11', 'model_checking',
    'Pins.tla judges the projection recorded at every processing point of API histories that are behaviours of Lifecycle.tla: pin positions are re-derived from the pin definition and the CURRENT shape rectangle '
    '(so pins follow moves/resizes); every pin-attached end lies on a pin of its class with an existential matching in which no exclusive pin serves two ends; orthogonal routes leave pins in a permitted direction '
    '(positive buffer); junction ends end at the junction; checkpoints are visited in order. Capacity histories: every subset of the exclusive pins of one class on a shape with exactly as many connectors attached.',
    'Executions that crash belong to C15. Demand beyond pin capacity is outside ("provided a free pin exists"). 2 shapes, pin catalogue of 10 (two pins of one class at one place differing in inside offset included), 3 connectors. The transaction mode is switched only with an empty action list. Known findings F39, F40, F41, F60.',
    'TLA+ protocol-generated histories replayed; record validation with existential pin matching', '4/C11')
chk('C12', 'model_checking',
    'Hyperedge.tla builds the abstract graph (junction nodes, one leaf per non-junction connector end, an edge per connector) from the projection recorded after registerHyperedgeForRerouting + processTransaction '
    'and after a follow-up transaction, and requires: one tree, leaves exactly the terminals the hyperedge was built with, no junction leaf, both ends of every connector attached, routes joining the positions of '
    'the attached objects, reported new/deleted lists consistent with the live objects. Every snapshot after a processTransaction() is judged (the improver runs whether or not the hyperedge is registered). Scenarios are TLC-enumerated over two geometries: every set of 3..4 pin terminals of three shapes, and every set of 4..5 terminals around a junction that has shapes straight above and below it and two or three further along one line (shared paths, degree 4..5), x junction position x improvement options x follow-up (none, the shape of a terminal moved, an empty transaction, the shape of a terminal and every junction moved in one transaction); both kinds of registration: by root junction, and by a list of terminal ConnEnds (no junction or connector exists beforehand, the rerouter creates them).',
    'Orthogonal routing only (hyperedge rerouting is orthogonal). F12, F28 and F29 are known findings; F51 (terminal-list registration left every terminal end unattached) was repaired (fix: commit f673802).',
    'TLA+ declarative tree/terminal specification; TLC-enumerated scenarios replayed; record validation', '4/C12')

chk('C18', 'model_checking',
    'SepCo.tla gives SepPair a meaning (sign bit kept apart from magnitude so that -0 is representable), defines the eight symmetries on placements and TLC checks they satisfy the relations of D4; the full '
    'table of the real SepPair::addSep / transform (160 rows x 7 transforms, their 49 compositions in the thorough tier, 4-fold/2-fold powers), the SepMatrix path under both id orders and the generated vpsc '
    'constraints are checked row by row against ALL placements of two sized nodes in a window: Sat(p, c) <=> Sat(T(p), T_impl(c)). Tglf.tla defines equivalence of abstract graphs for the round trip.',
    'Gaps multiples of 1/4, even sizes. Negative finite gaps are checked for commutation only (their documented meaning is not stated).',
    'TLA+ semantic specification of constraints and symmetries; exhaustive table re-derivation; record validation for the round trip', '4/C18')
chk('C19', 'model_checking',
    'Peel.tla: peeling as a nondeterministic process (strip any node of degree one); TLC shows confluence -- every maximal run ends in the 2-core -- for every simple connected graph on 5 (quick) / 6 (thorough) '
    'nodes and every stripping order, enumerates those graphs for replay, and judges the decomposition the library returns (core = that unique 2-core; trees acyclic, connected, sharing only their roots with the '
    'core; every edge in exactly one part), connected components (partition of nodes and edges) and symmetric tree layouts (no two nodes on one point, no two node boxes overlapping; uniform and mixed narrow/wide node sizes, all four growth directions; bushy trees with isomorphic sibling subtrees) for those and seeded random graphs up to 60 nodes. '
    'Planar.tla states what OrthoPlanariser::planarise() must return for an orthogonally routed graph: original nodes present and in place, every edge an axis-parallel segment between two nodes, no two edges '
    'meeting except in a common end node, every original edge still a chain through new nodes only, and the set of unit steps covered by the planar edges equal to that covered by the routes; TLC enumerates '
    'the routed graphs of a 3x3 grid (straight and L routes) for replay and judges those and seeded random routed graphs (<=40 nodes, straight/L/Z routes, crossings and overlapping stretches).',
    'peel() only on connected graphs (the statement). The planariser is fed grid routes directly (not LeaflessOrthoRouter output); routes stay clear of third nodes. Faces (faces.cpp) are not checked.',
    'TLA+ confluence model of peeling + declarative planarity specification; TLC-enumerated graphs replayed; record validation', '4/C19')

chk('C07', 'model_checking',
    'Compound.tla gives each compound constraint type its documented meaning over rectangle centres on the 1e-4 lattice (separation, alignment with offsets, boundary as "a separating line exists", '
    'multi-separation and distribution over alignment guides, fixed-relative offsets) and judges every recorded layout run: every constraint not reported through the unsatisfiable-constraint lists holds, '
    'sizes unchanged, all coordinates finite. Runs: seeded graphs (edgeless, disconnected, coincident nodes), satisfiable and contradictory mixes in both dimensions, overlap avoidance, neighbour stress, '
    'makeFeasible on/off, both layout classes; a run that does not terminate is a violation. makeFeasible() alone is judged where nothing needs reporting: separations without a positive cycle (any overlap setting), and -- without overlap avoidance -- separations, equalities and alignments whose difference-constraint graph has no positive cycle (redundantly constrained pairs, chains through a third node).',
    'fixPos() and page boundaries are weighted preferences, not asserted. F31 (makeFeasible did not terminate) was repaired (6e1feea); F36 (run() leaves an unreported constraint violated) and F52 (makeFeasible() drops a feasible equality/alignment silently) are known findings.',
    'TLA+ declarative constraint semantics; record validation of layout runs', '4/C07')
chk('C08', 'model_checking',
    'Same specification module: with overlap avoidance on, makeFeasible()+run() and nothing reported, no non-exempt pair of node rectangles overlaps by more than 1e-3 in both axes, member bounding boxes of '
    'sibling clusters are disjoint and no foreign node lies inside a cluster\'s member box. Runs biased to heavy overlap, coincident and nested rectangles, exemption groups, two rectangular clusters with padding/margin.',
    'Rectangular clusters, one level. Runs with reported constraints are counted, not judged (the statement\'s antecedent).',
    'TLA+ declarative non-overlap/containment semantics; record validation of layout runs', '4/C08')

chk('C20', 'model_checking',
    'Determinism.tla judges recorded pairs: the same call sequence twice with unrelated work and allocations in between must give bit-identical raw and displayed routes and solver positions (doubles recorded as '
    'limb triples, tuple equality = bit equality) and layout positions within 1e-9; a scene/problem translated by k*2^-10 must give the raw route translated exactly (lattice arithmetic) and displayed/solver results '
    'within 1e-9; under each of the 7 non-identity symmetries of the square every connector keeps its raw-route cost (exact integers for orthogonal, integer-square-root intervals for polyline). '
    'Independence of VPSC results from ids/order: every acyclic inequality system (6..19 variables, forks and diamonds) is solved by both solvers as given and as a relabelled, shuffled copy, the placements must agree to 1e-6; permuted and reversed copies are also judged against one oracle optimum in C02.',
    'Same process only. Option nudgeOrthogonalSegmentsConnectedToShapes (F13) switched off. Fixed-relative constraints left out of the layout repeats (F31).',
    'TLA+ record specification with bit-exact limb comparison and exact lattice translation', '4/C20')

chk('C13', 'model_checking',
    'Topology.tla judges every state recorded after every TopologyConstraints::solve() of axis-alternating layout steps (the sequence ColaTopologyAddon::moveTo performs): nodes do not overlap, no segment '
    'meets the interior of a node other than its end nodes (separating-axis test on the 1/16 lattice), paths keep their end nodes, every bend sits on a corner of its node; and for every single-axis step the '
    'number of crossings of each edge with each node\'s centre line on either side of the centre is unchanged -- which is exactly what pulling an edge through a node would flip. After the drag, one node (mostly the dragged one, whose corners now carry bends) is resized through topology::applyResizes and the resulting state is judged by the state clauses.',
    'Initial edges are straight and clear all other nodes, except in the wrapped family (an edge that starts bent round two corners of each of two nodes; one node is then raised exactly onto the line of the other and one slides along it); one node dragged with weight 10000, in 40% of the scenes followed by a drag of a second node (a new TopologyConstraints instance per move, as ColaTopologyAddon builds them); 4..9 nodes, plus a family of two abutting nodes with an edge through the gap between their facing corners. Motion inside one solve() is not observed. F62 (an edge in the zero-width gap between abutting nodes ends in a failed library assertion, keyed by configuration, asserting function and the reason the library prints) is a known finding.',
    'TLA+ state invariants + single-axis step property; record validation of solver steps', '4/C13')
chk('C14', 'model_checking',
    'HolaPipeline.tla judges the graph handed back by every doHOLA() run on the 1/64 lattice: same node ids and edge set, sizes unchanged, no two nodes overlapping, every route made of axis-parallel '
    'segments from one end node to the other (within the per-side node padding 0.25*IEL/2) and clear of every third node, and every separation constraint compiled from the returned SepMatrix '
    '(SepPair::generateSeparationConstraint, meaning as in SepCo.tla) satisfied by the returned centres. The Logger seam supplies the last logged state of the planar graph P, which the spec uses to '
    'tell a stale constraint of the core from a constraint the returned positions were solved under.',
    'Seeded random connected simple graphs of 2..14 (quick) / 2..25 (thorough) nodes in the shapes the property lists, catalogue node sizes, plus trees with isomorphic sibling subtrees and narrow/wide nodes mixed (30 against 200), random start positions, 128 option vectors (ACA|chains, near-alignment, convex trees, aspect preference, preferred tree growth direction). '
    'Runs that leave by std::runtime_error ("No feasible expansions", "Infeasible collateral tree sep") return no drawing and are counted, not judged. Tolerance 2/64. Phase-by-phase invariants are not checked.',
    'TLA+ postcondition over recorded doHOLA results; Logger-seam state of the planar graph', '4/C14')
