HOOKS = dict(guard='ADAPTAGRAMS_VERIF',
             enable='checks compile /repo/cola/lib*/*.cpp into /verif/build/<cfg>/ with -DADAPTAGRAMS_VERIF -DUSE_ASSERT_EXCEPTIONS (harness/Makefile)',
             baseline_off_cmd='make -C /repo/cola -k check',
             source_commits=[], add_only=True)
NOTES = 'See DESIGN.md. bin/check <Cnn> quick|thorough is the single entry point; exit 2 = check broken (never a VIOLATION).'

chk('C16', 'model_checking',
    'Every entry of the exhaustive result tables of the real geometry predicates (all 3-/4-point tuples of a 5x5 (quick) / 6x6 (thorough) grid, '
    'all triangles and quadrilaterals of a 4x4 / 5x5 grid x all query points, random tuples up to 2^20) is re-derived by TLC from the exact '
    'integer/rational definitions in Geom.tla; symmetry lemmas of those definitions are model-checked over the grid, so table equality '
    'transfers symmetry to the code. Exhaustive within the stated grids, which is what the property quantifies over.',
    'Trusts TLC integer arithmetic and the JSON table transport; polygons positively wound.',
    'TLA+ exact-geometry specification; TLC re-derives implementation result tables (records as parallel chunks)', '4/C16')
