// PairingHeap harness (Heap.tla / HeapTrace.tla): replays call histories on two PairingHeap objects and logs every call with its
// observable results as ndjson.   h_heap run <histories.txt> <out.ndjson>
// history line: "nops (op args)*": 1 h v insert | 2 h deleteMin | 3 handle v decreaseKey | 4 merge(B into A) | 5 h makeEmpty
#include "vtrace.h"
#include <fstream>
#include <vector>
#include <map>
#include "libvpsc/pairing_heap.h"
struct El { int v, handle; };
struct ElLess { bool operator()(const El &a, const El &b) const { return a.v < b.v; } };
typedef PairingHeap<El, ElLess> Heap;
static void obs(vt::J &j, Heap &A, Heap &B)
{
    j.k("sizeA").i(A.size()).k("sizeB").i(B.size()).k("emptyA").b(A.isEmpty()).k("emptyB").b(B.isEmpty());
    j.k("minA").i(A.isEmpty() ? -1 : A.findMin().v).k("minB").i(B.isEmpty() ? -1 : B.findMin().v);
}
int main(int argc, char **argv)
{
    if (argc < 4 || std::string(argv[1]) != "run") return 2;
    std::ifstream in(argv[2]); vt::Out out(argv[3]);
    int nops;
    while (in >> nops) {
        Heap *A = new Heap(), *B = new Heap();
        std::vector<PairNode<El> *> node; std::vector<int> where;   // per handle (1-based): node, heap (0/1) or -1 when gone
        { vt::J j; j.obj().k("op").s("reset").end(); out.line(j); }
        for (int k = 0; k < nops; k++) {
            int op; in >> op; vt::J j; j.obj();
            if (op == 1) { int h, v; in >> h >> v; El e{v, (int)node.size() + 1}; node.push_back((h == 0 ? A : B)->insert(e)); where.push_back(h);
                           j.k("op").s("insert").k("h").i(h).k("v").i(v).k("e").i(e.handle); }
            else if (op == 2) { int h; in >> h; Heap *H = h == 0 ? A : B;
                                if (H->isEmpty()) { j.k("op").s("skip").end(); out.line(j); continue; }
                                El e = H->extractMin(); where[e.handle - 1] = -1; j.k("op").s("deleteMin").k("h").i(h).k("got").i(e.v).k("e").i(e.handle); }
            else if (op == 3) { int hd, v; in >> hd >> v;
                                if (hd < 1 || hd > (int)node.size() || where[hd - 1] < 0 || v > node[hd - 1]->element.v) { j.k("op").s("skip").end(); out.line(j); continue; }
                                El e{v, hd}; (where[hd - 1] == 0 ? A : B)->decreaseKey(node[hd - 1], e); j.k("op").s("decreaseKey").k("e").i(hd).k("v").i(v); }
            else if (op == 4) { A->merge(B); for (auto &w : where) if (w == 1) w = 0; j.k("op").s("merge"); }
            else { int h; in >> h; (h == 0 ? A : B)->makeEmpty(); for (auto &w : where) if (w == h) w = -1; j.k("op").s("makeEmpty").k("h").i(h); }
            obs(j, *A, *B); j.end(); out.line(j);
        }
        // drain: everything that is left comes out in non-decreasing order (logged as ordinary deleteMin calls)
        for (int h = 0; h < 2; h++) { Heap *H = h == 0 ? A : B;
            while (!H->isEmpty()) { El e = H->extractMin(); where[e.handle - 1] = -1; vt::J j; j.obj().k("op").s("deleteMin").k("h").i(h).k("got").i(e.v).k("e").i(e.handle); obs(j, *A, *B); j.end(); out.line(j); } }
        delete A; delete B;
    }
    return 0;
}
