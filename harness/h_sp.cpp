// C17 harness: shortest-path routines and the layout distance matrix.
//   h_sp recs <graphs.txt> <out.json>     graphs.txt: "n m (u v w8)*m" per line, 1-based nodes, weights in 1/8
//   h_sp gen <count> <seed> <out.txt> <maxn>
#include "vtrace.h"
#include <fstream>
#include <cfloat>
#include <valarray>
#include "libcola/shortest_paths.h"
#include "libcola/cola.h"
#include "libcola/connected_components.h"

static long long enc(double d)
{
    if (d == DBL_MAX) return -1;
    double x = d * 8.0;
    if (!std::isfinite(x) || x != std::floor(x) || std::fabs(x) > 1e9) return -2;   // not an exact lattice value
    return (long long)x;
}

int main(int argc, char **argv)
{
    if (argc >= 6 && std::string(argv[1]) == "gen") {
        vt::Rng rng(strtoull(argv[3], 0, 10)); int maxn = atoi(argv[5]);
        FILE *f = fopen(argv[4], "w");
        for (int i = 0; i < atoi(argv[2]); i++) {
            int n = rng.range(2, maxn);
            int comps = rng.coin(1, 3) ? rng.range(2, 3) : 1;       // force disconnected graphs
            int m = rng.range(n / 2, 2 * n);
            fprintf(f, "%d %d", n, m);
            for (int e = 0; e < m; e++) {
                int u = rng.range(1, n), v = rng.range(1, n);
                if (comps > 1) v = ((v - 1) / comps) * comps + ((u - 1) % comps) + 1;   // same residue class
                if (v > n) v = u;
                int w = rng.coin(1, 8) ? 0 : rng.range(1, 40);
                fprintf(f, " %d %d %d", u, v, w);
            }
            fprintf(f, "\n");
        }
        fclose(f);
        return 0;
    }
    if (argc < 4 || std::string(argv[1]) != "recs") return 2;
    std::ifstream in(argv[2]);
    vt::Out out(argv[3]);
    out.line(std::string("{\"chunk\":") + (argc > 4 ? argv[4] : "40") + ",\"recs\":[");
    int n, m; bool first = true;
    while (in >> n >> m) {
        std::vector<std::pair<unsigned, unsigned> > es(m);
        std::valarray<double> ws(m);
        std::vector<int> w8(m);
        for (int e = 0; e < m; e++) { int u, v, w; in >> u >> v >> w; es[e] = std::make_pair(u - 1, v - 1); ws[e] = w / 8.0; w8[e] = w; }
        double **D = new double *[n];
        for (int i = 0; i < n; i++) D[i] = new double[n];
        vt::J j; j.obj().k("n").i(n).k("edges").arr();
        for (int e = 0; e < m; e++) j.arr().i(es[e].first + 1).i(es[e].second + 1).i(w8[e]).end();
        j.end();
        // dijkstra per source
        j.k("dij").arr();
        for (int s = 0; s < n; s++) { shortest_paths::dijkstra(s, n, D[s], es, ws); for (int t = 0; t < n; t++) j.i(enc(D[s][t])); }
        j.end();
        shortest_paths::johnsons(n, D, es, ws);
        j.k("john").arr(); for (int s = 0; s < n; s++) for (int t = 0; t < n; t++) j.i(enc(D[s][t])); j.end();
        shortest_paths::floyd_warshall(n, D, es, ws);
        j.k("fw").arr(); for (int s = 0; s < n; s++) for (int t = 0; t < n; t++) j.i(enc(D[s][t])); j.end();
        for (int i = 0; i < n; i++) delete[] D[i];
        delete[] D;
        // layout matrix: eLengths = (w8 - 4)/8 so that some are zero or negative
        {
            vpsc::Rectangles rs;
            for (int i = 0; i < n; i++) rs.push_back(new vpsc::Rectangle(i * 10, i * 10 + 5, 0, 5));
            cola::EdgeLengths el(m);
            std::vector<int> elen(m);
            for (int e = 0; e < m; e++) { elen[e] = w8[e] - 4; el[e] = elen[e] / 8.0; }
            const int ideal = 3;
            FILE *saved = stderr; stderr = fopen("/dev/null", "w");    // the library warns about non-positive lengths
            cola::ConstrainedFDLayout alg(rs, es, ideal, el);
            fclose(stderr); stderr = saved;
            std::vector<double> ld = alg.readLinearD();
            std::vector<unsigned> lg = alg.readLinearG();
            j.k("elen").ints(elen).k("ideal").i(ideal).k("ld").arr();
            for (double d : ld) j.i(enc(d));
            j.end().k("lg").ints(lg);
            for (auto r : rs) delete r;
        }
        // beyond the statement: cola::connectedComponents / separateComponents on the same graph
        // (rectangles of different sizes placed on a 6-column grid so that the components' bounding boxes interleave)
        {
            vpsc::Rectangles rs;
            for (int i = 0; i < n; i++) {
                double x = (i % 6) * 12, y = (i / 6) * 9, w = 4 + (i % 3) * 3, h = 3 + (i % 2) * 4;
                rs.push_back(new vpsc::Rectangle(x, x + w, y, y + h));
            }
            auto q = [](double v) { return (long long)std::llround(v * 1024.0); };
            j.k("rb").arr();
            for (auto r : rs) j.arr().i(q(r->getMinX())).i(q(r->getMaxX())).i(q(r->getMinY())).i(q(r->getMaxY())).end();
            j.end();
            std::vector<cola::Component *> comps;
            cola::connectedComponents(rs, es, comps);
            j.k("comps").arr();
            for (auto c : comps) {
                j.obj().k("ids").arr(); for (unsigned id : c->node_ids) j.i(id + 1); j.end();
                bool same = c->rects.size() == c->node_ids.size();
                for (size_t k = 0; same && k < c->rects.size(); k++) same = c->rects[k] == rs[c->node_ids[k]];
                j.k("rectsok").i(same ? 1 : 0).k("edges").arr();
                for (auto &e : c->edges) j.arr().i(e.first + 1).i(e.second + 1).end();
                j.end().end();
            }
            j.end();
            cola::separateComponents(comps);
            j.k("ra").arr();
            for (auto r : rs) j.arr().i(q(r->getMinX())).i(q(r->getMaxX())).i(q(r->getMinY())).i(q(r->getMaxY())).end();
            j.end().k("border").arr().i(q(vpsc::Rectangle::xBorder)).i(q(vpsc::Rectangle::yBorder)).end();
            for (auto c : comps) delete c;
            for (auto r : rs) delete r;
        }
        j.end();
        out.line((first ? "" : ",") + j.out); first = false;
    }
    out.line(std::string("]}"));
    return 0;
}
