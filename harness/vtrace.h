// Minimal helpers shared by the conformance harnesses: a seeded PRNG,
// JSON/ndjson writers and lattice projection of doubles.
#ifndef VERIF_VTRACE_H
#define VERIF_VTRACE_H
#include <cstdio>
#include <cstring>
#include <cstdlib>
#include <cstdint>
#include <cmath>
#include <string>
#include <vector>
#include <sstream>
#include <exception>
#include <unistd.h>

namespace vt {

// splitmix64 / xorshift: deterministic, independent of libc rand().
struct Rng {
    uint64_t s;
    explicit Rng(uint64_t seed) : s(seed * 0x9E3779B97F4A7C15ull + 0x1234567ull) {}
    uint64_t next() {
        uint64_t z = (s += 0x9E3779B97F4A7C15ull);
        z = (z ^ (z >> 30)) * 0xBF58476D1CE4E5B9ull;
        z = (z ^ (z >> 27)) * 0x94D049BB133111EBull;
        return z ^ (z >> 31);
    }
    // uniform in [lo, hi]
    int range(int lo, int hi) { return lo + (int)(next() % (uint64_t)(hi - lo + 1)); }
    bool coin(int num = 1, int den = 2) { return (int)(next() % den) < num; }
    double unit() { return (double)(next() >> 11) / 9007199254740992.0; }
};

inline uint64_t envSeed() {
    const char *e = getenv("VERIF_SEED");
    return e ? strtoull(e, nullptr, 10) : 1;
}

// A tiny JSON builder: J j; j.obj().k("e").s("Reset").k("n").i(3).end();
struct J {
    std::string out;
    std::vector<char> st;      // 'o' / 'a'
    std::vector<bool> first;
    bool afterKey = false;
    void sep() {
        if (afterKey) { afterKey = false; return; }
        if (!st.empty()) { if (!first.back()) out += ','; first.back() = false; }
    }
    J &obj() { sep(); out += '{'; st.push_back('o'); first.push_back(true); return *this; }
    J &arr() { sep(); out += '['; st.push_back('a'); first.push_back(true); return *this; }
    J &end() { out += (st.back() == 'o') ? '}' : ']'; st.pop_back(); first.pop_back(); return *this; }
    J &k(const char *key) { sep(); out += '"'; out += key; out += "\":"; afterKey = true; return *this; }
    J &i(long long v) { sep(); out += std::to_string(v); return *this; }
    J &b(bool v) { sep(); out += v ? "true" : "false"; return *this; }
    J &s(const std::string &v) {
        sep(); out += '"';
        for (char c : v) { if (c == '"' || c == '\\') out += '\\'; if (c == '\n') { out += "\\n"; continue; } out += c; }
        out += '"'; return *this;
    }
    J &raw(const std::string &v) { sep(); out += v; return *this; }
    template <class V> J &ints(const V &v) { arr(); for (auto x : v) i((long long)x); return end(); }
    void clear() { out.clear(); st.clear(); first.clear(); afterKey = false; }
};

// lattice projection: X = llround(x*S); exact iff |x*S - X| < 1/4096
inline long long lat(double x, double S) { return llround(x * S); }
inline bool onLat(double x, double S) { double y = x * S; return std::isfinite(y) && std::fabs(y - (double)llround(y)) < 1.0 / 4096; }

// a double as three limbs (22 + 21 + 21 bits of its IEEE-754 representation): equality of limb triples is bit equality
inline void limbs(J &j, double v)
{
    uint64_t u; memcpy(&u, &v, 8);
    j.arr().i((long long)(u >> 42)).i((long long)((u >> 21) & 0x1FFFFF)).i((long long)(u & 0x1FFFFF)).end();
}

struct Out {
    FILE *f;
    explicit Out(const char *path) { f = fopen(path, "w"); if (!f) { perror(path); exit(2); } }
    ~Out() { if (f) fclose(f); }
    void line(const J &j) { fputs(j.out.c_str(), f); fputc('\n', f); }
    void line(const std::string &s) { fputs(s.c_str(), f); fputc('\n', f); }
    void flush() { fflush(f); }
};

} // namespace vt
#endif
