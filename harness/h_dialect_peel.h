// peel mode: per input graph record connected components, the peel decomposition and symmetric tree layouts
static void gJson(vt::J &j, Graph &G, std::map<id_type, int> &ext)
{
    j.obj().k("nodes").arr();
    for (auto &kv : G.getNodeLookup()) j.i(ext.at(kv.first));
    j.end().k("edges").arr();
    for (auto &kv : G.getEdgeLookup()) { auto ids = kv.second->getEndIds(); j.arr().i(ext.at(ids.first)).i(ext.at(ids.second)).end(); }
    j.end().end();
}

static int peelMode(const char *inFile, const char *outFile)
{
    std::ifstream in(inFile);
    vt::Out out(outFile);
    out.line(std::string("{\"chunk\":50,\"recs\":["));
    int n, m; bool first = true;
    while (in >> n >> m) {
        // a negative n: explicit node sizes follow the edges ("-n m (u v)*m (w h)*n")
        bool sized = n < 0; if (sized) n = -n;
        std::vector<std::pair<int, int> > es(m);
        for (auto &e : es) in >> e.first >> e.second;
        std::vector<std::pair<int, int> > sz(n, std::make_pair(4, 4));
        if (sized) for (auto &q : sz) in >> q.first >> q.second;
        int maxDim = 4; for (auto &q : sz) maxDim = std::max(maxDim, std::max(q.first, q.second));
        vt::J j; j.obj().k("n").i(n).k("edges").arr(); for (auto &e : es) j.arr().i(e.first).i(e.second).end(); j.end();
        bool thrown = false; std::string what;
        try {
            Graph G;
            std::vector<Node_SP> ns; std::map<id_type, int> ext;
            // node sizes: a third of the graphs uniform 4x4, the others with narrow and wide nodes mixed (derived from the input, so that runs are repeatable)
            bool uniform = !sized && (n + 2 * m) % 3 == 0;
            static const double WS[4] = {4, 4, 8, 20}, HS[2] = {4, 8};
            for (int i = 0; i < n; i++) {
                double w = uniform ? 4 : WS[(i * 7 + n * 3 + m) % 4], h = uniform ? 4 : HS[(i + m) % 2];
                if (sized) { w = sz[i].first; h = sz[i].second; }
                Node_SP nd = G.addNode(10.0 * (i % 5), 10.0 * (i / 5), w, h); ns.push_back(nd); ext[nd->id()] = i + 1;
            }
            static const CardinalDir GROW[4] = {CardinalDir::SOUTH, CardinalDir::EAST, CardinalDir::NORTH, CardinalDir::WEST};
            CardinalDir grow = GROW[(n + m) % 4];
            for (auto &e : es) G.addEdge(ns[e.first - 1], ns[e.second - 1]);
            // connected components
            std::vector<Graph_SP> comps = G.getConnComps();
            j.k("comps").arr();
            for (Graph_SP c : comps) gJson(j, *c, ext);
            j.end();
            if (comps.size() != 1) {     // peel() is specified for connected graphs only
                j.k("core"); gJson(j, G, ext); j.k("trees").arr().end().k("thrown").b(false).end();
                out.line((first ? "" : ",") + j.out); first = false;
                continue;
            }
            // peel (only defined for connected graphs; the check passes connected graphs only for this part)
            Trees trees = peel(G);
            j.k("core"); gJson(j, G, ext);
            j.k("trees").arr();
            for (Tree_SP t : trees) {
                Graph_SP tg = t->underlyingGraph();
                j.obj().k("root").i(ext.at(t->getRootNodeID())).k("g"); gJson(j, *tg, ext);
                t->symmetricLayout(grow, 4, sized ? maxDim + 8 : uniform ? 8 : 28);      // rankSep is a centre-to-centre distance: it has to exceed the largest node extent
                j.k("pos").arr();
                for (auto &kv : tg->getNodeLookup()) { Avoid::Point c = kv.second->getCentre(); dimensions d = kv.second->getDimensions(); j.arr().i(ext.at(kv.first)).i(llround(c.x * 16)).i(llround(c.y * 16)).i(llround(d.first * 16)).i(llround(d.second * 16)).end(); }
                j.end().end();
            }
            j.end();
        } catch (std::exception &e) { thrown = true; what = e.what(); }
        catch (vpsc::CriticalFailure &f) { thrown = true; what = f.what(); }
        if (thrown) { j.clear(); j.obj().k("n").i(n).k("edges").arr(); for (auto &e : es) j.arr().i(e.first).i(e.second).end(); j.end().k("thrown").b(true).k("what").s(what).end(); }
        else j.k("thrown").b(false).end();
        out.line((first ? "" : ",") + j.out); first = false;
    }
    out.line(std::string("]}"));
    return 0;
}
