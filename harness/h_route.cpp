// libavoid routing harness (C03, C04, C05, C10, C20-routing).
//   h_route scenes <scenes.txt> <out.json> [chunk]
// scenes.txt, one scene per line (integers):
//   mode P buf opts nshape (kind npts (x y)*npts)*nshape  nconn (sx sy sd dx dy dd)*nconn
//     mode 0 polyline / 1 orthogonal; P segment penalty (P < 0: |P|/1000); buf shapeBufferDistance;
//     opts bit mask of routing options (see applyOpts); shape kind 0 = polygon given by points
//     (wound positively, like Avoid::Rectangle); sd/dd direction masks (15 = all)
// Output: one record per scene with raw routes (route()) and displayed routes
// (displayRoute()) on a 2^-10 lattice plus exactness flags, and the vertex ids.
#include "vtrace.h"
#include <fstream>
#include <map>
#include <algorithm>
#include "libavoid/libavoid.h"
#include "libvpsc/assertions.h"
using namespace Avoid;

static const double LS = 1024.0;

struct Scene {
    int mode, P, buf, opts;
    std::vector<std::vector<std::pair<int, int> > > shapes;
    struct Conn { int sx, sy, sd, dx, dy, dd; std::vector<std::pair<int, int> > cps; };
    std::vector<Conn> conns;
};

static bool readScene(std::istream &in, Scene &s)
{
    int ns;
    if (!(in >> s.mode >> s.P >> s.buf >> s.opts >> ns)) return false;
    s.shapes.assign(ns, {});
    for (auto &sh : s.shapes) { int kind, np; in >> kind >> np; sh.resize(np); for (auto &p : sh) in >> p.first >> p.second; }
    int nc; in >> nc; s.conns.resize(nc);
    for (auto &c : s.conns) { in >> c.sx >> c.sy >> c.sd >> c.dx >> c.dy >> c.dd; c.cps.clear(); }
    int ncp; in >> ncp;          // checkpoints: (connector index, x, y), in visiting order per connector
    for (int i = 0; i < ncp; i++) { int ci, x, y; in >> ci >> x >> y; s.conns.at(ci).cps.push_back(std::make_pair(x, y)); }
    return true;
}

static void applyOpts(Router *r, const Scene &s)
{
    r->setRoutingParameter(segmentPenalty, s.P >= 0 ? (double)s.P : -s.P / 1000.0);   // P < 0: a penalty of |P| thousandths
    r->setRoutingParameter(shapeBufferDistance, s.buf);
    // opts bits: 0 nudgeOrthogonalSegmentsConnectedToShapes, 1 penaliseOrthogonalSharedPathsAtConnEnds,
    //  2 nudgeOrthogonalTouchingColinearSegments, 3 performUnifyingNudgingPreprocessingStep (default on: bit inverts),
    //  4 nudgeSharedPathsWithCommonEndPoint (default on: bit inverts), 5..6 idealNudgingDistance selector
    r->setRoutingOption(nudgeOrthogonalSegmentsConnectedToShapes, s.opts & 1);
    r->setRoutingOption(penaliseOrthogonalSharedPathsAtConnEnds, s.opts & 2);
    r->setRoutingOption(nudgeOrthogonalTouchingColinearSegments, s.opts & 4);
    r->setRoutingOption(performUnifyingNudgingPreprocessingStep, !(s.opts & 8));
    r->setRoutingOption(nudgeSharedPathsWithCommonEndPoint, !(s.opts & 16));
    static const double nd[4] = {4.0, 2.0, 10.0, 1.0};
    r->setRoutingParameter(idealNudgingDistance, nd[(s.opts >> 5) & 3]);
}

static void routeJson(vt::J &j, const char *key, const PolyLine &pl, bool ids)
{
    j.k(key).arr();
    for (size_t i = 0; i < pl.ps.size(); i++) {
        const Point &p = pl.ps[i];
        bool ok = std::isfinite(p.x) && std::isfinite(p.y) && fabs(p.x) < 1e6 && fabs(p.y) < 1e6;
        j.arr().i(ok ? llround(p.x * LS) : 2000000000).i(ok ? llround(p.y * LS) : 2000000000);
        if (ids) j.i(p.id).i(p.vn);
        j.end();
    }
    j.end();
}
static bool exact(const PolyLine &pl)
{
    for (auto &p : pl.ps) if (!vt::onLat(p.x, 1.0) || !vt::onLat(p.y, 1.0)) return false;
    return true;
}

static void sceneJson(vt::J &j, const Scene &s)
{
    j.k("mode").i(s.mode).k("P").i(s.P).k("buf").i(s.buf).k("opts").i(s.opts);
    j.k("shapes").arr();
    for (auto &sh : s.shapes) { j.arr(); for (auto &p : sh) j.arr().i(p.first).i(p.second).end(); j.end(); }
    j.end();
}

static Router *buildRouter(const Scene &s, std::vector<ConnRef *> &conns)
{
    Router *router = new Router(s.mode ? OrthogonalRouting : PolyLineRouting);
    applyOpts(router, s);
    for (auto &sh : s.shapes) {
        Polygon poly((int)sh.size());
        for (size_t i = 0; i < sh.size(); i++) poly.ps[i] = Point(sh[i].first, sh[i].second);
        new ShapeRef(router, poly);
    }
    for (auto &c : s.conns) {
        ConnEnd a(Point(c.sx, c.sy), (ConnDirFlags)c.sd), b(Point(c.dx, c.dy), (ConnDirFlags)c.dd);
        conns.push_back(new ConnRef(router, a, b));
        if (!c.cps.empty()) {
            std::vector<Checkpoint> cps;
            for (auto &p : c.cps) cps.push_back(Checkpoint(Point(p.first, p.second)));
            conns.back()->setRoutingCheckpoints(cps);
        }
    }
    return router;
}

static int scenesMode(const char *inFile, const char *outFile, const char *chunk, long skip)
{
    std::ifstream in(inFile);
    vt::Out out(outFile);
    out.line(std::string("{\"chunk\":") + chunk + ",\"LS\":1024,\"recs\":[");
    Scene s; bool first = true; long idx = 0;
    while (readScene(in, s)) {
        if (idx++ < skip) continue;
        {   // what to record for this scene should the process die inside the library (the driver restarts after it)
            vt::J p; p.obj(); sceneJson(p, s); p.k("thrown").b(true).k("what").s("process died").k("conns").arr();
            for (auto &c : s.conns) { p.obj().k("src").arr().i(c.sx).i(c.sy).end().k("dst").arr().i(c.dx).i(c.dy).end().k("sd").i(c.sd).k("dd").i(c.dd);
                                      p.k("cps").arr(); for (auto &q : c.cps) p.arr().i(q.first).i(q.second).end(); p.end().end(); }
            p.end().end();
            out.line("#PENDING " + p.out); out.flush();
        }
        vt::J j; j.obj(); sceneJson(j, s);
        std::vector<ConnRef *> conns;
        bool thrown = false; std::string what;
        Router *router = nullptr;
        try {
            router = buildRouter(s, conns);
            router->processTransaction();
        } catch (vpsc::CriticalFailure &f) { thrown = true; what = f.what(); }
        catch (std::exception &e) { thrown = true; what = e.what(); }
        j.k("thrown").b(thrown);
        if (thrown) j.k("what").s(what);
        j.k("conns").arr();
        for (size_t i = 0; i < s.conns.size(); i++) {
            const Scene::Conn &c = s.conns[i];
            j.obj().k("src").arr().i(c.sx).i(c.sy).end().k("dst").arr().i(c.dx).i(c.dy).end().k("sd").i(c.sd).k("dd").i(c.dd);
            j.k("cps").arr(); for (auto &p : c.cps) j.arr().i(p.first).i(p.second).end(); j.end();
            if (!thrown) {
                const PolyLine &raw = conns[i]->route();
                PolyLine &disp = conns[i]->displayRoute();
                routeJson(j, "raw", raw, true);
                routeJson(j, "disp", disp, false);
                j.k("rawExact").b(exact(raw)).k("dispExact").b(exact(disp));
            }
            j.end();
        }
        j.end();
        if (!thrown) j.k("overlap").b(router->existsOrthogonalSegmentOverlap());
        j.end();
        out.line((first ? "" : ",") + j.out); first = false; out.flush();
        if (!thrown) delete router;   // after an assertion exception the router's state is undefined: leak it
    }
    out.line(std::string("]}"));
    return 0;
}

// ---------------------------------------------------------------------------
// API histories (C06): "mode P nconn nops ops..." per line; ops as generated by RouterApiMC:
//   1 s x1 y1 x2 y2 (new ShapeRef)  2 s dx dy (moveShape)  3 s (deleteShape)  4 c end x y (set endpoint)
//   5 (processTransaction)  6 b (setTransactionUse)
// Connector 1 starts as (1,7)->(13,7), connector 2 as (7,1)->(7,13).
static void histStep(vt::J &j, int opIndex, Router *router, std::map<int, ShapeRef *> &shapes, std::vector<ConnRef *> &conns,
                     std::vector<std::pair<Point, Point> > &ends, int mode, int P)
{
    j.obj().k("op").i(opIndex).k("scene").arr();
    for (auto &kv : shapes) {
        Box bb = kv.second->polygon().offsetBoundingBox(0);
        j.arr().i(kv.first).i(llround(bb.min.x)).i(llround(bb.min.y)).i(llround(bb.max.x)).i(llround(bb.max.y)).end();
    }
    j.end();
    // a fresh router for the same final scene
    Router *fresh = new Router(mode ? OrthogonalRouting : PolyLineRouting);
    fresh->setRoutingParameter(segmentPenalty, P);
    for (auto &kv : shapes) { Polygon pc = kv.second->polygon(); new ShapeRef(fresh, pc); }
    std::vector<ConnRef *> fc;
    for (auto &e : ends) fc.push_back(new ConnRef(fresh, ConnEnd(e.first), ConnEnd(e.second)));
    fresh->processTransaction();
    // remember the routes, run a transaction that changes nothing, compare bit for bit
    std::vector<std::vector<Point> > before, beforeD;
    for (auto c : conns) { before.push_back(c->route().ps); beforeD.push_back(c->displayRoute().ps); }
    router->processTransaction();
    bool same = true;
    for (size_t i = 0; i < conns.size(); i++) {
        const std::vector<Point> &a = conns[i]->route().ps, &b = conns[i]->displayRoute().ps;
        if (a.size() != before[i].size() || b.size() != beforeD[i].size()) { same = false; continue; }
        for (size_t k = 0; k < a.size(); k++) if (a[k].x != before[i][k].x || a[k].y != before[i][k].y) same = false;
        for (size_t k = 0; k < b.size(); k++) if (b[k].x != beforeD[i][k].x || b[k].y != beforeD[i][k].y) same = false;
    }
    j.k("noopSame").b(same).k("conns").arr();
    for (size_t i = 0; i < conns.size(); i++) {
        j.obj().k("src").arr().i(llround(ends[i].first.x)).i(llround(ends[i].first.y)).end()
               .k("dst").arr().i(llround(ends[i].second.x)).i(llround(ends[i].second.y)).end();
        routeJson(j, "raw", conns[i]->route(), false);
        routeJson(j, "disp", conns[i]->displayRoute(), false);
        routeJson(j, "fraw", fc[i]->route(), false);
        j.k("exact").b(exact(conns[i]->route()) && exact(fc[i]->route()));
        j.end();
    }
    j.end().end();
    delete fresh;
}

static int histMode(const char *inFile, const char *outFile)
{
    std::ifstream in(inFile);
    vt::Out out(outFile);
    out.line(std::string("{\"LS\":1024,\"hists\":["));
    int mode, P, nconn, nops; bool first = true;
    while (in >> mode >> P >> nconn >> nops) {
        std::vector<std::vector<int> > ops(nops);
        for (auto &o : ops) {
            int t; in >> t; o.push_back(t);
            int n = (t == 1 || t == 7) ? 5 : t == 2 ? 3 : t == 3 ? 1 : t == 4 ? 4 : t == 5 ? 0 : 1;
            for (int k = 0; k < n; k++) { int v; in >> v; o.push_back(v); }
        }
        vt::J j; j.obj().k("mode").i(mode).k("P").i(P).k("ops").arr();
        for (auto &o : ops) j.ints(o);
        j.end();
        bool thrown = false; std::string what;
        Router *router = new Router(mode ? OrthogonalRouting : PolyLineRouting);
        router->setRoutingParameter(segmentPenalty, P);
        std::map<int, ShapeRef *> shapes;
        std::vector<ConnRef *> conns;
        std::vector<std::pair<Point, Point> > ends;
        ends.push_back(std::make_pair(Point(1, 7), Point(13, 7)));
        if (nconn > 1) ends.push_back(std::make_pair(Point(7, 1), Point(7, 13)));
        bool txn = true;
        j.k("steps").arr();
        try {
            for (auto &e : ends) conns.push_back(new ConnRef(router, ConnEnd(e.first), ConnEnd(e.second)));
            router->processTransaction();
            for (size_t i = 0; i < ops.size(); i++) {
                const std::vector<int> &o = ops[i];
                bool processed = false;
                switch (o[0]) {
                    case 1: { Rectangle rc(Point(o[2], o[3]), Point(o[4], o[5])); shapes[o[1]] = new ShapeRef(router, rc); processed = !txn; break; }
                    case 2: router->moveShape(shapes.at(o[1]), o[2], o[3]); processed = !txn; break;
                    case 3: router->deleteShape(shapes.at(o[1])); shapes.erase(o[1]); processed = !txn; break;
                    case 4: if (o[2] == 0) { conns.at(o[1] - 1)->setSourceEndpoint(ConnEnd(Point(o[3], o[4]))); ends[o[1] - 1].first = Point(o[3], o[4]); }
                            else { conns.at(o[1] - 1)->setDestEndpoint(ConnEnd(Point(o[3], o[4]))); ends[o[1] - 1].second = Point(o[3], o[4]); }
                            processed = !txn; break;
                    case 5: router->processTransaction(); processed = true; break;
                    case 7: { Rectangle rc(Point(o[2], o[3]), Point(o[4], o[5])); router->moveShape(shapes.at(o[1]), rc); processed = !txn; break; }   // absolute move / resize
                    case 6: txn = o[1] != 0; router->setTransactionUse(txn); break;
                }
                if (processed) histStep(j, (int)i + 1, router, shapes, conns, ends, mode, P);
            }
        } catch (vpsc::CriticalFailure &f) { thrown = true; what = f.what(); }
        catch (std::exception &e) { thrown = true; what = e.what(); }
        j.end().k("thrown").b(thrown);
        if (thrown) j.k("what").s(what);
        j.end();
        out.line((first ? "" : ",") + j.out); first = false;
        if (!thrown) delete router;
    }
    out.line(std::string("]}"));
    return 0;
}

// ---------------------------------------------------------------------------
// C20: reproducibility and frame independence.  For every scene: run A; unrelated work (allocations, another
// router); run B (same calls); a translated copy (offset k * 2^-10); the 7 non-identity symmetries of the square.
static void sceneTransform(const Scene &s, int t, Scene &o)
{
    // t: 0 id, 1 rot90 (x,y)->(-y,x), 2 rot180, 3 rot270 (y,-x), 4 flip x, 5 flip y, 6 transpose, 7 anti-transpose
    auto f = [&](int x, int y, int &X, int &Y) {
        switch (t) { case 0: X = x; Y = y; break; case 1: X = -y; Y = x; break; case 2: X = -x; Y = -y; break; case 3: X = y; Y = -x; break;
                     case 4: X = -x; Y = y; break; case 5: X = x; Y = -y; break; case 6: X = y; Y = x; break; default: X = -y; Y = -x; }
    };
    o = s;
    for (auto &sh : o.shapes) {
        for (auto &p : sh) { int X, Y; f(p.first, p.second, X, Y); p.first = X; p.second = Y; }
        // keep the winding positive: reflections reverse it
        long long a2 = 0; for (size_t i = 0; i < sh.size(); i++) { auto &p = sh[i], &q = sh[(i + 1) % sh.size()]; a2 += (long long)p.first * q.second - (long long)q.first * p.second; }
        if (a2 < 0) std::reverse(sh.begin(), sh.end());
    }
    // direction masks turn with the scene: Up = -y (1), Down = +y (2), Left = -x (4), Right = +x (8)
    auto fd = [&](int mask) {
        static const int vx[4] = {0, 0, -1, 1}, vy[4] = {-1, 1, 0, 0};
        int out = 0;
        for (int b = 0; b < 4; b++) if (mask & (1 << b)) { int X, Y; f(vx[b], vy[b], X, Y); out |= (Y < 0) ? 1 : (Y > 0) ? 2 : (X < 0) ? 4 : 8; }
        return out;
    };
    for (auto &c : o.conns) { int X, Y; f(c.sx, c.sy, X, Y); c.sx = X; c.sy = Y; f(c.dx, c.dy, X, Y); c.dx = X; c.dy = Y; c.sd = fd(c.sd); c.dd = fd(c.dd); }
}

static void runScene(const Scene &s, double ox, double oy, std::vector<std::vector<Point> > &raw, std::vector<std::vector<Point> > &disp, bool &thrown)
{
    thrown = false; raw.clear(); disp.clear();
    Router *router = new Router(s.mode ? OrthogonalRouting : PolyLineRouting);
    applyOpts(router, s);
    std::vector<ConnRef *> conns;
    try {
        for (auto &sh : s.shapes) { Polygon poly((int)sh.size()); for (size_t i = 0; i < sh.size(); i++) poly.ps[i] = Point(sh[i].first + ox, sh[i].second + oy); new ShapeRef(router, poly); }
        for (auto &c : s.conns) conns.push_back(new ConnRef(router, ConnEnd(Point(c.sx + ox, c.sy + oy), (ConnDirFlags)c.sd), ConnEnd(Point(c.dx + ox, c.dy + oy), (ConnDirFlags)c.dd)));
        router->processTransaction();
        for (auto c : conns) { raw.push_back(c->route().ps); disp.push_back(c->displayRoute().ps); }
    } catch (...) { thrown = true; }
    if (!thrown) delete router;
}

static int frameMode(const char *inFile, const char *outFile, uint64_t seed, long skip)
{
    std::ifstream in(inFile);
    vt::Out out(outFile);
    out.line(std::string("{\"chunk\":10,\"recs\":["));
    Scene s; bool first = true; long idx = 0;
    while (readScene(in, s)) {
        if (idx++ < skip) continue;
        vt::Rng rng(seed + 7919ULL * (uint64_t)idx);       // per scene, so that a restart after a dead process reproduces the same run
        std::vector<std::vector<Point> > rawA, dispA, rawB, dispB, rawT, dispT, rawS, dispS;
        bool tA, tB, tT, tS;
        runScene(s, 0, 0, rawA, dispA, tA);
        // unrelated work between the two runs
        std::vector<void *> junk; for (int q = 0; q < 300; q++) junk.push_back(malloc(24 + (rng.next() % 2000)));
        { Scene other; sceneTransform(s, 1 + (int)(rng.next() % 7), other); std::vector<std::vector<Point> > r1, r2; bool t; runScene(other, 3, 5, r1, r2, t); }
        for (size_t q = 0; q < junk.size(); q += 3) free(junk[q]);
        runScene(s, 0, 0, rawB, dispB, tB);
        for (size_t q = 0; q < junk.size(); q++) if (q % 3) free(junk[q]);
        int kx = (int)(rng.next() % 32769) - 16384, ky = (int)(rng.next() % 32769) - 16384;
        runScene(s, kx / 1024.0, ky / 1024.0, rawT, dispT, tT);
        vt::J j; j.obj(); sceneJson(j, s);
        j.k("thrown").b(tA || tB || tT).k("kx").i(kx).k("ky").i(ky);
        j.k("masks").arr(); for (auto &c : s.conns) j.arr().i(c.sd).i(c.dd).end(); j.end();
        auto limbRoutes = [&](const char *key, std::vector<std::vector<Point> > &R) {
            j.k(key).arr(); for (auto &r : R) { j.arr(); for (auto &p : r) { vt::limbs(j, p.x); vt::limbs(j, p.y); } j.end(); } j.end(); };
        auto latRoutes = [&](const char *key, std::vector<std::vector<Point> > &R) {
            j.k(key).arr(); for (auto &r : R) { j.arr(); for (auto &p : r) j.arr().i(vt::onLat(p.x, LS) ? llround(p.x * LS) : 2000000000).i(vt::onLat(p.y, LS) ? llround(p.y * LS) : 2000000000).end(); j.end(); } j.end(); };
        limbRoutes("rawA", rawA); limbRoutes("rawB", rawB); limbRoutes("dispA", dispA); limbRoutes("dispB", dispB);
        latRoutes("latA", rawA); latRoutes("latT", rawT);
        // displayed routes under translation: largest deviation from (disp + offset), in units of 1e-12
        double dev = 0; bool shape = dispA.size() == dispT.size();
        for (size_t c = 0; shape && c < dispA.size(); c++) {
            if (dispA[c].size() != dispT[c].size()) { shape = false; break; }
            for (size_t i = 0; i < dispA[c].size(); i++) dev = std::max(dev, std::max(fabs(dispT[c][i].x - (dispA[c][i].x + kx / 1024.0)), fabs(dispT[c][i].y - (dispA[c][i].y + ky / 1024.0))));
        }
        j.k("dispShape").b(shape).k("dispDevE12").i(std::isfinite(dev) ? (long long)std::min(dev * 1e12, 2e9) : 2000000000);
        // symmetries: raw routes of the transformed scenes (integer lattice)
        j.k("sym").arr();
        for (int t = 1; t < 8; t++) { Scene o; sceneTransform(s, t, o); runScene(o, 0, 0, rawS, dispS, tS); j.obj().k("t").i(t).k("thrown").b(tS); latRoutes("lat", rawS); j.end(); }
        j.end().end();
        out.line((first ? "" : ",") + j.out); first = false; out.flush();
    }
    out.line(std::string("]}"));
    return 0;
}

namespace Avoid { int bends(const Point &curr, unsigned int currDir, const Point &dest, unsigned int destDir); }

// every relative position (non-coincident) x travel direction x entry direction of the real estimator
static int bendsMode(const char *outFile)
{
    vt::Out out(outFile);
    vt::J j; j.obj().k("entries").arr();
    static const unsigned dirs[4] = {1, 2, 4, 8};
    for (int dx = -1; dx <= 1; dx++) for (int dy = -1; dy <= 1; dy++) {
        if (dx == 0 && dy == 0) continue;
        for (unsigned cd : dirs) for (unsigned dd : dirs) {
            int v = Avoid::bends(Point(3 * dx, 3 * dy), cd, Point(0, 0), dd);
            j.obj().k("dx").i(3 * dx).k("dy").i(3 * dy).k("cd").i(cd).k("dd").i(dd).k("v").i(v).end();
        }
    }
    j.end().end(); out.line(j);
    return 0;
}

int main(int argc, char **argv)
{
    if (argc >= 3 && std::string(argv[1]) == "bends") return bendsMode(argv[2]);
    if (argc >= 4 && std::string(argv[1]) == "hist") return histMode(argv[2], argv[3]);
    if (argc >= 5 && std::string(argv[1]) == "frame") return frameMode(argv[2], argv[3], strtoull(argv[4], 0, 10), argc > 5 ? atol(argv[5]) : 0);
    if (argc >= 4 && std::string(argv[1]) == "scenes") return scenesMode(argv[2], argv[3], argc > 4 ? argv[4] : "20", argc > 5 ? atol(argv[5]) : 0);
    return 2;
}
