// libavoid routing harness (C03, C04, C05, C10, C20-routing).
//   h_route scenes <scenes.txt> <out.json> [chunk]
// scenes.txt, one scene per line (integers):
//   mode P buf opts nshape (kind npts (x y)*npts)*nshape  nconn (sx sy sd dx dy dd)*nconn
//     mode 0 polyline / 1 orthogonal; P segment penalty; buf shapeBufferDistance;
//     opts bit mask of routing options (see applyOpts); shape kind 0 = polygon given by points
//     (wound positively, like Avoid::Rectangle); sd/dd direction masks (15 = all)
// Output: one record per scene with raw routes (route()) and displayed routes
// (displayRoute()) on a 2^-10 lattice plus exactness flags, and the vertex ids.
#include "vtrace.h"
#include <fstream>
#include "libavoid/libavoid.h"
#include "libvpsc/assertions.h"
using namespace Avoid;

static const double LS = 1024.0;

struct Scene {
    int mode, P, buf, opts;
    std::vector<std::vector<std::pair<int, int> > > shapes;
    struct Conn { int sx, sy, sd, dx, dy, dd; };
    std::vector<Conn> conns;
};

static bool readScene(std::istream &in, Scene &s)
{
    int ns;
    if (!(in >> s.mode >> s.P >> s.buf >> s.opts >> ns)) return false;
    s.shapes.assign(ns, {});
    for (auto &sh : s.shapes) { int kind, np; in >> kind >> np; sh.resize(np); for (auto &p : sh) in >> p.first >> p.second; }
    int nc; in >> nc; s.conns.resize(nc);
    for (auto &c : s.conns) in >> c.sx >> c.sy >> c.sd >> c.dx >> c.dy >> c.dd;
    return true;
}

static void applyOpts(Router *r, const Scene &s)
{
    r->setRoutingParameter(segmentPenalty, s.P);
    r->setRoutingParameter(shapeBufferDistance, s.buf);
    // opts bits: 0 nudgeOrthogonalSegmentsConnectedToShapes, 1 penaliseOrthogonalSharedPathsAtConnEnds,
    //  2 nudgeOrthogonalTouchingColinearSegments, 3 performUnifyingNudgingPreprocessingStep (default on: bit inverts),
    //  4 nudgeSharedPathsWithCommonEndPoint (default on: bit inverts), 5..6 idealNudgingDistance selector
    r->setRoutingOption(nudgeOrthogonalSegmentsConnectedToShapes, s.opts & 1);
    r->setRoutingOption(penaliseOrthogonalSharedPathsAtConnEnds, s.opts & 2);
    r->setRoutingOption(nudgeOrthogonalTouchingColinearSegments, s.opts & 4);
    r->setRoutingOption(performUnifyingNudgingPreprocessingStep, !(s.opts & 8));
    r->setRoutingOption(nudgeSharedPathsWithCommonEndPoint, !(s.opts & 16));
    static const double nd[4] = {4.0, 2.0, 10.0, 1.0};
    r->setRoutingParameter(idealNudgingDistance, nd[(s.opts >> 5) & 3]);
}

static void routeJson(vt::J &j, const char *key, const PolyLine &pl, bool ids)
{
    j.k(key).arr();
    for (size_t i = 0; i < pl.ps.size(); i++) {
        const Point &p = pl.ps[i];
        bool ok = std::isfinite(p.x) && std::isfinite(p.y) && fabs(p.x) < 1e6 && fabs(p.y) < 1e6;
        j.arr().i(ok ? llround(p.x * LS) : 2000000000).i(ok ? llround(p.y * LS) : 2000000000);
        if (ids) j.i(p.id).i(p.vn);
        j.end();
    }
    j.end();
}
static bool exact(const PolyLine &pl)
{
    for (auto &p : pl.ps) if (!vt::onLat(p.x, 1.0) || !vt::onLat(p.y, 1.0)) return false;
    return true;
}

static void sceneJson(vt::J &j, const Scene &s)
{
    j.k("mode").i(s.mode).k("P").i(s.P).k("buf").i(s.buf).k("opts").i(s.opts);
    j.k("shapes").arr();
    for (auto &sh : s.shapes) { j.arr(); for (auto &p : sh) j.arr().i(p.first).i(p.second).end(); j.end(); }
    j.end();
}

static Router *buildRouter(const Scene &s, std::vector<ConnRef *> &conns)
{
    Router *router = new Router(s.mode ? OrthogonalRouting : PolyLineRouting);
    applyOpts(router, s);
    for (auto &sh : s.shapes) {
        Polygon poly((int)sh.size());
        for (size_t i = 0; i < sh.size(); i++) poly.ps[i] = Point(sh[i].first, sh[i].second);
        new ShapeRef(router, poly);
    }
    for (auto &c : s.conns) {
        ConnEnd a(Point(c.sx, c.sy), (ConnDirFlags)c.sd), b(Point(c.dx, c.dy), (ConnDirFlags)c.dd);
        conns.push_back(new ConnRef(router, a, b));
    }
    return router;
}

static int scenesMode(const char *inFile, const char *outFile, const char *chunk)
{
    std::ifstream in(inFile);
    vt::Out out(outFile);
    out.line(std::string("{\"chunk\":") + chunk + ",\"LS\":1024,\"recs\":[");
    Scene s; bool first = true;
    while (readScene(in, s)) {
        vt::J j; j.obj(); sceneJson(j, s);
        std::vector<ConnRef *> conns;
        bool thrown = false; std::string what;
        Router *router = nullptr;
        try {
            router = buildRouter(s, conns);
            router->processTransaction();
        } catch (vpsc::CriticalFailure &f) { thrown = true; what = f.what(); }
        catch (std::exception &e) { thrown = true; what = e.what(); }
        j.k("thrown").b(thrown);
        if (thrown) j.k("what").s(what);
        j.k("conns").arr();
        for (size_t i = 0; i < s.conns.size(); i++) {
            const Scene::Conn &c = s.conns[i];
            j.obj().k("src").arr().i(c.sx).i(c.sy).end().k("dst").arr().i(c.dx).i(c.dy).end().k("sd").i(c.sd).k("dd").i(c.dd);
            if (!thrown) {
                const PolyLine &raw = conns[i]->route();
                PolyLine &disp = conns[i]->displayRoute();
                routeJson(j, "raw", raw, true);
                routeJson(j, "disp", disp, false);
                j.k("rawExact").b(exact(raw)).k("dispExact").b(exact(disp));
            }
            j.end();
        }
        j.end();
        if (!thrown) j.k("overlap").b(router->existsOrthogonalSegmentOverlap());
        j.end();
        out.line((first ? "" : ",") + j.out); first = false;
        if (!thrown) delete router;   // after an assertion exception the router's state is undefined: leak it
    }
    out.line(std::string("]}"));
    return 0;
}

namespace Avoid { int bends(const Point &curr, unsigned int currDir, const Point &dest, unsigned int destDir); }

// every relative position (non-coincident) x travel direction x entry direction of the real estimator
static int bendsMode(const char *outFile)
{
    vt::Out out(outFile);
    vt::J j; j.obj().k("entries").arr();
    static const unsigned dirs[4] = {1, 2, 4, 8};
    for (int dx = -1; dx <= 1; dx++) for (int dy = -1; dy <= 1; dy++) {
        if (dx == 0 && dy == 0) continue;
        for (unsigned cd : dirs) for (unsigned dd : dirs) {
            int v = Avoid::bends(Point(3 * dx, 3 * dy), cd, Point(0, 0), dd);
            j.obj().k("dx").i(3 * dx).k("dy").i(3 * dy).k("cd").i(cd).k("dd").i(dd).k("v").i(v).end();
        }
    }
    j.end().end(); out.line(j);
    return 0;
}

int main(int argc, char **argv)
{
    if (argc >= 3 && std::string(argv[1]) == "bends") return bendsMode(argv[2]);
    if (argc >= 4 && std::string(argv[1]) == "scenes") return scenesMode(argv[2], argv[3], argc > 4 ? argv[4] : "20");
    return 2;
}
