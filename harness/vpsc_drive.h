// Shared driver for the two copies of the incremental VPSC solver
// (vpsc::IncSolver in libvpsc, Avoid::IncSolver in libavoid/vpsc.cpp).
// The including file defines VNS (the namespace) and includes the headers.
//
// Instance file (whitespace separated integers, one instance per line):
//   n m  des[n] w[n] sc[n]  (l r g eq)*m   nops  ops...
//   op: 1 d1..dn (set desired)  2 l r g eq (add constraint)  3 (solve)  4 (satisfy)
// Variables and constraints are 1-based, as in the specification.
#include "vtrace.h"
#include <map>
#include <fstream>
#include <algorithm>

struct VInst {
    int n, m;
    std::vector<int> des, w, sc;
    struct Con { int l, r, g, eq; };
    std::vector<Con> cons;
    struct Op { int kind; std::vector<int> des; Con c; };
    std::vector<Op> ops;
};

static bool readInst(std::istream &in, VInst &I)
{
    if (!(in >> I.n >> I.m)) return false;
    I.des.resize(I.n); I.w.resize(I.n); I.sc.resize(I.n);
    for (int &x : I.des) in >> x;
    for (int &x : I.w) in >> x;
    for (int &x : I.sc) in >> x;
    I.cons.resize(I.m);
    for (auto &c : I.cons) in >> c.l >> c.r >> c.g >> c.eq;
    int nops; in >> nops;
    I.ops.clear();
    for (int i = 0; i < nops; i++) {
        VInst::Op op; in >> op.kind;
        if (op.kind == 1) { op.des.resize(I.n); for (int &x : op.des) in >> x; }
        if (op.kind == 2) in >> op.c.l >> op.c.r >> op.c.g >> op.c.eq;
        I.ops.push_back(op);
    }
    return true;
}

static long long gcdll(long long a, long long b) { return b ? gcdll(b, a % b) : a; }
static long long lcmUpTo(int k) { long long l = 1; for (int i = 2; i <= k; i++) l = l / gcdll(l, i) * i; return l; }

// ---------------------------------------------------------------------------
// tracing
static vt::Out *g_out = nullptr;
static std::map<const void *, int> g_cidx;
static long g_events = 0;

static void conJson(vt::J &j, const VInst::Con &c)
{
    j.obj().k("l").i(c.l).k("r").i(c.r).k("g").i(c.g).k("eq").b(c.eq != 0).end();
}

struct Live {
    VNS::Variables vs;
    VNS::Constraints cs;
    VNS::IncSolver *solver = nullptr;
    long long L = 1;
    static const int K = 16384;
    ~Live() {
        delete solver;
        for (auto c : cs) delete c;
        for (auto v : vs) delete v;
    }
    void build(const VInst &I) {
        int tw = 0;
        for (int i = 0; i < I.n; i++) {
            vs.push_back(new VNS::Variable(i, I.des[i], I.w[i], I.sc[i]));
            tw += I.w[i];
        }
        L = lcmUpTo(tw);
        for (auto &c : I.cons) addCon(c, false);
        solver = new VNS::IncSolver(vs, cs);
    }
    void addCon(const VInst::Con &c, bool live) {
        VNS::Constraint *k = new VNS::Constraint(vs[c.l - 1], vs[c.r - 1], c.g, c.eq != 0);
        // IncSolver::addConstraint() expects the caller to have appended the
        // constraint to the vector the solver was constructed with (as
        // ConstrainedFDLayout::makeFeasible does); cs is held by reference.
        cs.push_back(k);
        g_cidx[k] = (int)cs.size();
        if (live) solver->addConstraint(k);
    }
    void stateJson(vt::J &j, bool lattice) {
        j.k("pos").arr();
        for (auto v : vs) {
            double x = v->finalPosition;
            if (!std::isfinite(x)) j.i(2000000000);
            else j.i(llround(x * (lattice ? (double)L * K : 4194304.0)));
        }
        j.end();
        j.k("unsat").arr();
        for (size_t i = 0; i < cs.size(); i++) if (cs[i]->unsatisfiable) j.i((long long)i + 1);
        j.end();
        j.k("act").arr();
        for (size_t i = 0; i < cs.size(); i++) if (cs[i]->active) j.i((long long)i + 1);
        j.end();
    }
};

static Live *g_live = nullptr;

#ifdef VPSC_HOOKED
static void emitHook(const char *ev, const VNS::Constraint *a, const VNS::Constraint *b)
{
    if (!g_out) return;
    vt::J j; j.obj().k("e").s(ev);
    if (a) j.k("c").i(g_cidx[a]);
    if (b) j.k("s").i(g_cidx[b]);
    std::string e(ev);
    if (e == "SatisfyEnd" || e == "SolveEnd") g_live->stateJson(j, true);
    j.end(); g_out->line(j); g_events++;
}
#endif

// Runs one instance with its history; writes the trace of one execution.
// Only instances of scale 1 and small total weight are traced on the lattice.
static void traceOne(const VInst &I, bool firstSatisfy)
{
    Live lv; g_live = &lv; g_cidx.clear();
    lv.build(I);
    {
        vt::J j; j.obj().k("e").s("Reset").k("n").i(I.n).k("des").ints(I.des).k("w").ints(I.w);
        j.k("cons").arr(); for (auto &c : I.cons) conJson(j, c); j.end();
        j.k("L").i(lv.L).k("K").i(Live::K).end();
        g_out->line(j);
    }
    auto call = [&](int kind) {
        try {
            if (kind == 3) lv.solver->solve(); else lv.solver->satisfy();
        } catch (vpsc::CriticalFailure &f) {
            vt::J j; j.obj().k("e").s("Throw").k("what").s(f.what()).end(); g_out->line(j);
            return false;
        } catch (...) {
            vt::J j; j.obj().k("e").s("Throw").k("what").s("exception").end(); g_out->line(j);
            return false;
        }
        return true;
    };
    bool ok = call(firstSatisfy ? 4 : 3);
    for (size_t i = 0; ok && i < I.ops.size(); i++) {
        const VInst::Op &op = I.ops[i];
        if (op.kind == 1) {
            for (int v = 0; v < I.n; v++) lv.vs[v]->desiredPosition = op.des[v];
            vt::J j; j.obj().k("e").s("SetDesired").k("des").ints(op.des).end(); g_out->line(j);
        } else if (op.kind == 2) {
            lv.addCon(op.c, true);
            vt::J j; j.obj().k("e").s("AddConstraint").k("c"); conJson(j, op.c); j.end(); g_out->line(j);
        } else ok = call(op.kind);
    }
    g_live = nullptr;
}
