// C01/C02 harness for libavoid's own copy of the incremental VPSC solver
// (Avoid::IncSolver in libavoid/vpsc.cpp), record level only.
//   h_avpsc recs <instances.txt> <out.json>
#include <cstddef>
#include <vector>
#include "libavoid/vpsc.h"
#include "libavoid/assertions.h"
#include "libvpsc/assertions.h"
#define VNS Avoid
#include "vpsc_drive.h"
#include "vpsc_recs.h"
#include "vpsc_redeq.h"

int main(int argc, char **argv)
{
    if (argc >= 4 && std::string(argv[1]) == "recs") return recsMode(argv[2], argv[3]);
    if (argc >= 4 && std::string(argv[1]) == "redeq") return redeqMode(argv[2], argv[3]);
    return 2;
}
