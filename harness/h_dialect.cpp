// libdialect harness (C18 SepPair transforms / TGLF, C19 decompositions).
//   h_dialect sepco <out.json>                 full table of SepPair::addSep / transform / SepMatrix::addSep / generated VPSC constraints
//   h_dialect tglf <count> <seed> <out.json>   random graphs written to TGLF and read back
//   h_dialect peel <graphs.txt> <out.json>     "n m (u v)*m" per line: peel(), connected components, symmetric tree layout
#include "vtrace.h"
#include <fstream>
#include <sstream>
#include <set>
#include <map>
#include "libdialect/libdialect.h"
#include "libdialect/io.h"
#include "libdialect/peeling.h"
#include "libdialect/trees.h"
#include "libdialect/planarise.h"
#include "libdialect/routing.h"
#include "libdialect/hola.h"
#include "libdialect/opts.h"
#include "libvpsc/assertions.h"
using namespace dialect;

static void spJson(vt::J &j, const SepPair &sp)
{
    auto gapJ = [&](double g) { j.arr().i(std::signbit(g) ? 1 : 0).i(llround(fabs(g) * 4)).end(); };   // <<sign bit, |gap| in quarters>>
    j.obj().k("xgt").i((int)sp.xgt).k("ygt").i((int)sp.ygt).k("xst").i((int)sp.xst).k("yst").i((int)sp.yst);
    j.k("xgap"); gapJ(sp.xgap); j.k("ygap"); gapJ(sp.ygap); j.end();
}

// the VPSC constraints a SepMatrix holding one pair generates, for node sizes (ws,hs) (wt,ht)
static void vpscJson(vt::J &j, int dimIdx, Graph &G, vpsc::Variables &vs)
{
    vpsc::Constraints cs; vpsc::Rectangles bbs;
    G.getSepMatrix().generateSeparationConstraints(dimIdx == 0 ? vpsc::XDIM : vpsc::YDIM, vs, cs, bbs);
    j.arr();
    for (auto c : cs) { j.arr().i(c->left->id).i(c->right->id).i(llround(c->gap * 4)).b(c->equality).end(); delete c; }
    j.end();
}

static int sepcoMode(const char *outFile)
{
    vt::Out out(outFile);
    out.line(std::string("{\"chunk\":40,\"recs\":["));
    static const double gaps[5] = {0.0, -0.0, 1.0, -1.0, 3.0};
    bool first = true;
    for (int sd = 0; sd < 8; sd++) for (int st = 1; st <= 2; st++) for (int gt = 0; gt < 2; gt++) for (int gi = 0; gi < 5; gi++) {
        SepPair base; base.src = 0; base.tgt = 1;
        base.addSep((GapType)gt, (SepDir)sd, (SepType)st, gaps[gi]);
        vt::J j; j.obj().k("sd").i(sd).k("st").i(st).k("gt").i(gt).k("gap").arr().i(std::signbit(gaps[gi]) ? 1 : 0).i(llround(fabs(gaps[gi]) * 4)).end();
        j.k("base"); spJson(j, base);
        j.k("tf").arr();
        for (int tf = 0; tf < 7; tf++) { SepPair p = base; p.transform((SepTransform)tf); spJson(j, p); }
        j.end();
        j.k("tf2").arr();     // all compositions of two transforms, row-major
        for (int t1 = 0; t1 < 7; t1++) for (int t2 = 0; t2 < 7; t2++) { SepPair p = base; p.transform((SepTransform)t1); p.transform((SepTransform)t2); spJson(j, p); }
        j.end();
        // group laws on the implementation: four quarter turns, two equal flips
        j.k("pow").arr();
        for (int tf = 0; tf < 7; tf++) { SepPair p = base; int n = (tf <= 1) ? 4 : 2; for (int k = 0; k < n; k++) p.transform((SepTransform)tf); spJson(j, p); }
        j.end();
        // through a SepMatrix, under both id orders, with node sizes and an extra boundary gap; and the generated VPSC constraints
        j.k("mat").arr();
        for (int flip = 0; flip < 2; flip++) for (int extra = 0; extra <= 2; extra += 2) {
            Graph G;
            Node_SP a = G.addNode(0, 0, 2, 4), b = G.addNode(5, 5, 4, 2);
            id_type ia = a->id(), ib = b->id();
            SepMatrix &M = G.getSepMatrix();
            M.setExtraBdryGap(extra);
            if (!flip) M.addSep(ia, ib, (GapType)gt, (SepDir)sd, (SepType)st, gaps[gi]);
            else M.addSep(ib, ia, (GapType)gt, negateSepDir((SepDir)sd), (SepType)st, gaps[gi]);
            ColaGraphRep &cgr = G.updateColaGraphRep();
            vpsc::Variables vs; for (size_t i = 0; i < cgr.rs.size(); i++) vs.push_back(new vpsc::Variable((int)i));
            j.obj().k("flip").i(flip).k("extra").i(extra).k("ia").i((long long)cgr.id2ix.at(ia)).k("ib").i((long long)cgr.id2ix.at(ib));
            j.k("cx"); vpscJson(j, 0, G, vs); j.k("cy"); vpscJson(j, 1, G, vs);
            j.end();
            for (auto v : vs) delete v;
        }
        j.end().end();
        out.line((first ? "" : ",") + j.out); first = false;
    }
    out.line(std::string("]}"));
    return 0;
}

static void graphJson(vt::J &j, Graph &G, std::map<id_type, int> &ext)
{
    // abstract graph: nodes by external index (position, size in 1/8), edges with routes, generated VPSC constraints per dim
    j.obj().k("nodes").arr();
    for (auto &kv : ext) {
        Node_SP n = G.getNodeLookup().at(kv.first);
        Avoid::Point c = n->getCentre(); dimensions d = n->getDimensions();
        j.arr().i(kv.second).i(llround(c.x * 8)).i(llround(c.y * 8)).i(llround(d.first * 8)).i(llround(d.second * 8)).end();
    }
    j.end().k("edges").arr();
    for (auto &kv : G.getEdgeLookup()) {
        auto ids = kv.second->getEndIds();
        j.obj().k("u").i(ext.at(ids.first)).k("v").i(ext.at(ids.second)).k("route").arr();
        for (auto &p : kv.second->getRoute()) j.arr().i(llround(p.x * 8)).i(llround(p.y * 8)).end();
        j.end().end();
    }
    j.end();
    ColaGraphRep &cgr = G.updateColaGraphRep();
    vpsc::Variables vs; for (size_t i = 0; i < cgr.rs.size(); i++) vs.push_back(new vpsc::Variable((int)i));
    for (int dim = 0; dim < 2; dim++) {
        vpsc::Constraints cs; vpsc::Rectangles bbs;
        G.getSepMatrix().generateSeparationConstraints(dim == 0 ? vpsc::XDIM : vpsc::YDIM, vs, cs, bbs);
        j.k(dim == 0 ? "cx" : "cy").arr();
        for (auto c : cs) { j.arr().i(ext.at(cgr.ix2id.at(c->left->id))).i(ext.at(cgr.ix2id.at(c->right->id))).i(llround(c->gap * 8)).b(c->equality).end(); delete c; }
        j.end();
    }
    for (auto v : vs) delete v;
    j.end();
}

static int tglfMode(int count, uint64_t seed, const char *outFile)
{
    vt::Rng rng(seed);
    vt::Out out(outFile);
    out.line(std::string("{\"chunk\":20,\"recs\":["));
    bool first = true;
    for (int it = 0; it < count; it++) {
        Graph G;
        int n = rng.range(2, 12);
        std::vector<Node_SP> ns;
        std::map<id_type, int> ext;
        // external ids: 0 all nodes numbered 0..n-1; 1 none; 2 the first k nodes carry (internal id + delta), the others none -- as when
        // a graph was read from a file and nodes were added through the API afterwards
        int idMode = rng.range(0, 3) == 0 ? 2 : (rng.range(0, 5) == 0 ? 1 : 0);
        int kExt = rng.range(1, n - 1), delta = rng.range(-1, 2);
        std::vector<std::vector<double> > geo;
        for (int i = 0; i < n; i++) {
            // distinct centres (nodes are named by their geometry after the round trip)
            double x = 3.0 * i + rng.range(0, 4) / 2.0 - 20, y = rng.range(-40, 40) / 2.0, w = rng.range(1, 8), h = rng.range(1, 8);
            Node_SP nd = G.addNode(x, y, w, h);
            if (idMode == 0) nd->setExternalId(i);
            else if (idMode == 2 && i < kExt) nd->setExternalId((int)nd->id() + delta);
            ns.push_back(nd); ext[nd->id()] = i;
            geo.push_back({x, y, w, h});
        }
        std::set<std::pair<int, int> > used;
        int m = rng.range(0, 2 * n);
        for (int e = 0; e < m; e++) {
            int u = rng.range(0, n - 1), v = rng.range(0, n - 1);
            if (u == v || used.count({std::min(u, v), std::max(u, v)})) continue;
            used.insert({std::min(u, v), std::max(u, v)});
            Edge_SP ed = G.addEdge(ns[u], ns[v]);
            int rp = rng.coin() ? rng.range(2, 4) : 0;
            for (int k = 0; k < rp; k++) ed->addRoutePoint(rng.range(-40, 40) / 2.0, rng.range(-40, 40) / 2.0);
        }
        SepMatrix &M = G.getSepMatrix();
        if (rng.coin(1, 3)) M.setExtraBdryGap(rng.range(1, 3));
        int nc = rng.range(0, n);
        std::set<std::pair<int, int> > cused;
        static const double gaps[6] = {0.0, 1.0, 2.5, 3.0, 0.5, 7.0};
        for (int k = 0; k < nc; k++) {
            int u = rng.range(0, n - 1), v = rng.range(0, n - 1);
            if (u == v || cused.count({std::min(u, v), std::max(u, v)})) continue;
            cused.insert({std::min(u, v), std::max(u, v)});
            int sd = rng.range(0, 7), st = rng.range(1, 2), gt = rng.range(0, 1);
            double gap = gaps[rng.range(0, 5)];
            if (gt == 0 && st == 1 && sd < 4 && gap == 0) gap = 1;      // centre-equality with zero gap would make the nodes coincide (the writer refuses it)
            M.addSep(ns[u]->id(), ns[v]->id(), (GapType)gt, (SepDir)sd, (SepType)st, gap);
        }
        vt::J j; j.obj();
        bool thrown = false; std::string what;
        try {
            j.k("before"); graphJson(j, G, ext);
            std::string text = G.writeTglf(idMode != 1 || rng.coin());
            Graph_SP H = buildGraphFromTglf(text);
            std::map<id_type, int> ext2;
            std::set<int> taken; int strangers = 0;
            for (auto &kv : H->getNodeLookup()) {
                Avoid::Point c = kv.second->getCentre(); dimensions dm = kv.second->getDimensions();
                int who = -1;
                for (int i = 0; i < n; i++) if (!taken.count(i) && fabs(geo[i][0] - c.x) < 1e-6 && fabs(geo[i][1] - c.y) < 1e-6 && fabs(geo[i][2] - dm.first) < 1e-6 && fabs(geo[i][3] - dm.second) < 1e-6) { who = i; break; }
                if (who < 0) who = 1000 + strangers++; else taken.insert(who);      // a node that matches nothing that was written
                ext2[kv.first] = who;
            }
            j.k("after"); graphJson(j, *H, ext2);
        } catch (std::exception &e) { thrown = true; what = e.what(); }
        catch (vpsc::CriticalFailure &f) { thrown = true; what = f.what(); }
        if (thrown) { j.clear(); j.obj().k("thrown").b(true).k("what").s(what).end(); }
        else j.k("thrown").b(false).end();
        out.line((first ? "" : ",") + j.out); first = false;
    }
    out.line(std::string("]}"));
    return 0;
}

#include "h_dialect_peel.h"
#include "h_dialect_hola.h"
#include "h_dialect_planar.h"
#include "libdialect/chains.h"
// bendseq mode: dumps the generated lookup table minimalBendSeqs (bendseqlookup.cpp) as records [c, d0, d1, [[shape..]..]]
// with the library's enum values: CompassDir E,S,W,N,SE,SW,NW,NE = 0..7; CardinalDir E,S,W,N = 0..3; LinkShape TLC=0, BLC=2, TRC=3, BRC=5
static int bendseqMode(const char *outFile)
{
    vt::Out out(outFile);
    vt::J j; j.obj().k("recs").arr();
    for (int c = 0; c < 8; c++) for (int d0 = 0; d0 < 4; d0++) for (int d1 = 0; d1 < 4; d1++) {
        j.obj().k("c").i(c).k("d0").i(d0).k("d1").i(d1).k("present").b(true).k("seqs").arr();
        try {
            const auto &v = minimalBendSeqs.at((CompassDir)c).at((CardinalDir)d0).at((CardinalDir)d1);
            for (auto &sq : v) { j.arr(); for (auto b : sq) j.i((int)b); j.end(); }
            j.end().end();
        } catch (std::out_of_range &) { j.end().k("missing").b(true).end(); }
    }
    j.end().end(); out.line(j);
    return 0;
}

int main(int argc, char **argv)
{
    if (argc < 3) return 2;
    std::string m = argv[1];
    if (m == "sepco") return sepcoMode(argv[2]);
    if (m == "tglf" && argc >= 5) return tglfMode(atoi(argv[2]), strtoull(argv[3], 0, 10), argv[4]);
    if (m == "peel" && argc >= 4) return peelMode(argv[2], argv[3]);
    if (m == "planar" && argc >= 4) return planarMode(argv[2], argv[3]);
    if (m == "bendseq" && argc >= 3) return bendseqMode(argv[2]);
    if (m == "hola" && argc >= 4) return holaMode(argv[2], argv[3], argc > 4 ? atol(argv[4]) : 0, argc > 5 ? atol(argv[5]) : 0);
    return 2;
}
