// planar mode: "n (x y w h)*n m (u v npts (x y)*npts)*m" per line (integers; routes from centre of u to centre of v, axis-parallel steps).
// Runs OrthoPlanariser on the routed graph and records the planar graph: nodes [ext|0, 4x, 4y], edges as index pairs into that list.
static int planarMode(const char *inFile, const char *outFile)
{
    std::ifstream in(inFile);
    vt::Out out(outFile);
    out.line(std::string("{\"chunk\":20,\"S\":4,\"recs\":["));
    int n; bool first = true;
    while (in >> n) {
        std::vector<std::vector<int> > nd(n, std::vector<int>(4));
        for (auto &q : nd) in >> q[0] >> q[1] >> q[2] >> q[3];
        int m; in >> m;
        struct E { int u, v; std::vector<std::pair<int, int> > pts; };
        std::vector<E> es(m);
        for (auto &e : es) { int k; in >> e.u >> e.v >> k; e.pts.resize(k); for (auto &p : e.pts) in >> p.first >> p.second; }
        vt::J j; j.obj().k("n").i(n).k("nodes").arr(); for (auto &q : nd) j.arr().i(q[0]).i(q[1]).end(); j.end();
        j.k("edges").arr();
        for (auto &e : es) { j.obj().k("u").i(e.u).k("v").i(e.v).k("pts").arr(); for (auto &p : e.pts) j.arr().i(p.first).i(p.second).end(); j.end().end(); }
        j.end();
        bool thrown = false, assertion = false; std::string what;
        try {
            Graph_SP G = std::make_shared<Graph>();
            std::vector<Node_SP> ns; std::map<id_type, int> ext;
            for (int i = 0; i < n; i++) { Node_SP v = G->addNode(nd[i][0], nd[i][1], nd[i][2], nd[i][3]); ns.push_back(v); ext[v->id()] = i + 1; }
            for (auto &e : es) {
                Edge_SP ed = G->addEdge(ns[e.u - 1], ns[e.v - 1]);
                std::vector<Avoid::Point> rt; for (auto &p : e.pts) rt.push_back(Avoid::Point(p.first, p.second));
                ed->setRoute(rt);
            }
            OrthoPlanariser op(G);
            Graph_SP P = op.planarise();
            std::map<id_type, int> idx; int k = 0;
            j.k("pn").arr();
            for (auto &kv : P->getNodeLookup()) {
                Avoid::Point c = kv.second->getCentre();
                j.arr().i(ext.count(kv.first) ? ext.at(kv.first) : 0).i(llround(c.x * 4)).i(llround(c.y * 4)).end();
                idx[kv.first] = ++k;
            }
            j.end().k("pe").arr();
            for (auto &kv : P->getEdgeLookup()) { auto ids = kv.second->getEndIds(); j.arr().i(idx.count(ids.first) ? idx.at(ids.first) : 0).i(idx.count(ids.second) ? idx.at(ids.second) : 0).end(); }
            j.end();
        } catch (vpsc::CriticalFailure &f) { thrown = true; assertion = true; what = f.what(); }
        catch (std::exception &e) { thrown = true; what = e.what(); }
        if (thrown) j.k("pn").arr().end().k("pe").arr().end();
        j.k("thrown").b(thrown).k("assertion").b(assertion).k("what").s(what).end();
        out.line((first ? "" : ",") + j.out); first = false; out.flush();
    }
    out.line(std::string("]}"));
    return 0;
}
