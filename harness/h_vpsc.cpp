// C01/C02/C20 harness for libvpsc.
//   h_vpsc trace <instances.txt> <out.ndjson> [satisfyFirst]
//        runs every instance+history on a live vpsc::IncSolver with the H1
//        tracer installed and writes one ndjson execution per instance.
//   h_vpsc recs <instances.txt> <out.json>
//        runs every instance through IncSolver (solve, satisfy), the static
//        Solver, permuted/relabelled copies, and logs the results as records.
//   h_vpsc gen <count> <seed> <out.txt> <class>
//        random instances (classes: hist = lattice instances with re-solve
//        histories; med = medium instances n<=12; scaled = with scales).
#include <cstddef>
#include <vector>
#include "libvpsc/solve_VPSC.h"
#include "libvpsc/variable.h"
#include "libvpsc/constraint.h"
#include "libvpsc/exceptions.h"
#include "libvpsc/assertions.h"
#define VNS vpsc
#define VPSC_HOOKED 1
#define HAVE_STATIC_SOLVER 1
#include "vpsc_drive.h"
#include "vpsc_recs.h"
#include "vpsc_redeq.h"

int main(int argc, char **argv)
{
    if (argc < 2) return 2;
    std::string m = argv[1];
    if (m == "trace" && argc >= 4) {
        std::ifstream in(argv[2]);
        vt::Out out(argv[3]); g_out = &out;
        bool sat = argc > 4 && atoi(argv[4]) != 0;
        vpsc::verif_emit = emitHook;
        VInst I; long nexec = 0;
        while (readInst(in, I)) { traceOne(I, sat); nexec++; }
        vpsc::verif_emit = nullptr;
        vt::J j; j.obj().k("e").s("End").k("executions").i(nexec).end(); out.line(j);
        return 0;
    }
    if (m == "recs" && argc >= 4) return recsMode(argv[2], argv[3]);
    if (m == "redeq" && argc >= 4) return redeqMode(argv[2], argv[3]);
    if (m == "repeat" && argc >= 4) return repeatMode(argv[2], argv[3]);
    if (m == "gen" && argc >= 6) return genMode(atoi(argv[2]), strtoull(argv[3], 0, 10), argv[4], argv[5]);
    return 2;
}
