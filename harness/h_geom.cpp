// C16 harness: evaluates the real libavoid / libvpsc geometry predicates over
// canonical enumerations and writes packed result tables for TLC to re-derive
// with exact arithmetic (spec/avoid/GeomTable.tla).  No oracle lives here.
//
//   h_geom grid  G outdir          -> outdir/t3.json, outdir/t4_<a>.json
//   h_geom poly  G outdir          -> outdir/tri.json, outdir/quad_<p1>.json
//   h_geom big   N seed outfile    -> random tuples with coordinates up to 2^20
#include "vtrace.h"
#include <fstream>
#include "libavoid/geometry.h"
#include "libavoid/geomtypes.h"
#include "libavoid/libavoid.h"
#include "libavoid/scanline.h"
#include <iostream>
namespace ls {
#include "libvpsc/linesegment.h"
}
using namespace Avoid;

static Point P(int i, int G) { return Point(i / G, i % G); }

static int pack3(const Point &a, const Point &b, const Point &c)
{
    int v = vecDir(a, b, c) + 1;
    v |= (pointOnLine(a, b, c) ? 1 : 0) << 2;
    v |= (colinear(a, b, c) ? 1 : 0) << 3;
    if (vecDir(a, b, c) == 0) v |= (inBetween(a, b, c) ? 1 : 0) << 4;
    return v;
}

struct R4 { int bits; bool hasA, hasL; double ax, ay, lx, ly; };

static R4 pack4(const Point &a, const Point &b, const Point &c, const Point &d)
{
    R4 r; r.hasA = r.hasL = false; r.ax = r.ay = r.lx = r.ly = 0;
    int v = segmentIntersect(a, b, c, d) ? 1 : 0;
    bool seen = false;
    bool r1 = segmentShapeIntersect(a, b, c, d, seen);
    v |= (r1 ? 1 : 0) << 1; v |= (seen ? 1 : 0) << 2;
    seen = true;
    bool r2 = segmentShapeIntersect(a, b, c, d, seen);
    v |= (r2 ? 1 : 0) << 3; v |= (seen ? 1 : 0) << 4;
    double x = 0, y = 0;
    int cls = segmentIntersectPoint(a, b, c, d, &x, &y);
    v |= (cls & 3) << 5;
    if (cls == DO_INTERSECT) { r.hasA = true; r.ax = x; r.ay = y; }
    v |= (inValidRegion(false, a, b, c, d) ? 1 : 0) << 7;
    v |= (inValidRegion(true, a, b, c, d) ? 1 : 0) << 8;
    v |= (cornerSide(a, b, c, d) + 1) << 9;
    ls::linesegment::LineSegment s0(ls::linesegment::Vector(a.x, a.y), ls::linesegment::Vector(b.x, b.y));
    ls::linesegment::LineSegment s1(ls::linesegment::Vector(c.x, c.y), ls::linesegment::Vector(d.x, d.y));
    ls::linesegment::Vector ip;
    int lc = (int)s0.Intersect(s1, ip);
    v |= (lc & 3) << 11;
    if (lc == ls::linesegment::LineSegment::INTERSECTING) { r.hasL = true; r.lx = ip.x_; r.ly = ip.y_; }
    r.bits = v;
    return r;
}

static const double S20 = 1048576.0;

static int gridMode(int G, const std::string &dir)
{
    int N = G * G;
    {
        vt::Out o((dir + "/t3.json").c_str());
        vt::J j; j.obj().k("G").i(G).k("t").arr();
        for (int a = 0; a < N; a++) {
            j.arr();
            for (int b = 0; b < N; b++) for (int c = 0; c < N; c++)
                j.i(pack3(P(a, G), P(b, G), P(c, G)));
            j.end();
        }
        j.end().end(); o.line(j);
    }
    for (int a = 0; a < N; a++) {
        vt::Out o((dir + "/t4_" + std::to_string(a) + ".json").c_str());
        std::vector<int> bits; std::vector<long long> ax, ay, lx, ly;
        for (int b = 0; b < N; b++) for (int c = 0; c < N; c++) for (int d = 0; d < N; d++) {
            R4 r = pack4(P(a, G), P(b, G), P(c, G), P(d, G));
            bits.push_back(r.bits);
            ax.push_back(r.hasA ? vt::lat(r.ax, S20) : 0); ay.push_back(r.hasA ? vt::lat(r.ay, S20) : 0);
            lx.push_back(r.hasL ? vt::lat(r.lx, S20) : 0); ly.push_back(r.hasL ? vt::lat(r.ly, S20) : 0);
        }
        vt::J j; j.obj().k("G").i(G).k("a").i(a).k("bits").ints(bits)
            .k("ax").ints(ax).k("ay").ints(ay).k("lx").ints(lx).k("ly").ints(ly).end();
        o.line(j);
    }
    return 0;
}

static int polyBits(const std::vector<Point> &ps, const Point &q)
{
    Polygon poly((int)ps.size());
    for (size_t i = 0; i < ps.size(); i++) poly.ps[i] = ps[i];
    int v = inPoly(poly, q, true) ? 1 : 0;
    v |= (inPoly(poly, q, false) ? 1 : 0) << 1;
    v |= (inPolyGen(poly, q) ? 1 : 0) << 2;
    return v;
}

static int polyMode(int G, const std::string &dir)
{
    int N = G * G;
    {
        vt::Out o((dir + "/tri.json").c_str());
        vt::J j; j.obj().k("G").i(G).k("t").arr();
        for (int a = 0; a < N; a++) {
            j.arr();
            for (int b = 0; b < N; b++) for (int c = 0; c < N; c++) for (int q = 0; q < N; q++)
                j.i(polyBits({P(a, G), P(b, G), P(c, G)}, P(q, G)));
            j.end();
        }
        j.end().end(); o.line(j);
    }
    for (int a = 0; a < N; a++) {
        vt::Out o((dir + "/quad_" + std::to_string(a) + ".json").c_str());
        vt::J j; j.obj().k("G").i(G).k("a").i(a).k("t").arr();
        for (int b = 0; b < N; b++) for (int c = 0; c < N; c++) for (int d = 0; d < N; d++) for (int q = 0; q < N; q++)
            j.i(polyBits({P(a, G), P(b, G), P(c, G), P(d, G)}, P(q, G)));
        j.end().end(); o.line(j);
    }
    return 0;
}

// Random tuples with large integer coordinates; also the symmetry clauses are
// evaluated on the implementation directly (swap / reverse of arguments).
static int bigMode(int n, uint64_t seed, const std::string &file)
{
    vt::Rng rng(seed);
    vt::Out o(file.c_str());
    vt::J j; j.obj().k("recs").arr();
    for (int i = 0; i < n; i++) {
        int M = 1 << rng.range(3, 20);
        Point p[4];
        int kind = rng.range(0, 3);
        for (int k = 0; k < 4; k++) p[k] = Point(rng.range(-M, M), rng.range(-M, M));
        if (kind == 1) {           // force c on line ab (degenerate), d mirrored
            int t = rng.range(-3, 4);
            p[2] = Point(p[0].x + t * (p[1].x - p[0].x) / 1, p[0].y + t * (p[1].y - p[0].y) / 1);
            if (fabs(p[2].x) > (1 << 21) || fabs(p[2].y) > (1 << 21)) p[2] = p[0];
        } else if (kind == 2) {    // shared endpoint
            p[2] = p[rng.range(0, 1)];
        }
        int v = vecDir(p[0], p[1], p[2]) + 1;
        v |= (segmentIntersect(p[0], p[1], p[2], p[3]) ? 1 : 0) << 2;
        v |= (pointOnLine(p[0], p[1], p[2]) ? 1 : 0) << 3;
        v |= (colinear(p[0], p[1], p[2]) ? 1 : 0) << 4;
        // symmetry clauses on the implementation itself
        bool sym = true;
        sym &= segmentIntersect(p[0], p[1], p[2], p[3]) == segmentIntersect(p[1], p[0], p[2], p[3]);
        sym &= segmentIntersect(p[0], p[1], p[2], p[3]) == segmentIntersect(p[0], p[1], p[3], p[2]);
        sym &= segmentIntersect(p[0], p[1], p[2], p[3]) == segmentIntersect(p[2], p[3], p[0], p[1]);
        sym &= pointOnLine(p[0], p[1], p[2]) == pointOnLine(p[1], p[0], p[2]);
        sym &= vecDir(p[0], p[1], p[2]) == -vecDir(p[1], p[0], p[2]);
        sym &= vecDir(p[0], p[1], p[2]) == vecDir(p[1], p[2], p[0]);
        v |= (sym ? 1 : 0) << 5;
        j.obj().k("p").arr();
        for (int k = 0; k < 4; k++) { j.i((long long)p[k].x); j.i((long long)p[k].y); }
        j.end().k("v").i(v).end();
    }
    j.end().end(); o.line(j);
    return 0;
}

// Simplify.tla (B2): Polygon::simplify() with a live checkpoint cache.
//   input lines: n (x y)*n  m (value x y)*m      output: {"chunk":C,"recs":[{ps,cps,qs,cq}...]}
static int simpMode(const char *inPath, const char *outPath, const char *chunk)
{
    std::ifstream in(inPath);
    vt::Out o(outPath);
    o.line(std::string("{\"chunk\":") + chunk + ",\"recs\":[");
    int n; bool first = true;
    while (in >> n) {
        Polygon p(n);
        for (int i = 0; i < n; i++) { double x, y; in >> x >> y; p.ps[i] = Point(x, y); }
        int m; in >> m;
        for (int i = 0; i < m; i++) { long v; double x, y; in >> v >> x >> y; p.checkpointsOnRoute.push_back(std::make_pair((size_t)v, Point(x, y))); }
        Polygon q = p.simplify();
        vt::J j; j.obj().k("ps").arr();
        for (size_t i = 0; i < p.size(); i++) j.arr().i((long long)p.ps[i].x).i((long long)p.ps[i].y).end();
        j.end().k("cps").arr();
        for (auto &c : p.checkpointsOnRoute) j.arr().i((long long)c.first).i((long long)c.second.x).i((long long)c.second.y).end();
        j.end().k("qs").arr();
        for (size_t i = 0; i < q.size(); i++) j.arr().i((long long)q.ps[i].x).i((long long)q.ps[i].y).end();
        j.end().k("cq").arr();
        for (auto &c : q.checkpointsOnRoute) {
            // size_t values that wrapped below zero are written as negative numbers (TLC integers are 32-bit)
            long long v = c.first > (size_t)1000000 ? -(long long)(~c.first + 1) : (long long)c.first;
            j.arr().i(v).i((long long)c.second.x).i((long long)c.second.y).end();
        }
        j.end();
        // the cache the library itself builds (buildConnectorRouteCheckpointCache, scanline.cpp) for a connector whose displayed route
        // is p and whose routing checkpoints are the cache's points, in cache order
        {
            Router router(OrthogonalRouting);
            ConnRef *conn = new ConnRef(&router, ConnEnd(p.ps[0]), ConnEnd(p.ps[p.size() - 1]));
            conn->setRoutingType(ConnType_Orthogonal);
            std::vector<Checkpoint> cpl;
            for (auto &c : p.checkpointsOnRoute) cpl.push_back(Checkpoint(c.second));
            conn->setRoutingCheckpoints(cpl);
            router.processTransaction();      // registers the connector with the router (and routes it; the route is replaced below)
            PolyLine pl(p.size()); pl.ps = p.ps;
            conn->set_route(pl);
            buildConnectorRouteCheckpointCache(&router);
            j.k("built").arr();
            for (auto &c : conn->displayRoute().checkpointsOnRoute) j.arr().i((long long)c.first).i((long long)c.second.x).i((long long)c.second.y).end();
            j.end();
            clearConnectorRouteCheckpointCache(&router);
            j.k("cleared").i((long long)conn->displayRoute().checkpointsOnRoute.size());
        }
        // checkpointsOnSegment() of the simplified route, for every segment and the three index modifiers
        j.k("cos").arr();
        for (size_t sgm = 0; sgm + 1 < q.size(); sgm++)
            for (int md = -1; md <= 1; md++) {
                std::vector<Point> on = q.checkpointsOnSegment(sgm, md);
                j.arr().i((long long)sgm).i(md).arr();
                for (auto &pt : on) j.arr().i((long long)pt.x).i((long long)pt.y).end();
                j.end().end();
            }
        j.end().end();
        o.line((first ? "" : ",") + j.out); first = false;
    }
    o.line(std::string("]}"));
    return 0;
}

int main(int argc, char **argv)
{
    if (argc < 2) return 2;
    std::string m = argv[1];
    try {
        if (m == "grid" && argc == 4) return gridMode(atoi(argv[2]), argv[3]);
        if (m == "poly" && argc == 4) return polyMode(atoi(argv[2]), argv[3]);
        if (m == "simp" && argc == 5) return simpMode(argv[2], argv[3], argv[4]);
        if (m == "big" && argc == 5) return bigMode(atoi(argv[2]), strtoull(argv[3], 0, 10), argv[4]);
    } catch (vpsc::CriticalFailure &f) {
        fprintf(stderr, "CriticalFailure: %s\n", f.what().c_str());
        return 3;
    }
    return 2;
}
