// libcola layout harness (C07 constraints honoured or reported, C08 overlap avoidance / cluster containment,
// C20 layout reproducibility).
//   h_layout run <cases.txt> <out.json> [chunk]
// One case per line (integers):
//   n  (w h x y)*n   m (u v)*m   flags (1 overlap avoidance, 2 makeFeasible, 4 majorization, 8 neighbour stress, 32 makeFeasible only, 64 exemptions declared twice)   ncons cons...   ngroups (k ids..)*   nclusters (pad margin parent k nodes..)*   (parent: -1 = root, else index of an earlier cluster)
//   flags: bit0 avoid overlaps, bit1 makeFeasible before run, bit2 use ConstrainedMajorizationLayout,
//          bit3 neighbour stress, bit4 run twice with heap churn in between (C20)
//   cons:  1 dim l r gap eq | 2 dim k (i off)*k fixed pos | 3 dim k (i off)*k | 4 dim min eq np (a1 a2)*np
//          5 dim sep np (a1 a2)*np | 6 k ids*k        (a1, a2: 0-based indices of earlier kind-2 constraints in this list)
// Node indices are 0-based.  Positions x, y are centres.
#include "vtrace.h"
#include <fstream>
#include <set>
#include "libcola/cola.h"
#include "libcola/cluster.h"
#include "libcola/compound_constraints.h"
#include "libvpsc/rectangle.h"
#include "libvpsc/assertions.h"
using namespace cola;

static const double S = 10000.0;
// positions on the 1e-4 lattice; 2000000000 = not finite (NaN/inf), 1999999999 = finite but beyond what a 32-bit lattice can hold (|v| >= 2e5)
static long long lat(double v) { return !std::isfinite(v) ? 2000000000 : (fabs(v) < 2e5) ? llround(v * S) : 1999999999; }

struct Con { int kind, dim; std::vector<int> a; };
struct Case {
    int n; std::vector<int> w, h, x, y; std::vector<std::pair<int, int> > es; int flags;
    std::vector<Con> cons; std::vector<std::vector<int> > groups;
    struct Cl { int pad, margin, parent; std::vector<int> nodes; }; std::vector<Cl> clusters;
};

static bool readCase(std::istream &in, Case &c)
{
    if (!(in >> c.n)) return false;
    c.w.resize(c.n); c.h.resize(c.n); c.x.resize(c.n); c.y.resize(c.n);
    for (int i = 0; i < c.n; i++) in >> c.w[i] >> c.h[i] >> c.x[i] >> c.y[i];
    int m; in >> m; c.es.resize(m); for (auto &e : c.es) in >> e.first >> e.second;
    in >> c.flags;
    int nc; in >> nc; c.cons.clear();
    for (int i = 0; i < nc; i++) {
        Con k; in >> k.kind;
        auto rd = [&](int cnt) { for (int q = 0; q < cnt; q++) { int v; in >> v; k.a.push_back(v); } };
        if (k.kind == 1) { in >> k.dim; rd(4); }
        else if (k.kind == 2) { in >> k.dim; int cnt; in >> cnt; k.a.push_back(cnt); rd(2 * cnt + 2); }
        else if (k.kind == 3) { in >> k.dim; int cnt; in >> cnt; k.a.push_back(cnt); rd(2 * cnt); }
        else if (k.kind == 4) { in >> k.dim; rd(2); int np; in >> np; k.a.push_back(np); rd(2 * np); }
        else if (k.kind == 5) { in >> k.dim; rd(1); int np; in >> np; k.a.push_back(np); rd(2 * np); }
        else if (k.kind == 6) { k.dim = 0; int cnt; in >> cnt; k.a.push_back(cnt); rd(cnt); }
        c.cons.push_back(k);
    }
    int ng; in >> ng; c.groups.assign(ng, {});
    for (auto &g : c.groups) { int k; in >> k; g.resize(k); for (int &v : g) in >> v; }
    int ncl; in >> ncl; c.clusters.assign(ncl, {});
    for (auto &cl : c.clusters) { int k; in >> cl.pad >> cl.margin >> cl.parent >> k; cl.nodes.resize(k); for (int &v : cl.nodes) in >> v; }
    return true;
}

struct RunResult { std::vector<double> cx, cy, w, h; std::set<int> reported; bool thrown = false; std::string what; };

static RunResult runLayout(const Case &c)
{
    RunResult R;
    vpsc::Rectangles rs;
    for (int i = 0; i < c.n; i++) rs.push_back(new vpsc::Rectangle(c.x[i] - c.w[i] / 2.0, c.x[i] + c.w[i] / 2.0, c.y[i] - c.h[i] / 2.0, c.y[i] + c.h[i] / 2.0));
    std::vector<Edge> es; for (auto &e : c.es) es.push_back(std::make_pair((unsigned)e.first, (unsigned)e.second));
    CompoundConstraints ccs;
    std::vector<CompoundConstraint *> byIndex;
    std::vector<AlignmentConstraint *> aligns(c.cons.size(), nullptr);
    for (size_t i = 0; i < c.cons.size(); i++) {
        const Con &k = c.cons[i];
        vpsc::Dim dim = k.dim == 0 ? vpsc::XDIM : vpsc::YDIM;
        CompoundConstraint *cc = nullptr;
        if (k.kind == 1) cc = new SeparationConstraint(dim, k.a[0], k.a[1], k.a[2], k.a[3] != 0);
        else if (k.kind == 2) {
            AlignmentConstraint *ac = new AlignmentConstraint(dim);
            for (int q = 0; q < k.a[0]; q++) ac->addShape(k.a[1 + 2 * q], k.a[2 + 2 * q]);
            if (k.a[1 + 2 * k.a[0]]) ac->fixPos(k.a[2 + 2 * k.a[0]]);
            aligns[i] = ac; cc = ac;
        } else if (k.kind == 3) {
            BoundaryConstraint *bc = new BoundaryConstraint(dim);
            for (int q = 0; q < k.a[0]; q++) bc->addShape(k.a[1 + 2 * q], k.a[2 + 2 * q]);
            cc = bc;
        } else if (k.kind == 4) {
            MultiSeparationConstraint *ms = new MultiSeparationConstraint(dim, k.a[0], k.a[1] != 0);
            for (int q = 0; q < k.a[2]; q++) ms->addAlignmentPair(aligns.at(k.a[3 + 2 * q]), aligns.at(k.a[4 + 2 * q]));
            cc = ms;
        } else if (k.kind == 5) {
            DistributionConstraint *dc = new DistributionConstraint(dim);
            for (int q = 0; q < k.a[1]; q++) dc->addAlignmentPair(aligns.at(k.a[2 + 2 * q]), aligns.at(k.a[3 + 2 * q]));
            dc->setSeparation(k.a[0]);
            cc = dc;
        } else if (k.kind == 6) {
            std::vector<unsigned> ids; for (int q = 0; q < k.a[0]; q++) ids.push_back(k.a[1 + q]);
            cc = new FixedRelativeConstraint(rs, ids, false);
        }
        byIndex.push_back(cc); ccs.push_back(cc);
    }
    UnsatisfiableConstraintInfos ux, uy;
    RootCluster *root = nullptr;
    try {
        if (c.flags & 4) {
            ConstrainedMajorizationLayout alg(rs, es, nullptr, 30.0);
            alg.setConstraints(&ccs);
            alg.setUnsatisfiableConstraintInfo(&ux, &uy);
            if (c.flags & 1) alg.setAvoidOverlaps(true);
            alg.run();
        } else {
            ConstrainedFDLayout alg(rs, es, 30.0);
            alg.setConstraints(ccs);
            alg.setUnsatisfiableConstraintInfo(&ux, &uy);
            if (c.flags & 1) {
                ListOfNodeIndexes groups;
                for (auto &g : c.groups) { NodeIndexes ni; for (int v : g) ni.push_back(v); groups.push_back(ni); }
                alg.setAvoidNodeOverlaps(true, groups);
            }
            if (!c.clusters.empty()) {
                root = new RootCluster();
                std::vector<RectangularCluster *> made;
                for (auto &cl : c.clusters) {
                    RectangularCluster *rc = new RectangularCluster();
                    rc->setPadding(cl.pad); rc->setMargin(cl.margin);
                    for (int v : cl.nodes) rc->addChildNode(v);
                    if (cl.parent >= 0 && cl.parent < (int)made.size()) made[cl.parent]->addChildCluster(rc); else root->addChildCluster(rc);
                    made.push_back(rc);
                }
                alg.setClusterHierarchy(root);
            }
            if (c.flags & 8) alg.setUseNeighbourStress(true);
            if ((c.flags & 64) && (c.flags & 1)) {
                // flag 64: the exemptions are declared twice on one layout object -- first every node exempt from every other and a layout
                // with that, then the declaration the record carries (possibly none at all) and the layout that is judged
                ListOfNodeIndexes all; NodeIndexes everyone; for (unsigned v = 0; v < rs.size(); v++) everyone.push_back(v); all.push_back(everyone);
                alg.setAvoidNodeOverlaps(true, all);
                alg.makeFeasible(); alg.run();
                ListOfNodeIndexes groups;
                for (auto &g : c.groups) { NodeIndexes ni; for (int v : g) ni.push_back(v); groups.push_back(ni); }
                if (groups.empty()) alg.setAvoidNodeOverlaps(true); else alg.setAvoidNodeOverlaps(true, groups);
            }
            if (c.flags & 2) alg.makeFeasible();
            if (!(c.flags & 32)) alg.run();        // flag 32: makeFeasible() alone
        }
    } catch (vpsc::CriticalFailure &f) { R.thrown = true; R.what = f.what(); }
    catch (std::exception &e) { R.thrown = true; R.what = e.what(); }
    catch (...) { R.thrown = true; R.what = "unknown exception"; }
    for (auto r : rs) { R.cx.push_back(r->getCentreX()); R.cy.push_back(r->getCentreY()); R.w.push_back(r->width()); R.h.push_back(r->height()); }
    for (UnsatisfiableConstraintInfos *u : {&ux, &uy})
        for (auto info : *u) { for (size_t i = 0; i < byIndex.size(); i++) if (byIndex[i] == info->cc) R.reported.insert((int)i); }
    // anything reported that is not one of the user's compound constraints (non-overlap, containment): index -1
    for (UnsatisfiableConstraintInfos *u : {&ux, &uy})
        for (auto info : *u) { bool mine = false; for (auto cc : byIndex) if (cc == info->cc) mine = true; if (!mine) R.reported.insert(-1); }
    for (UnsatisfiableConstraintInfos *u : {&ux, &uy}) for (auto info : *u) delete info;
    for (auto cc : ccs) delete cc;
    for (auto r : rs) delete r;
    delete root;
    return R;
}

int main(int argc, char **argv)
{
    if (argc < 4 || std::string(argv[1]) != "run") return 2;
    std::ifstream in(argv[2]);
    vt::Out out(argv[3]);
    out.line(std::string("{\"chunk\":") + (argc > 4 ? argv[4] : "20") + ",\"S\":10000,\"recs\":[");
    Case c; bool first = true;
    long skip = argc > 5 ? atol(argv[5]) : 0, idx = 0;      // resume after a case that did not terminate
    while (readCase(in, c)) {
        if (idx++ < skip) continue;
        RunResult R = runLayout(c);
        vt::J j; j.obj().k("n").i(c.n).k("flags").i(c.flags);
        j.k("size").arr(); for (int i = 0; i < c.n; i++) j.arr().i(c.w[i]).i(c.h[i]).end(); j.end();
        j.k("init").arr(); for (int i = 0; i < c.n; i++) j.arr().i(c.x[i]).i(c.y[i]).end(); j.end();
        j.k("edges").arr(); for (auto &e : c.es) j.arr().i(e.first + 1).i(e.second + 1).end(); j.end();
        j.k("cons").arr();
        for (auto &k : c.cons) { j.obj().k("kind").i(k.kind).k("dim").i(k.dim).k("a").ints(k.a).end(); }
        j.end();
        j.k("groups").arr(); for (auto &g : c.groups) { j.arr(); for (int v : g) j.i(v + 1); j.end(); } j.end();
        j.k("clusters").arr(); for (auto &cl : c.clusters) { j.obj().k("pad").i(cl.pad).k("margin").i(cl.margin).k("parent").i(cl.parent + 1).k("nodes").arr(); for (int v : cl.nodes) j.i(v + 1); j.end().end(); } j.end();
        j.k("thrown").b(R.thrown); if (R.thrown) j.k("what").s(R.what);
        j.k("reported").arr(); for (int r : R.reported) j.i(r + 1); j.end();       // 1-based; 0 = a constraint not supplied by the user
        j.k("pos").arr(); for (int i = 0; i < c.n; i++) j.arr().i(lat(R.cx[i])).i(lat(R.cy[i])).end(); j.end();
        j.k("dim").arr(); for (int i = 0; i < c.n; i++) j.arr().i(lat(R.w[i])).i(lat(R.h[i])).end(); j.end();
        if (c.flags & 16) {
            // the same call sequence again, with unrelated allocations and an unrelated layout in between
            std::vector<void *> junk; for (int q = 0; q < 200; q++) junk.push_back(malloc(16 + (q * 37) % 900));
            { Case other = c; for (int i = 0; i < other.n; i++) { other.x[i] = (other.x[i] * 7 + 13) % 90; } runLayout(other); }
            for (size_t q = 0; q < junk.size(); q += 2) free(junk[q]);
            RunResult R2 = runLayout(c);
            for (size_t q = 1; q < junk.size(); q += 2) free(junk[q]);
            bool same = R2.cx.size() == R.cx.size();
            double maxd = 0;
            for (size_t i = 0; same && i < R.cx.size(); i++) maxd = std::max(maxd, std::max(fabs(R.cx[i] - R2.cx[i]), fabs(R.cy[i] - R2.cy[i])));
            j.k("repeatMaxDiffE9").i(std::isfinite(maxd) ? (long long)std::min(maxd * 1e9, 2e9) : 2000000000);
        }
        j.end();
        out.line((first ? "" : ",") + j.out); first = false;
        out.flush();
    }
    out.line(std::string("]}"));
    return 0;
}
