// libavoid object-level harness (C11 pins/junctions/checkpoints, C12 hyperedges, C15 lifecycle).
//   h_life run <scenarios.txt> <out.ndjson>
// One scenario per line: "mode opts nops  op ... op", each op a fixed-length integer tuple:
//   1 S id x1 y1 x2 y2            new ShapeRef(rect)           (ids 1..9)
//   2 P shape cls xq yq prop inside dirs excl   new ShapeConnectionPin; offsets in quarters if prop, else absolute
//   3 J id x y                    new JunctionRef               (ids 11..19)
//   4 C id k1 a1 b1 k2 a2 b2      new ConnRef; end kind 0 point(a,b) 1 pin(shape,cls) 2 junction(id,-)   (ids 21..49)
//   5 K conn n x1 y1 x2 y2        checkpoints (n <= 2)
//   6 M shape dx dy               moveShape (relative)
//   7 R shape x1 y1 x2 y2         moveShape (new polygon: resize)
//   8 D shape                     deleteShape
//   9 X conn                      deleteConnector
//  10 Y junction                  deleteJunction
//  11 V junction dx dy            moveJunction (relative)
//  12 H junction                  hyperedgeRerouter()->registerHyperedgeForRerouting(junction)
//  13 T                           processTransaction
//  14 U b                         setTransactionUse
//  15 E conn end k a b            change a connector end
//  16 L n s1 c1 .. s5 c5         hyperedgeRerouter()->registerHyperedgeForRerouting(terminal list of n <= 5 shape pins; unused slots 0)
// Every execution is logged as ndjson: Reset, one line per op (with the live-object projection after each
// processing point), End.  A crash / sanitizer report / failed assertion truncates the execution.
#include "vtrace.h"
#include <fstream>
#include <map>
#include <set>
#include <csignal>
#include "libavoid/libavoid.h"
#include "libvpsc/assertions.h"
using namespace Avoid;

static const double LS = 1024.0;
static vt::Out *g_out = nullptr;

static long long lat(double v) { return (std::isfinite(v) && fabs(v) < 1e6) ? llround(v * LS) : 2000000000; }
static void ptJson(vt::J &j, const Point &p) { j.arr().i(lat(p.x)).i(lat(p.y)).end(); }

static void endJson(vt::J &j, const ConnEnd &e)
{
    j.obj().k("t").i((int)e.type());
    if (e.type() == ConnEndShapePin) j.k("s").i(e.shape() ? (long long)e.shape()->id() : -1).k("c").i(e.pinClassId());
    if (e.type() == ConnEndJunction) j.k("j").i(e.junction() ? (long long)e.junction()->id() : -1);
    j.k("p"); ptJson(j, e.position());
    j.end();
}

struct World {
    Router *router = nullptr;
    std::map<const void *, long long> seenIds;     // every object ever seen live: deleted-object lists hold freed pointers
    std::map<int, ShapeRef *> shapes;
    std::map<int, JunctionRef *> juncs;
    std::map<int, ConnRef *> conns;
    struct PinRec { int shape, cls, xq, yq, prop, inside, dirs, excl; ShapeConnectionPin *pin; };
    std::vector<PinRec> pins;
    bool txn = true;
    bool regPending = false, lastHadReg = false;   // a hyperedge registration waits for the next transaction / the last transaction had one
    std::set<int> goneJ, goneC;                    // the client's junctions / connectors that the library has reported as deleted (hyperedge lists)
};

static void snapshot(vt::J &j, World &w)
{
    Router *r = w.router;
    for (Obstacle *o : r->m_obstacles) w.seenIds[o] = o->id();
    for (ConnRef *c : r->connRefs) w.seenIds[c] = c->id();
    j.k("shapes").arr();
    for (Obstacle *o : r->m_obstacles) {
        ShapeRef *s = dynamic_cast<ShapeRef *>(o);
        if (!s) continue;
        Box bb = s->polygon().offsetBoundingBox(0);
        j.arr().i(s->id()).i(lat(bb.min.x)).i(lat(bb.min.y)).i(lat(bb.max.x)).i(lat(bb.max.y)).end();
    }
    j.end().k("juncs").arr();
    for (Obstacle *o : r->m_obstacles) {
        JunctionRef *q = dynamic_cast<JunctionRef *>(o);
        if (!q) continue;
        j.obj().k("id").i(q->id()).k("p"); ptJson(j, q->position()); j.k("rp"); ptJson(j, q->recommendedPosition()); j.end();
    }
    j.end().k("pins").arr();
    for (auto &p : w.pins) {
        if (!w.shapes.count(p.shape) || !p.pin) continue;
        j.obj().k("s").i(p.shape).k("c").i(p.cls).k("xq").i(p.xq).k("yq").i(p.yq).k("prop").b(p.prop != 0).k("inside").i(p.inside)
         .k("dirs").i(p.dirs).k("excl").b(p.pin->isExclusive()).k("p"); ptJson(j, p.pin->position()); j.end();
    }
    j.end().k("conns").arr();
    for (ConnRef *c : r->connRefs) {
        std::pair<ConnEnd, ConnEnd> ee = c->endpointConnEnds();
        j.obj().k("id").i(c->id()).k("type").i((int)c->routingType()).k("src"); endJson(j, ee.first); j.k("dst"); endJson(j, ee.second);
        j.k("raw").arr(); for (auto &p : c->route().ps) ptJson(j, p); j.end();
        j.k("disp").arr(); for (auto &p : c->displayRoute().ps) ptJson(j, p); j.end();
        j.k("cps").arr(); for (auto &cp : c->routingCheckpoints()) ptJson(j, cp.point); j.end();
        j.end();
    }
    j.end();
    // lists reported by hyperedge improvement / rerouting
    HyperedgeNewAndDeletedObjectLists L = r->newAndDeletedObjectListsFromHyperedgeImprovement();
    // (the lists are only refreshed by a transaction in which the improver runs: after one in which it does not, they may still name
    //  objects that have been freed since -- so "new" objects are dereferenced only if the router still has them)
    std::set<const void *> liveNow;
    for (Obstacle *o : r->m_obstacles) liveNow.insert(o);
    for (ConnRef *c : r->connRefs) liveNow.insert(c);
    j.k("newJ").arr(); for (auto q : L.newJunctionList) j.i(liveNow.count(q) ? (long long)q->id() : (w.seenIds.count(q) ? w.seenIds[q] : -1)); j.end();
    j.k("newC").arr(); for (auto q : L.newConnectorList) j.i(liveNow.count(q) ? (long long)q->id() : (w.seenIds.count(q) ? w.seenIds[q] : -1)); j.end();
    // (deleted objects may already be freed: identify them by address, never dereference)
    j.k("delJ").arr(); for (auto q : L.deletedJunctionList) j.i(w.seenIds.count(q) ? w.seenIds[q] : -1); j.end();
    j.k("delC").arr(); for (auto q : L.deletedConnectorList) j.i(w.seenIds.count(q) ? w.seenIds[q] : -1); j.end();
}

static ConnEnd mkEnd(World &w, int k, int a, int b)
{
    if (k == 1) return ConnEnd(w.shapes.at(a), (unsigned)b);
    if (k == 2) return ConnEnd(w.juncs.at(a));
    return ConnEnd(Point(a, b));
}

// junctions the last rerouting/improvement reported as deleted: they stay in the router until the next transaction removes them,
// and the client is told through the deleted-object lists not to use them any more (so the harness does not move or register them)
static std::set<JunctionRef *> goneJunctions(World &w)
{
    std::set<JunctionRef *> gone;
    HyperedgeNewAndDeletedObjectLists L = w.router->newAndDeletedObjectListsFromHyperedgeImprovement();
    gone.insert(L.deletedJunctionList.begin(), L.deletedJunctionList.end());
    if (w.lastHadReg) {      // (the rerouter's result vectors have an entry 0 only after a transaction that rerouted a registered hyperedge)
        HyperedgeNewAndDeletedObjectLists R = w.router->hyperedgeRerouter()->newAndDeletedObjectLists(0);
        gone.insert(R.deletedJunctionList.begin(), R.deletedJunctionList.end());
    }
    return gone;
}

// after a processing point: which of the client's own objects has the library reported as deleted?  (addresses are compared, nothing
// is dereferenced.)  A client must not use such an object again, so a pre-generated history that goes on to use one is cut there.
static void noteGone(World &w)
{
    HyperedgeNewAndDeletedObjectLists L = w.router->newAndDeletedObjectListsFromHyperedgeImprovement();
    std::set<const void *> dj(L.deletedJunctionList.begin(), L.deletedJunctionList.end()), dc(L.deletedConnectorList.begin(), L.deletedConnectorList.end());
    if (w.lastHadReg) {
        HyperedgeNewAndDeletedObjectLists R = w.router->hyperedgeRerouter()->newAndDeletedObjectLists(0);
        dj.insert(R.deletedJunctionList.begin(), R.deletedJunctionList.end()); dc.insert(R.deletedConnectorList.begin(), R.deletedConnectorList.end());
    }
    for (auto &kv : w.juncs) if (dj.count(kv.second)) w.goneJ.insert(kv.first);
    for (auto &kv : w.conns) if (dc.count(kv.second)) w.goneC.insert(kv.first);
}
static bool usesGone(const World &w, const std::vector<int> &o)
{
    auto J = [&](int id) { return w.goneJ.count(id) > 0; };
    auto C = [&](int id) { return w.goneC.count(id) > 0; };
    switch (o[0]) {
    case 4: return (o[2] == 2 && J(o[3])) || (o[5] == 2 && J(o[6]));
    case 5: case 9: return C(o[1]);
    case 10: case 11: case 12: return J(o[1]);
    case 15: return C(o[1]) || (o[3] == 2 && J(o[4]));
    }
    return false;
}

static void emitOp(const std::vector<int> &o, World *w, bool processed, const char *err)
{
    vt::J j; j.obj().k("e").s("Op").k("op").ints(o).k("processed").b(processed);
    if (err) j.k("error").s(err);
    if (processed && w && !err) snapshot(j, *w);
    j.end(); g_out->line(j); g_out->flush();
}

static int opLen(int t)
{
    static const int n[] = {0, 5, 8, 3, 7, 6, 3, 5, 1, 1, 1, 3, 1, 0, 1, 5, 11, 2, 1};
    return n[t];
}

static void runScenario(int mode, int opts, const std::vector<std::vector<int> > &ops)
{
    { vt::J j; j.obj().k("e").s("Reset").k("mode").i(mode).k("opts").i(opts).end(); g_out->line(j); }
    World w;
    w.router = new Router(mode ? OrthogonalRouting : PolyLineRouting);
    w.router->setRoutingParameter(segmentPenalty, 10);
    w.router->setRoutingParameter(shapeBufferDistance, (opts & 1) ? 2 : 0);
    w.router->setRoutingOption(improveHyperedgeRoutesMovingJunctions, (opts & 2) != 0);
    w.router->setRoutingOption(improveHyperedgeRoutesMovingAddingAndDeletingJunctions, (opts & 4) != 0);
    bool alive = true, truncated = false;
    for (size_t i = 0; i < ops.size() && alive; i++) {
        const std::vector<int> &o = ops[i];
        bool processed = false;
        if (usesGone(w, o)) { truncated = true; break; }      // (hyperedge improvement/rerouting has replaced that object: the history ends here)
        try {
            switch (o[0]) {
            case 1: { Rectangle rc(Point(o[2], o[3]), Point(o[4], o[5])); w.shapes[o[1]] = new ShapeRef(w.router, rc, o[1]); processed = !w.txn; break; }
            case 2: {
                ShapeRef *s = w.shapes.at(o[1]);
                ShapeConnectionPin *p = o[5] ? new ShapeConnectionPin(s, o[2], o[3] / 4.0, o[4] / 4.0, true, o[6], (ConnDirFlags)o[7])
                                             : new ShapeConnectionPin(s, o[2], o[3], o[4], false, o[6], (ConnDirFlags)o[7]);
                if (o[8]) p->setExclusive(true); else p->setExclusive(false);
                w.pins.push_back({o[1], o[2], o[3], o[4], o[5], o[6], o[7], o[8], p});
                break; }
            case 3: w.juncs[o[1]] = new JunctionRef(w.router, Point(o[2], o[3]), o[1]); w.goneJ.erase(o[1]); processed = !w.txn; break;
            case 4: w.conns[o[1]] = new ConnRef(w.router, mkEnd(w, o[2], o[3], o[4]), mkEnd(w, o[5], o[6], o[7]), o[1]); w.goneC.erase(o[1]); processed = !w.txn; break;
            case 5: { std::vector<Checkpoint> cps; for (int k = 0; k < o[2]; k++) cps.push_back(Checkpoint(Point(o[3 + 2 * k], o[4 + 2 * k])));
                      w.conns.at(o[1])->setRoutingCheckpoints(cps); break; }
            case 6: w.router->moveShape(w.shapes.at(o[1]), o[2], o[3]); processed = !w.txn; break;
            case 7: { Rectangle rc(Point(o[2], o[3]), Point(o[4], o[5])); w.router->moveShape(w.shapes.at(o[1]), rc); processed = !w.txn; break; }
            case 8: w.router->deleteShape(w.shapes.at(o[1])); w.shapes.erase(o[1]); for (auto &p : w.pins) if (p.shape == o[1]) p.pin = nullptr; processed = !w.txn; break;
            case 9: w.router->deleteConnector(w.conns.at(o[1])); w.conns.erase(o[1]); processed = !w.txn; break;
            case 10: w.router->deleteJunction(w.juncs.at(o[1])); w.juncs.erase(o[1]); processed = !w.txn; break;
            case 11: w.router->moveJunction(w.juncs.at(o[1]), o[2], o[3]); processed = !w.txn; break;
            case 12: w.router->hyperedgeRerouter()->registerHyperedgeForRerouting(w.juncs.at(o[1])); w.regPending = true; break;
            case 18:        // 18 opts: the two hyperedge improvement options are set anew (bits 2 and 4 as in the scenario's opts)
                w.router->setRoutingOption(improveHyperedgeRoutesMovingJunctions, (o[1] & 2) != 0);
                w.router->setRoutingOption(improveHyperedgeRoutesMovingAddingAndDeletingJunctions, (o[1] & 4) != 0);
                processed = !w.txn; break;
            case 17: {      // 17 dx dy: every junction the router currently has (also those hyperedge rerouting created) is moved by (dx, dy)
                std::vector<JunctionRef *> js;
                // (not those the last rerouting/improvement reported as deleted: they stay in the router until the next transaction
                //  removes them, and the client is told through the deleted-object lists not to use them any more)
                std::set<JunctionRef *> gone = goneJunctions(w);
                for (Obstacle *ob : w.router->m_obstacles) if (JunctionRef *q = dynamic_cast<JunctionRef *>(ob)) if (!gone.count(q)) js.push_back(q);
                for (JunctionRef *q : js) w.router->moveJunction(q, o[1], o[2]);
                processed = !w.txn && !js.empty(); break; }
            case 16: { ConnEndList terms; for (int q = 0; q < o[1] && q < 5; q++) terms.push_back(ConnEnd(w.shapes.at(o[2 + 2 * q]), (unsigned)o[3 + 2 * q]));
                       w.router->hyperedgeRerouter()->registerHyperedgeForRerouting(terms); w.regPending = true; break; }
            case 13: w.router->processTransaction(); processed = true; break;
            case 14: w.txn = o[1] != 0; w.router->setTransactionUse(w.txn); break;
            case 15: if (o[2] == 0) w.conns.at(o[1])->setSourceEndpoint(mkEnd(w, o[3], o[4], o[5])); else w.conns.at(o[1])->setDestEndpoint(mkEnd(w, o[3], o[4], o[5]));
                     processed = !w.txn; break;
            }
            if (processed) { w.lastHadReg = w.regPending; w.regPending = false; noteGone(w); }
            emitOp(o, &w, processed, nullptr);
        } catch (vpsc::CriticalFailure &f) { emitOp(o, &w, false, ("assertion: " + f.what()).c_str()); alive = false; }
        catch (std::out_of_range &) { emitOp(o, &w, false, "harness: unknown object"); alive = false; }
        catch (std::exception &e) { emitOp(o, &w, false, (std::string("exception: ") + e.what()).c_str()); alive = false; }
    }
    if (alive) {
        try { delete w.router; vt::J j; j.obj().k("e").s("End").k("ok").b(true); if (truncated) j.k("truncated").b(true); j.end(); g_out->line(j); }
        catch (vpsc::CriticalFailure &f) { vt::J j; j.obj().k("e").s("End").k("ok").b(false).k("error").s("assertion in ~Router: " + f.what()).end(); g_out->line(j); }
    } else {
        vt::J j; j.obj().k("e").s("End").k("ok").b(false).end(); g_out->line(j);     // router leaked on purpose: its state is undefined
    }
    g_out->flush();
}

static void onTerminate()
{
    std::string what = "terminate";
    try { std::exception_ptr p = std::current_exception(); if (p) std::rethrow_exception(p); }
    catch (vpsc::CriticalFailure &f) { what = "terminate: assertion: " + f.what(); }
    catch (std::exception &e) { what = std::string("terminate: ") + e.what(); }
    catch (...) { what = "terminate: unknown exception"; }
    if (g_out) { vt::J j; j.obj().k("e").s("Crash").k("what").s(what).end(); g_out->line(j); g_out->flush(); }
    _exit(0);
}
static void onSignal(int s) { if (g_out) { g_out->line(std::string("{\"e\":\"Crash\",\"what\":\"signal ") + std::to_string(s) + "\"}"); g_out->flush(); } _exit(0); }

int main(int argc, char **argv)
{
    if (argc < 4 || std::string(argv[1]) != "run") return 2;
    std::set_terminate(onTerminate);
#if defined(__has_feature)
#  if __has_feature(address_sanitizer)
#    define VT_ASAN 1
#  endif
#endif
#ifndef VT_ASAN
    signal(SIGSEGV, onSignal);      // (the sanitizer build keeps ASan's own SEGV report, which names the faulting frame)
#endif
    signal(SIGABRT, onSignal); signal(SIGFPE, onSignal);
    std::ifstream in(argv[2]);
    vt::Out out(argv[3]); g_out = &out;
    long skip = argc > 4 ? atol(argv[4]) : 0;      // resume after a crash: skip the first <skip> scenarios
    int mode, opts, nops; long idx = 0;
    while (in >> mode >> opts >> nops) {
        std::vector<std::vector<int> > ops(nops);
        for (auto &o : ops) { int t; in >> t; o.push_back(t); for (int k = 0; k < opLen(t); k++) { int v; in >> v; o.push_back(v); } }
        if (idx++ < skip) continue;
        { vt::J j; j.obj().k("e").s("Scenario").k("index").i(idx - 1).end(); out.line(j); }
        runScenario(mode, opts, ops);
    }
    return 0;
}
