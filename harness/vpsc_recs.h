// Record-level runs (B1): every instance is solved by all solver variants and
// the results are written as one JSON record for VpscRecs.tla.
#include <numeric>

static int pickS(const VInst &I, int &S1, int &S2)
{
    long long ext = 0;
    for (int d : I.des) ext = std::max<long long>(ext, std::abs(d));
    for (auto &c : I.cons) ext += std::abs(c.g);
    for (auto &op : I.ops) { if (op.kind == 1) for (int d : op.des) ext = std::max<long long>(ext, std::abs(d) + 64); if (op.kind == 2) ext += std::abs(op.c.g); }
    if (ext <= 30) { S1 = 4096; S2 = 4096; } else { S1 = 256; S2 = 4096; }
    return 0;
}

template <class VARS, class CONS>
static void runJson(vt::J &j, const char *solver, const char *call, bool thrown, const VARS &vs, const CONS &cs,
                    double S, const std::vector<int> *vperm, const std::vector<int> *cperm)
{
    // vperm[i] = index in vs of original variable i; cperm likewise
    j.obj().k("solver").s(solver).k("call").s(call).k("thrown").b(thrown);
    j.k("pos").arr();
    for (size_t i = 0; i < vs.size(); i++) {
        double x = vs[vperm ? (*vperm)[i] : i]->finalPosition;
        if (thrown) j.i(0); else if (!std::isfinite(x) || fabs(x * S) > 1.9e9) j.i(2000000000); else j.i(llround(x * S));
    }
    j.end().k("unsat").arr();
    for (size_t i = 0; i < cs.size(); i++) if (!thrown && cs[cperm ? (*cperm)[i] : i]->unsatisfiable) j.i((long long)i + 1);
    j.end().k("act").arr();
    for (size_t i = 0; i < cs.size(); i++) if (!thrown && cs[cperm ? (*cperm)[i] : i]->active) j.i((long long)i + 1);
    j.end().end();
}

struct Built {
    VNS::Variables vs; VNS::Constraints cs;
    ~Built() { for (auto c : cs) delete c; for (auto v : vs) delete v; }
};
static void buildPerm(const VInst &I, Built &b, const std::vector<int> &vorder, const std::vector<int> &corder,
                      std::vector<int> &vperm, std::vector<int> &cperm, int idBase)
{
    // vorder: position k holds original variable vorder[k]
    vperm.assign(I.n, 0); cperm.assign(I.m, 0);
    for (int k = 0; k < I.n; k++) {
        int o = vorder[k];
        b.vs.push_back(new VNS::Variable(idBase + k * 7, I.des[o], I.w[o], I.sc[o]));
        vperm[o] = k;
    }
    for (int k = 0; k < I.m; k++) {
        const VInst::Con &c = I.cons[corder[k]];
        b.cs.push_back(new VNS::Constraint(b.vs[vperm[c.l - 1]], b.vs[vperm[c.r - 1]], c.g, c.eq != 0));
        cperm[corder[k]] = k;
    }
}

static void probJson(vt::J &j, const VInst &I, int S1, int S2)
{
    j.k("n").i(I.n).k("des").ints(I.des).k("w").ints(I.w).k("sc").ints(I.sc);
    j.k("cons").arr(); for (auto &c : I.cons) conJson(j, c); j.end();
    j.k("S1").i(S1).k("S2").i(S2);
}

static int recsMode(const char *inFile, const char *outFile)
{
    std::ifstream in(inFile);
    vt::Out out(outFile);
    out.line(std::string("{\"chunk\":50,\"recs\":["));
    VInst I; bool firstRec = true; vt::Rng rng(vt::envSeed());
    auto emit = [&](vt::J &j) { out.line((firstRec ? "" : ",") + j.out); firstRec = false; };
    while (readInst(in, I)) {
        int S1, S2; pickS(I, S1, S2); double S = (double)S1 * S2;
        std::vector<int> idv(I.n), idc(I.m);
        std::iota(idv.begin(), idv.end(), 0); std::iota(idc.begin(), idc.end(), 0);
        vt::J j; j.obj(); probJson(j, I, S1, S2); j.k("runs").arr();
        for (int variant = 0; variant < 4; variant++) {
            // 0: inc solve, 1: inc satisfy, 2: inc solve on a permuted/relabelled copy, 3: inc solve reversed order
            std::vector<int> vo = idv, co = idc, vperm, cperm;
            if (variant == 2) { for (int k = I.n - 1; k > 0; k--) std::swap(vo[k], vo[rng.range(0, k)]);
                                for (int k = I.m - 1; k > 0; k--) std::swap(co[k], co[rng.range(0, k)]); }
            if (variant == 3) { std::reverse(vo.begin(), vo.end()); std::reverse(co.begin(), co.end()); }
            Built b; buildPerm(I, b, vo, co, vperm, cperm, variant * 1000);
            bool thrown = false;
            static const char *names[] = {"inc", "inc", "inc-perm", "inc-rev"};
            static const char *anames[] = {"inc-again", "", "inc-perm-again", "inc-rev-again"};
            try {
                VNS::IncSolver s(b.vs, b.cs); if (variant == 1) s.satisfy(); else s.solve();
                runJson(j, names[variant], variant == 1 ? "satisfy" : "solve", false, b.vs, b.cs, S, &vperm, &cperm);
                if (variant != 1) {
                    // the same call once more without any change in between (classifies early-exit findings, as for live re-solves)
                    bool t2 = false; try { s.solve(); } catch (...) { t2 = true; }
                    runJson(j, anames[variant], "solve", t2, b.vs, b.cs, S, &vperm, &cperm);
                }
            }
            catch (...) { thrown = true; }
            if (thrown) runJson(j, names[variant], variant == 1 ? "satisfy" : "solve", true, b.vs, b.cs, S, &vperm, &cperm);
        }
#ifdef HAVE_STATIC_SOLVER
        for (int variant = 0; variant < 4; variant++) {
            // 0: static solve, 1: static satisfy, 2: static solve on a permuted/relabelled copy, 3: static solve in reversed order
            std::vector<int> vo = idv, co = idc, vperm, cperm;
            if (variant == 2) { for (int k = I.n - 1; k > 0; k--) std::swap(vo[k], vo[rng.range(0, k)]);
                                for (int k = I.m - 1; k > 0; k--) std::swap(co[k], co[rng.range(0, k)]); }
            if (variant == 3) { std::reverse(vo.begin(), vo.end()); std::reverse(co.begin(), co.end()); }
            Built b; buildPerm(I, b, vo, co, vperm, cperm, 0);
            bool thrown = false;
            VNS::Solver *s = new VNS::Solver(b.vs, b.cs);
            try { if (variant == 1) s->satisfy(); else s->solve(); }
            catch (...) { thrown = true; }
            delete s;
            static const char *snames[] = {"static", "static", "static-perm", "static-rev"};
            runJson(j, snames[variant], variant == 1 ? "satisfy" : "solve", thrown, b.vs, b.cs, S, &vperm, &cperm);
        }
#endif
        j.end().end(); emit(j);
        // live history: re-solves on one IncSolver, one record per call with the problem as it is then
        if (!I.ops.empty()) {
            VInst cur = I; cur.ops.clear();
            Live lv; lv.build(I);
            bool ok = true;
            try { lv.solver->solve(); } catch (...) { ok = false; }
            for (size_t i = 0; ok && i < I.ops.size(); i++) {
                const VInst::Op &op = I.ops[i];
                if (op.kind == 1) { cur.des = op.des; for (int v = 0; v < I.n; v++) lv.vs[v]->desiredPosition = op.des[v]; }
                else if (op.kind == 2) { cur.cons.push_back(op.c); cur.m++; lv.addCon(op.c, true); }
                else {
                    bool thrown = false;
                    try { if (op.kind == 3) lv.solver->solve(); else lv.solver->satisfy(); } catch (...) { thrown = true; ok = false; }
                    vt::J h; h.obj(); probJson(h, cur, S1, S2); h.k("step").i((long long)i + 1).k("runs").arr();
                    runJson(h, "inc-live", op.kind == 3 ? "solve" : "satisfy", thrown, lv.vs, lv.cs, S, nullptr, nullptr);
                    if (ok && op.kind == 3) {
                        // the same call once more without any change in between (classifies early-exit findings)
                        try { lv.solver->solve(); } catch (...) { thrown = true; ok = false; }
                        runJson(h, "inc-live-again", "solve", thrown, lv.vs, lv.cs, S, nullptr, nullptr);
                    }
                    h.end().end(); emit(h);
                }
            }
        }
    }
    out.line(std::string("]}"));
    return 0;
}

// ---------------------------------------------------------------------------
// C20: the same call sequence twice (unrelated solver work and allocations in between), and once translated
static void runHistory(const VInst &I, double delta, std::vector<std::vector<double> > &results, bool *anyUnsat = nullptr)
{
    Live lv; lv.build(I);
    if (delta != 0) for (auto v : lv.vs) v->desiredPosition += delta;
    auto snap = [&]() { std::vector<double> r; for (auto v : lv.vs) r.push_back(v->finalPosition); results.push_back(r);
                        if (anyUnsat) for (auto c : lv.cs) if (c->unsatisfiable) *anyUnsat = true; };
    try { lv.solver->solve(); } catch (...) {}
    snap();
    for (auto &op : I.ops) {
        if (op.kind == 1) for (int v = 0; v < I.n; v++) lv.vs[v]->desiredPosition = op.des[v] + delta;
        else if (op.kind == 2) lv.addCon(op.c, true);
        else { try { if (op.kind == 3) lv.solver->solve(); else lv.solver->satisfy(); } catch (...) {} snap(); }
    }
}

static int repeatMode(const char *inFile, const char *outFile)
{
    std::ifstream in(inFile);
    vt::Out out(outFile);
    out.line(std::string("{\"chunk\":50,\"recs\":["));
    VInst I, prev; bool first = true, havePrev = false; vt::Rng rng(vt::envSeed());
    while (readInst(in, I)) {
        std::vector<std::vector<double> > A, B, T;
        bool anyUnsat = false;
        runHistory(I, 0, A, &anyUnsat);
        std::vector<void *> junk; for (int q = 0; q < 100; q++) junk.push_back(malloc(16 + rng.next() % 700));
        if (havePrev) { std::vector<std::vector<double> > X; runHistory(prev, 0, X); }
        for (size_t q = 0; q < junk.size(); q += 2) free(junk[q]);
        runHistory(I, 0, B);
        for (size_t q = 1; q < junk.size(); q += 2) free(junk[q]);
        int k = (int)(rng.next() % 8193) - 4096;
        runHistory(I, k / 1024.0, T, &anyUnsat);
        vt::J j; j.obj().k("kind").s("vpsc").k("n").i(I.n).k("m").i(I.m).k("k").i(k);
        auto lim = [&](const char *key, std::vector<std::vector<double> > &R) { j.k(key).arr(); for (auto &r : R) { j.arr(); for (double v : r) vt::limbs(j, v); j.end(); } j.end(); };
        lim("A", A); lim("B", B);
        double dev = 0, devSat = 0; bool shape = A.size() == T.size();
        // snapshot 0 is the initial solve(); then one per solve()/satisfy() call of the history.  satisfy() returns a feasible placement that
        // is not unique, so its deviation is kept apart from that of solve(), whose result is the unique optimum
        std::vector<int> snapKind; snapKind.push_back(3); for (auto &op : I.ops) if (op.kind == 3 || op.kind == 4) snapKind.push_back(op.kind);
        for (size_t s = 0; shape && s < A.size(); s++) for (size_t v = 0; v < A[s].size(); v++) {
            double dd = fabs(T[s][v] - (A[s][v] + k / 1024.0));
            if (s < snapKind.size() && snapKind[s] == 4) devSat = std::max(devSat, dd); else dev = std::max(dev, dd);
        }
        j.k("shape").b(shape).k("devE12").i(std::isfinite(dev) ? (long long)std::min(dev * 1e12, 2e9) : 2000000000);
        j.k("unsat").b(anyUnsat);      // some constraint was reported unsatisfiable in the run as given or in the translated run
        j.k("devSatE12").i(std::isfinite(devSat) ? (long long)std::min(devSat * 1e12, 2e9) : 2000000000);
        // independence of identifiers and order: the problem as given against a relabelled copy with shuffled variables and constraints,
        // for both solvers (fresh solve; judged for feasible systems of inequalities over an acyclic graph, where neither solver reports anything)
        {
            bool plain = true; for (auto &c : I.cons) if (c.eq || c.l >= c.r) plain = false;
            std::vector<int> idv(I.n), idc(I.m), vo, co, vp0, cp0, vp1, cp1;
            std::iota(idv.begin(), idv.end(), 0); std::iota(idc.begin(), idc.end(), 0);
            vo = idv; co = idc;
            for (int q = I.n - 1; q > 0; q--) std::swap(vo[q], vo[rng.range(0, q)]);
            for (int q = I.m - 1; q > 0; q--) std::swap(co[q], co[rng.range(0, q)]);
            double devInc = 0, devStatic = 0, againDev = 0; bool judged = plain;
            for (int which = 0; plain && which < 2; which++) {
                Built a, b; buildPerm(I, a, idv, idc, vp0, cp0, 0); buildPerm(I, b, vo, co, vp1, cp1, 5000);
                bool bad = false;
                try {
                    if (which == 0) {
                        VNS::IncSolver s1(a.vs, a.cs); s1.solve(); VNS::IncSolver s2(b.vs, b.cs); s2.solve();
                        // does the same call once more still move anything?  (then solve() had stopped before its own fixpoint)
                        Built a2, b2; std::vector<int> t1, t2, t3, t4; buildPerm(I, a2, idv, idc, t1, t2, 0); buildPerm(I, b2, vo, co, t3, t4, 5000);
                        VNS::IncSolver r1(a2.vs, a2.cs); r1.solve(); r1.solve(); VNS::IncSolver r2(b2.vs, b2.cs); r2.solve(); r2.solve();
                        for (int v = 0; v < I.n; v++) againDev = std::max(againDev, std::max(fabs(a.vs[v]->finalPosition - a2.vs[v]->finalPosition), fabs(b.vs[v]->finalPosition - b2.vs[v]->finalPosition)));
                    }
#ifdef HAVE_STATIC_SOLVER
                    else { VNS::Solver s1(a.vs, a.cs); s1.solve(); VNS::Solver s2(b.vs, b.cs); s2.solve(); }
#endif
                } catch (...) { bad = true; }
                for (auto c : a.cs) if (c->unsatisfiable) bad = true;
                for (auto c : b.cs) if (c->unsatisfiable) bad = true;
                if (bad) { judged = false; break; }
                double dv = 0; for (int v = 0; v < I.n; v++) dv = std::max(dv, fabs(a.vs[v]->finalPosition - b.vs[vp1[v]]->finalPosition));
                (which == 0 ? devInc : devStatic) = dv;
            }
            auto e9 = [](double d) { return std::isfinite(d) ? (long long)std::min(d * 1e9, 2e9) : 2000000000LL; };
            // the same question for the history as a whole, as given and translated: every solve() is issued twice in a row
            {
                VInst D = I; D.ops.clear();
                std::vector<bool> repeat;                   // per snapshot: is it the second of a doubled solve?
                VInst::Op sv; sv.kind = 3;
                repeat.push_back(false);                    // the initial solve of runHistory
                D.ops.push_back(sv); repeat.push_back(true);
                for (auto &op : I.ops) {
                    D.ops.push_back(op);
                    if (op.kind == 3) { repeat.push_back(false); D.ops.push_back(op); repeat.push_back(true); }
                    else if (op.kind == 4) repeat.push_back(false);
                }
                std::vector<std::vector<double> > T1, T2;
                runHistory(D, 0, T1); runHistory(D, k / 1024.0, T2);
                for (size_t q = 1; q < T1.size() && q < T2.size() && q < repeat.size(); q++) if (repeat[q])
                    for (size_t v = 0; v < T1[q].size(); v++) {
                        againDev = std::max(againDev, fabs(T1[q][v] - T1[q - 1][v]));
                        againDev = std::max(againDev, fabs(T2[q][v] - T2[q - 1][v]));
                    }
            }
            j.k("ordJudged").b(judged).k("ordIncE9").i(e9(devInc)).k("ordStaticE9").i(e9(devStatic)).k("againE9").i(e9(againDev));
        }
        j.end();
        out.line((first ? "" : ",") + j.out); first = false;
        prev = I; havePrev = true;
    }
    out.line(std::string("]}"));
    return 0;
}

// ---------------------------------------------------------------------------
// seeded generator of instances (text format of readInst)
static void writeInst(FILE *f, const VInst &I)
{
    fprintf(f, "%d %d", I.n, I.m);
    for (int x : I.des) fprintf(f, " %d", x);
    for (int x : I.w) fprintf(f, " %d", x);
    for (int x : I.sc) fprintf(f, " %d", x);
    for (auto &c : I.cons) fprintf(f, " %d %d %d %d", c.l, c.r, c.g, c.eq);
    fprintf(f, " %d", (int)I.ops.size());
    for (auto &op : I.ops) {
        fprintf(f, " %d", op.kind);
        if (op.kind == 1) for (int x : op.des) fprintf(f, " %d", x);
        if (op.kind == 2) fprintf(f, " %d %d %d %d", op.c.l, op.c.r, op.c.g, op.c.eq);
    }
    fprintf(f, "\n");
}

static VInst::Con randCon(vt::Rng &rng, int n, int gmin, int gmax, int eqPct, bool dagOnly)
{
    VInst::Con c;
    do { c.l = rng.range(1, n); c.r = rng.range(1, n); } while (c.l == c.r);
    if (dagOnly && c.l > c.r) std::swap(c.l, c.r);
    c.g = rng.range(gmin, gmax);
    c.eq = rng.range(0, 99) < eqPct;
    return c;
}

static int genMode(int count, uint64_t seed, const char *outFile, const std::string &cls)
{
    vt::Rng rng(seed);
    FILE *f = fopen(outFile, "w");
    for (int i = 0; i < count; i++) {
        VInst I;
        if (cls == "hist" || cls == "histfar") {            // lattice instances (total weight <= 7) with re-solve histories
            // histfar: three variables plus an unrelated pair held 40..100 apart, which adds a large constant to the cost -- the loop of
            // solve() must go on as long as a pass changes the cost by more than 1e-4, however large the cost is
            bool far = cls == "histfar";
            I.n = far ? 3 : rng.range(3, 5);
            I.des.resize(I.n); I.w.assign(I.n, 1); I.sc.assign(I.n, 1);
            for (int &d : I.des) d = rng.range(0, 5);
            int extra = 7 - I.n - (far ? 2 : 0);
            while (extra > 0 && rng.coin()) { I.w[rng.range(0, I.n - 1)]++; extra--; }
            I.m = rng.range(1, I.n + 2);
            int eqPct = rng.coin(1, 3) ? 25 : 0;
            for (int k = 0; k < I.m; k++) I.cons.push_back(randCon(rng, I.n, -1, 2, eqPct, false));
            int nops = rng.range(0, 3);
            for (int k = 0; k < nops; k++) {
                VInst::Op op;
                if (rng.coin(2, 3)) { op.kind = 1; op.des.resize(I.n); for (int &d : op.des) d = rng.range(0, 5); }
                else { op.kind = 2; op.c = randCon(rng, I.n, -1, 2, eqPct, false); }
                I.ops.push_back(op);
                VInst::Op call; call.kind = rng.coin(4, 5) ? 3 : 4; I.ops.push_back(call);
            }
            if (far) {
                int base = I.n;
                I.n += 2; I.des.push_back(0); I.des.push_back(0); I.w.push_back(1); I.w.push_back(1); I.sc.push_back(1); I.sc.push_back(1);
                VInst::Con c; c.l = base + 1; c.r = base + 2; c.g = rng.range(2, 5) * 20; c.eq = false; I.cons.push_back(c); I.m++;
                for (auto &op : I.ops) if (op.kind == 1) { op.des.push_back(0); op.des.push_back(0); }
            }
        } else if (cls == "dag") {      // acyclic systems of inequalities with forks and diamonds, desired positions badly out of order (several splits needed)
            I.n = rng.range(6, 19);
            I.des.resize(I.n); I.w.resize(I.n); I.sc.assign(I.n, 1);
            for (int &d : I.des) d = rng.range(-20, 20);
            for (int &x : I.w) x = rng.range(1, 3);
            I.m = I.n + rng.range(0, I.n);
            for (int k = 0; k < I.m; k++) I.cons.push_back(randCon(rng, I.n, 0, 6, 0, true));
        } else if (cls == "med") {      // medium instances for the certificate check
            I.n = rng.range(4, 12);
            I.des.resize(I.n); I.w.resize(I.n); I.sc.assign(I.n, 1);
            for (int &d : I.des) d = rng.range(-20, 20);
            for (int &x : I.w) x = rng.range(1, 3);
            I.m = rng.range(2, 18);
            int eqPct = rng.coin(1, 3) ? 15 : 0;
            bool dag = rng.coin(1, 2);
            for (int k = 0; k < I.m; k++) I.cons.push_back(randCon(rng, I.n, -2, 6, eqPct, dag));
            int nops = rng.range(0, 2);
            for (int k = 0; k < nops; k++) {
                VInst::Op op; op.kind = 1; op.des.resize(I.n); for (int &d : op.des) d = rng.range(-20, 20);
                I.ops.push_back(op);
                VInst::Op call; call.kind = 3; I.ops.push_back(call);
            }
        } else {                         // scaled
            I.n = rng.range(2, 5);
            I.des.resize(I.n); I.w.resize(I.n); I.sc.resize(I.n);
            for (int &d : I.des) d = rng.range(0, 6);
            for (int &x : I.w) x = rng.range(1, 3);
            for (int &x : I.sc) x = rng.range(1, 3);
            I.m = rng.range(1, 5);
            for (int k = 0; k < I.m; k++) I.cons.push_back(randCon(rng, I.n, -1, 3, 10, rng.coin()));
            // re-solves on the same solver after the desired positions moved (scaled blocks have to be split and re-merged)
            int nops = rng.range(0, 3);
            for (int k = 0; k < nops; k++) {
                VInst::Op op; op.kind = 1; op.des.resize(I.n); for (int &d : op.des) d = rng.range(0, 6);
                I.ops.push_back(op);
                VInst::Op call; call.kind = 3; I.ops.push_back(call);
            }
        }
        writeInst(f, I);
    }
    fclose(f);
    return 0;
}
