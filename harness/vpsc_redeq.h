// redeq mode (both VPSC copies): "n m (l r gap eq)*m" per line, variables 1..n, integer gaps.
// Calls constraintsRemovingRedundantEqualities() and records which constraints (1-based positions) were kept, in order.
static int redeqMode(const char *inFile, const char *outFile)
{
    std::ifstream in(inFile);
    vt::Out out(outFile);
    out.line(std::string("{\"chunk\":200,\"recs\":["));
    int n, m; bool first = true;
    while (in >> n >> m) {
        std::vector<std::vector<int> > cs(m, std::vector<int>(4));
        for (auto &c : cs) in >> c[0] >> c[1] >> c[2] >> c[3];
        VNS::Variables vs; for (int i = 0; i < n; i++) vs.push_back(new VNS::Variable(i, 0, 1));
        VNS::Constraints cc; for (auto &c : cs) cc.push_back(new VNS::Constraint(vs[c[0] - 1], vs[c[1] - 1], c[2], c[3] != 0));
        vt::J j; j.obj().k("n").i(n).k("cons").arr(); for (auto &c : cs) j.arr().i(c[0]).i(c[1]).i(c[2]).b(c[3] != 0).end(); j.end();
        bool thrown = false; std::string what;
        try {
            VNS::Constraints kept = VNS::constraintsRemovingRedundantEqualities(vs, cc);
            j.k("kept").arr();
            for (auto k : kept) { long pos = 0; for (size_t q = 0; q < cc.size(); q++) if (cc[q] == k) pos = (long)q + 1; j.i(pos); }
            j.end();
        } catch (vpsc::CriticalFailure &f) { thrown = true; what = f.what(); j.k("kept").arr().end(); }
        j.k("thrown").b(thrown).k("what").s(what).end();
        out.line((first ? "" : ",") + j.out); first = false;
        for (auto c : cc) delete c; for (auto v : vs) delete v;
    }
    out.line(std::string("]}"));
    return 0;
}
