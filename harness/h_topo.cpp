// libtopology harness (C13): topology-preserving layout steps on scenes of non-overlapping nodes with straight
// edges, driven (as in production) through ConstrainedFDLayout + ColaTopologyAddon by dragging one node.
//   h_topo run <scenes.txt> <out.json>
// scene line: n (x y w h)*n  m (u v)*m  drag  steps dx dy  rz rw rh   reuse  drag2 steps2 d2  nb (edge node corner)*nb   (integers; node indices 0-based; rz = -1: no resize,
//             otherwise node rz is given width rw and height rh about its centre through topology::applyResizes after the drag;
//             reuse = 1 (single-axis drags only): ONE TopologyConstraints instance serves all steps, the desired positions change between its solves;
//             drag2 >= 0 (with reuse): after the first drag a second node is dragged steps2 times by d2 along the same axis, same instance;
//             drag2 >= 0 (reuse = 0): second drag of |steps2| moves by d2 along x (steps2 > 0) or y (steps2 < 0), a new instance per move)
// After every alg.run() the state is recorded: node rectangles and every edge path as (node, corner) points.
#include "vtrace.h"
#include <fstream>
#include <iostream>
#include <cstdio>
#include <unistd.h>
#include "libcola/cola.h"
#include "libtopology/topology_graph.h"
#include "libtopology/topology_constraints.h"
#include "libtopology/cola_topology_addon.h"
#include "libvpsc/assertions.h"

static const double S = 16.0;
static long long lat(double v) { return (std::isfinite(v) && fabs(v) < 1e6) ? llround(v * S) : 2000000000; }

struct PointLogger {
    vt::J *j;
    void operator()(const topology::EdgePoint *p) { j->arr().i(p->node->id).i((int)p->rectIntersect).i(lat(p->posX())).i(lat(p->posY())).end(); }
};

static void snapshot(vt::J &j, topology::Nodes &vs, topology::Edges &tes)
{
    j.obj().k("nodes").arr();
    for (auto n : vs) j.arr().i(lat(n->rect->getMinX())).i(lat(n->rect->getMinY())).i(lat(n->rect->getMaxX())).i(lat(n->rect->getMaxY())).end();
    j.end().k("paths").arr();
    for (auto e : tes) { j.arr(); PointLogger pl{&j}; const topology::Edge *ce = e; ce->forEachEdgePoint(pl); j.end(); }
    j.end().end();
}

int main(int argc, char **argv)
{
    if (argc < 4 || std::string(argv[1]) != "run") return 2;
    std::ifstream in(argv[2]);
    vt::Out out(argv[3]);
    out.line(std::string("{\"chunk\":4,\"S\":16,\"recs\":["));
    int n; bool first = true;
    while (in >> n) {
        std::vector<vpsc::Rectangle *> rs;
        std::vector<std::vector<int> > geo(n, std::vector<int>(4));
        for (auto &g : geo) { in >> g[0] >> g[1] >> g[2] >> g[3]; rs.push_back(new vpsc::Rectangle(g[0], g[0] + g[2], g[1], g[1] + g[3])); }
        int m; in >> m; std::vector<cola::Edge> es(m);
        for (auto &e : es) { int u, v; in >> u >> v; e = std::make_pair((unsigned)u, (unsigned)v); }
        int drag, steps, dx, dy, rz, rw, rh, reuse, drag2, steps2, d2; in >> drag >> steps >> dx >> dy >> rz >> rw >> rh >> reuse >> drag2 >> steps2 >> d2;
        // initial bends, in path order per edge: the edge passes corner <corner> (0 TR, 1 BR, 2 BL, 3 TL; T = larger y) of node <node>
        int nb; in >> nb; std::vector<std::vector<int> > bends(nb, std::vector<int>(3));
        for (auto &b : bends) in >> b[0] >> b[1] >> b[2];
        vt::J j; j.obj().k("n").i(n).k("edges").arr(); for (auto &e : es) j.arr().i(e.first).i(e.second).end(); j.end();
        j.k("drag").i(drag).k("dx").i(dx).k("dy").i(dy).k("rz").i(rz).k("rw").i(rw).k("rh").i(rh).k("reuse").i(reuse).k("drag2").i(drag2).k("steps2").i(steps2).k("d2").i(d2);
        topology::Nodes vs;
        for (size_t i = 0; i < rs.size(); i++) vs.push_back(new topology::Node(i, rs[i]));
        topology::Edges tes;
        for (size_t i = 0; i < es.size(); i++) {
            topology::EdgePoints ps;
            ps.push_back(new topology::EdgePoint(vs[es[i].first], topology::EdgePoint::CENTRE));
            for (auto &b : bends) if (b[0] == (int)i) ps.push_back(new topology::EdgePoint(vs[b[1]], (topology::EdgePoint::RectIntersect)b[2]));
            ps.push_back(new topology::EdgePoint(vs[es[i].second], topology::EdgePoint::CENTRE));
            tes.push_back(new topology::Edge(i, 60, ps));
        }
        bool thrown = false; std::string what;
        // the library explains a failed consistency check on stdout (printf/cout) before it throws: captured per scene
        fflush(stdout); std::cout.flush();
        int savedOut = dup(1); FILE *cap = tmpfile(); if (cap) dup2(fileno(cap), 1);
        j.k("states").arr();
        snapshot(j, vs, tes);
        std::vector<int> dims, phases;   // per recorded state after the first: axis (2 = resize) and which drag it belongs to
        try {
            // what ColaTopologyAddon::moveTo does, one axis at a time, recorded after every solve()
            vpsc::Variables vars;
            for (size_t i = 0; i < vs.size(); i++) vars.push_back(new vpsc::Variable((int)i));
            if (reuse && (dx == 0) != (dy == 0)) {
                // one instance for the whole drag: the constraints it built are maintained by its own solves
                int dimIdx = dx != 0 ? 0 : 1, delta = dx != 0 ? dx : dy;
                vpsc::Dim dim = dimIdx == 0 ? vpsc::XDIM : vpsc::YDIM;
                for (size_t i = 0; i < vs.size(); i++) { vars[i]->desiredPosition = rs[i]->getCentreD(dim); vars[i]->weight = ((int)i == drag) ? 10000 : 1; }
                topology::setNodeVariables(vs, vars);
                vpsc::Constraints cs;
                {
                    topology::TopologyConstraints t(dim, vs, tes, nullptr, vars, cs);
                    for (int phase = 0; phase < 2; phase++) {
                        int who = phase == 0 ? drag : drag2, n = phase == 0 ? steps : steps2, by = phase == 0 ? delta : d2;
                        if (who < 0) continue;
                        for (size_t i = 0; i < vs.size(); i++) vars[i]->weight = ((int)i == who) ? 10000 : 1;
                        for (int s = 0; s < n; s++) {
                            for (size_t i = 0; i < vs.size(); i++) vars[i]->desiredPosition = rs[i]->getCentreD(dim) + ((int)i == who ? by : 0);
                            bool interrupted; int loopBreaker = 100;
                            do { interrupted = t.solve(); loopBreaker--; snapshot(j, vs, tes); dims.push_back(dimIdx); phases.push_back(phase); } while (interrupted && loopBreaker > 0);
                        }
                    }
                }
                for (auto c : cs) delete c;
            } else
            for (int phase = 0; phase < 2; phase++) {
            // phase 1 (reuse = 0, drag2 >= 0): a second node is dragged |steps2| times by d2 along x (steps2 > 0) or y (steps2 < 0),
            // a NEW TopologyConstraints instance per move like every other move here
            if (phase == 1 && drag2 < 0) break;
            int who = phase == 0 ? drag : drag2, nsteps = phase == 0 ? steps : std::abs(steps2);
            int pdx = phase == 0 ? dx : (steps2 > 0 ? d2 : 0), pdy = phase == 0 ? dy : (steps2 < 0 ? d2 : 0);
            for (int s = 0; s < nsteps; s++) {
                for (int dimIdx = 0; dimIdx < 2; dimIdx++) {
                    int delta = dimIdx == 0 ? pdx : pdy;
                    if (delta == 0) continue;
                    vpsc::Dim dim = dimIdx == 0 ? vpsc::XDIM : vpsc::YDIM;
                    for (size_t i = 0; i < vs.size(); i++) {
                        vars[i]->desiredPosition = rs[i]->getCentreD(dim) + ((int)i == who ? delta : 0);
                        vars[i]->weight = ((int)i == who) ? 10000 : 1;
                    }
                    topology::setNodeVariables(vs, vars);
                    vpsc::Constraints cs;
                    {
                        topology::TopologyConstraints t(dim, vs, tes, nullptr, vars, cs);
                        bool interrupted; int loopBreaker = 100;
                        do { interrupted = t.solve(); loopBreaker--; snapshot(j, vs, tes); dims.push_back(dimIdx); phases.push_back(phase); } while (interrupted && loopBreaker > 0);
                    }
                    for (auto c : cs) delete c;
                }
            }
            }
            for (auto v : vars) delete v;
            if (rz >= 0) {
                // what ColaTopologyAddon::handleResizes does for one resized node (no compound constraints, no clusters)
                vpsc::Rectangle *cur = rs[rz];
                vpsc::Rectangle target(cur->getCentreX() - rw / 2.0, cur->getCentreX() + rw / 2.0, cur->getCentreY() - rh / 2.0, cur->getCentreY() + rh / 2.0);
                topology::ResizeMap resizes;
                resizes.insert(std::make_pair((unsigned)rz, topology::ResizeInfo(vs[rz], &target)));
                vpsc::Variables xvs, yvs; vpsc::Constraints xcs, ycs;
                for (size_t i = 0; i < vs.size(); i++) { xvs.push_back(new vpsc::Variable((int)i, rs[i]->getCentreX())); yvs.push_back(new vpsc::Variable((int)i, rs[i]->getCentreY())); }
                topology::applyResizes(vs, tes, nullptr, resizes, xvs, xcs, yvs, ycs);
                snapshot(j, vs, tes); dims.push_back(2); phases.push_back(2);
                for (auto v : xvs) delete v; for (auto v : yvs) delete v; for (auto c : xcs) delete c; for (auto c : ycs) delete c;
            }
        } catch (vpsc::CriticalFailure &f) { thrown = true; what = f.what(); }
        catch (std::exception &e) { thrown = true; what = e.what(); }
        catch (...) { thrown = true; what = "unknown exception"; }
        fflush(stdout); std::cout.flush();
        if (savedOut >= 0) { dup2(savedOut, 1); close(savedOut); }
        std::string said;
        if (cap) { rewind(cap); char buf[4096]; size_t k; while ((k = fread(buf, 1, sizeof buf, cap)) > 0 && said.size() < 20000) said.append(buf, k); fclose(cap); }
        if (thrown) {
            size_t at = said.find("test failed: ");
            if (at != std::string::npos) { size_t e = said.find_first_of(",\n!", at); what += " | said: " + said.substr(at + 13, e == std::string::npos ? 60 : e - at - 13); }
        }
        j.end().k("dims").ints(dims).k("phases").ints(phases);
        j.k("thrown").b(thrown);
 if (thrown) j.k("what").s(what);
        j.end();
        out.line((first ? "" : ",") + j.out); first = false; out.flush();
        // (objects leaked on purpose after an exception; otherwise owned by the harness)
        if (!thrown) { for (auto e : tes) delete e; for (auto v : vs) delete v; for (auto r : rs) delete r; }
    }
    out.line(std::string("]}"));
    return 0;
}
