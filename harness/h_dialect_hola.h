// hola mode: "n (w h x y)*n m (u v)*m opts" per line (integers; nodes 1-based in edges); opts bits: 0 useACAforLinks, 1 do_near_align, 2 preferConvexTrees
// the main pipeline phases whose logged state is recorded for the first `phaseCases` runs (sub-steps of a phase are not)
static bool holaMainPhase(const std::string &nm)
{
    static const char *keys[] = {"_OP_destress_core", "_core_ortho_hub", "_EOP_destress_core", "_core_link_config_", "_core_leafless_ortho_route", "_planar_graph_P",
                                 "_P_EOP_destress", "_P_with_trees", "_P_nbr_destress", "_P_near_alignments", "_P_rotation", "_P_translation"};
    for (const char *k : keys) { size_t p = nm.find(k); if (p != std::string::npos && p == 2) return true; }
    return false;
}

static int holaMode(const char *inFile, const char *outFile, long skip, long phaseCases)
{
    std::ifstream in(inFile);
    vt::Out out(outFile);
    out.line(std::string("{\"chunk\":5,\"S\":64,\"recs\":["));
    int n; bool first = true; long idx = 0;
    const double S = 64.0;
    auto lat = [&](double v) { return (std::isfinite(v) && fabs(v) < 3e6) ? llround(v * S) : 2000000000LL; };
    while (in >> n) {
        std::vector<std::vector<int> > nd(n, std::vector<int>(4));
        for (auto &q : nd) in >> q[0] >> q[1] >> q[2] >> q[3];
        int m; in >> m; std::vector<std::pair<int, int> > es(m);
        for (auto &e : es) in >> e.first >> e.second;
        int opts; in >> opts;
        if (idx++ < skip) continue;
        vt::J j; j.obj().k("n").i(n).k("opts").i(opts).k("size").arr(); for (auto &q : nd) j.arr().i(q[0]).i(q[1]).end(); j.end();
        j.k("edges").arr(); for (auto &e : es) j.arr().i(e.first).i(e.second).end(); j.end();
        bool thrown = false; std::string what; bool assertion = false;
        try {
            Graph G;
            std::vector<Node_SP> ns; std::map<id_type, int> ext;
            for (int i = 0; i < n; i++) { Node_SP v = G.addNode(nd[i][2], nd[i][3], nd[i][0], nd[i][1]); ns.push_back(v); ext[v->id()] = i + 1; }
            for (auto &e : es) G.addEdge(ns[e.first - 1], ns[e.second - 1]);
            HolaOpts ho;
            ho.useACAforLinks = (opts & 1) != 0; ho.do_near_align = (opts & 2) != 0; ho.preferConvexTrees = (opts & 4) != 0;
            // bits 3-4: aspect-ratio preference (0 default = LANDSCAPE, 1 NONE, 2 PORTRAIT, 3 LANDSCAPE); bits 5-6: preferred tree growth direction E,S,W,N (0 = default SOUTH)
            { int ar = (opts >> 3) & 3; if (ar == 1) ho.preferredAspectRatio = AspectRatioClass::NONE; else if (ar == 2) ho.preferredAspectRatio = AspectRatioClass::PORTRAIT;
              int gd = (opts >> 5) & 3; if (gd == 1) ho.preferredTreeGrowthDir = CardinalDir::EAST; else if (gd == 2) ho.preferredTreeGrowthDir = CardinalDir::WEST; else if (gd == 3) ho.preferredTreeGrowthDir = CardinalDir::NORTH; }
            double pad = ho.nodePaddingScalar * G.getIEL() / 2.0;   // per side: padAllNodes adds the padding to the width
            Logger lg;    // no output directory: the per-phase TGLF strings are kept in memory
            doHOLA(G, ho, &lg);
            // pairs constrained in the last logged state of the planar graph P (the graph whose positions are handed back)
            {
                std::string last;
                for (size_t i = 0; i < lg.names.size() && i < lg.contents.size(); i++) if (lg.names[i].find("_P_translation.tglf") != std::string::npos) last = lg.contents[i];
                j.k("pcons").arr();
                size_t h1 = last.find("\n#"), h2 = h1 == std::string::npos ? h1 : last.find("\n#", h1 + 2);
                if (h2 != std::string::npos) {
                    std::istringstream cs(last.substr(h2 + 2)); std::string ln;
                    while (std::getline(cs, ln)) { std::istringstream ls(ln); long a, b; if (ls >> a >> b) j.arr().i(ext.count(a) ? ext.at(a) : 0).i(ext.count(b) ? ext.at(b) : 0).end(); }
                }
                j.end().k("phases").i((long)lg.names.size());
                // phase-level observations: positions and compiled constraints of the logged state of each main phase (read back through the
                // library's own TGLF reader, which C18 validates)
                j.k("plog").arr();
                if (idx <= phaseCases) {
                    for (size_t i = 0; i < lg.names.size() && i < lg.contents.size(); i++) {
                        if (!holaMainPhase(lg.names[i])) continue;
                        std::string txt = lg.contents[i];
                        Graph_SP H = buildGraphFromTglf(txt);
                        ColaGraphRep &hc = H->updateColaGraphRep();
                        j.obj().k("name").s(lg.names[i].substr(3, lg.names[i].size() - 8)).k("nodes").arr();
                        std::map<id_type, int> pix; int q = 0;
                        for (auto &kv : H->getNodeLookup()) { Avoid::Point c = kv.second->getCentre(); dimensions d = kv.second->getDimensions();
                                                              j.arr().i(lat(c.x)).i(lat(c.y)).i(lat(d.first)).i(lat(d.second)).end(); pix[kv.first] = ++q; }
                        j.end();
                        vpsc::Variables pv; for (size_t v = 0; v < hc.rs.size(); v++) pv.push_back(new vpsc::Variable((int)v));
                        for (int dim = 0; dim < 2; dim++) {
                            vpsc::Constraints cs; vpsc::Rectangles bbs;
                            H->getSepMatrix().generateSeparationConstraints(dim == 0 ? vpsc::XDIM : vpsc::YDIM, pv, cs, bbs);
                            j.k(dim == 0 ? "cx" : "cy").arr();
                            for (auto c : cs) { j.arr().i(pix.at(hc.ix2id.at(c->left->id))).i(pix.at(hc.ix2id.at(c->right->id))).i(lat(c->gap)).b(c->equality).end(); delete c; }
                            j.end();
                        }
                        for (auto v : pv) delete v;
                        j.end();
                    }
                }
                j.end();
            }
            j.k("pad").i(lat(pad) + 1);
            // after: nodes
            j.k("nodes").arr();
            for (auto &kv : G.getNodeLookup()) {
                int e = ext.count(kv.first) ? ext.at(kv.first) : 0;
                Avoid::Point c = kv.second->getCentre(); dimensions d = kv.second->getDimensions();
                j.arr().i(e).i(lat(c.x)).i(lat(c.y)).i(lat(d.first)).i(lat(d.second)).end();
            }
            j.end().k("routes").arr();
            for (auto &kv : G.getEdgeLookup()) {
                auto ids = kv.second->getEndIds();
                j.obj().k("u").i(ext.count(ids.first) ? ext.at(ids.first) : 0).k("v").i(ext.count(ids.second) ? ext.at(ids.second) : 0).k("pts").arr();
                for (auto &p : kv.second->getRoutePoints()) j.arr().i(lat(p.x)).i(lat(p.y)).end();
                j.end().end();
            }
            j.end();
            // the constraints returned with the graph, compiled per dimension
            ColaGraphRep &cgr = G.updateColaGraphRep();
            vpsc::Variables vs; for (size_t i = 0; i < cgr.rs.size(); i++) vs.push_back(new vpsc::Variable((int)i));
            for (int dim = 0; dim < 2; dim++) {
                vpsc::Constraints cs; vpsc::Rectangles bbs;
                G.getSepMatrix().generateSeparationConstraints(dim == 0 ? vpsc::XDIM : vpsc::YDIM, vs, cs, bbs);
                j.k(dim == 0 ? "cx" : "cy").arr();
                for (auto c : cs) { id_type l = cgr.ix2id.at(c->left->id), r = cgr.ix2id.at(c->right->id);
                                    j.arr().i(ext.count(l) ? ext.at(l) : 0).i(ext.count(r) ? ext.at(r) : 0).i(lat(c->gap)).b(c->equality).end(); delete c; }
                j.end();
            }
            for (auto v : vs) delete v;
        } catch (vpsc::CriticalFailure &f) { thrown = true; assertion = true; what = f.what(); }
        catch (std::exception &e) { thrown = true; what = e.what(); }
        catch (...) { thrown = true; what = "unknown exception"; }
        if (thrown) {
            j.clear(); j.obj().k("n").i(n).k("opts").i(opts).k("size").arr(); for (auto &q : nd) j.arr().i(q[0]).i(q[1]).end(); j.end();
            j.k("edges").arr(); for (auto &e : es) j.arr().i(e.first).i(e.second).end(); j.end();
            j.k("thrown").b(true).k("assertion").b(assertion).k("what").s(what).end();
        } else j.k("thrown").b(false).k("assertion").b(false).end();
        out.line((first ? "" : ",") + j.out); first = false; out.flush();
    }
    out.line(std::string("]}"));
    return 0;
}
