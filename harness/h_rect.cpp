// C09 harness: removeoverlaps() and the scan-line constraint generators.
//   h_rect recs <sets.txt> <out.json> [chunk]   sets.txt: "n bx by (x X y Y)*n" per line (integers)
//   h_rect gen <count> <seed> <out.txt> <maxn> [<minn>]
//   h_rect recs <in.txt> <out.json> <chunk> [nogen]
#include "vtrace.h"
#include <fstream>
#include <set>
#include <iostream>
#include "libvpsc/rectangle.h"
#include "libvpsc/variable.h"
#include "libvpsc/constraint.h"
#include "libvpsc/assertions.h"
using namespace vpsc;

static const double S = 1048576.0;

static void consJson(vt::J &j, const char *key, const Rectangles &rs, int axis, bool neigh)
{
    Variables vs; for (size_t i = 0; i < rs.size(); i++) vs.push_back(new Variable((int)i, 0, 1));
    Constraints cs;
    if (axis == 1) generateXConstraints(rs, vs, cs, neigh); else generateYConstraints(rs, vs, cs);
    j.k(key).arr();
    for (auto c : cs) {
        double g2 = c->gap * 2.0;
        long long gi = (g2 == std::floor(g2)) ? (long long)g2 : -999999;   // gaps are half-integers for integer input
        j.arr().i(c->left->id + 1).i(c->right->id + 1).i(gi).end();
    }
    j.end();
    for (auto c : cs) delete c;
    for (auto v : vs) delete v;
}

int main(int argc, char **argv)
{
    if (argc >= 6 && std::string(argv[1]) == "gen") {
        vt::Rng rng(strtoull(argv[3], 0, 10)); int maxn = atoi(argv[5]);
        FILE *f = fopen(argv[4], "w");
        for (int i = 0; i < atoi(argv[2]); i++) {
            int n = rng.range(argc > 6 ? atoi(argv[6]) : 2, maxn);
            int kind = rng.range(0, 4);
            int span = kind == 0 ? 6 : kind == 1 ? 20 : 60;
            int bx = rng.coin(1, 4) ? rng.range(1, 2) : 0, by = rng.coin(1, 4) ? rng.range(1, 2) : 0;
            fprintf(f, "%d %d %d", n, bx, by);
            int px = 0, py = 0;
            for (int k = 0; k < n; k++) {
                int x, y, w, h;
                if (kind == 3) { x = 10; y = 10; w = 4; h = 4; }                         // identical rectangles
                else if (kind == 4) { x = px + rng.range(0, 3); y = py + rng.range(0, 1); w = rng.range(1, 8); h = rng.range(1, 8); px = x; py = y; }  // chains
                else { x = rng.range(0, span); y = rng.range(0, span); w = rng.coin(1, 6) ? 1 : rng.range(1, 12); h = rng.coin(1, 6) ? 1 : rng.range(1, 12); }
                fprintf(f, " %d %d %d %d", x, x + w, y, y + h);
            }
            fprintf(f, "\n");
        }
        fclose(f);
        return 0;
    }
    if (argc < 4 || std::string(argv[1]) != "recs") return 2;
    std::ifstream in(argv[2]);
    vt::Out out(argv[3]);
    out.line(std::string("{\"chunk\":") + (argc > 4 ? argv[4] : "40") + ",\"recs\":[");
    vt::Rng rng(vt::envSeed());
    bool nogen = argc > 5 && std::string(argv[5]) == "nogen";   // very large sets: the generator clause (an all-pairs longest-path closure) is left to the smaller sets
    int n, bx, by; bool first = true;
    while (in >> n >> bx >> by) {
        std::vector<std::vector<int> > R(n, std::vector<int>(4));
        for (auto &r : R) for (int &x : r) in >> x;
        Rectangle::setXBorder(bx); Rectangle::setYBorder(by);
        vt::J j; j.obj().k("n").i(n).k("S").i((long long)S).k("b2").arr().i(2 * bx).i(2 * by).end();
        j.k("rin2").arr(); for (auto &r : R) j.arr().i(2 * r[0]).i(2 * r[1]).i(2 * r[2]).i(2 * r[3]).end(); j.end();
        j.k("gen").b(!nogen);
        if (nogen) { j.k("cxn").arr().end().k("cx").arr().end().k("cy").arr().end(); }
        else {
            Rectangles rs; for (auto &r : R) rs.push_back(new Rectangle(r[0], r[1], r[2], r[3]));
            try {
                consJson(j, "cxn", rs, 1, true); consJson(j, "cx", rs, 1, false); consJson(j, "cy", rs, 2, false);
            } catch (...) { fprintf(stderr, "generator threw\n"); return 3; }
            for (auto r : rs) delete r;
        }
        // fixed subsets: all of them for n <= 3, otherwise {} and two random ones
        std::vector<std::set<unsigned> > subsets;
        if (n <= 3) { for (unsigned m = 0; m < (1u << n); m++) { std::set<unsigned> s; for (int b = 0; b < n; b++) if (m >> b & 1) s.insert(b); subsets.push_back(s); } }
        else if (nogen) subsets.push_back({});            // very large sets: no fixed rectangles (the fixed clause's chain analysis is cubic)
        else { subsets.push_back({}); for (int t = 0; t < 2; t++) { std::set<unsigned> s; int k = rng.range(1, 3); for (int q = 0; q < k; q++) s.insert(rng.range(0, n - 1)); subsets.push_back(s); } }
        j.k("runs").arr();
        for (auto &fx : subsets) for (int third = 0; third < 2; third++) {
            Rectangle::setXBorder(bx); Rectangle::setYBorder(by);
            Rectangles rs; for (auto &r : R) rs.push_back(new Rectangle(r[0], r[1], r[2], r[3]));
            bool thrown = false;
            std::streambuf *old = std::cerr.rdbuf(nullptr);
            try { if (fx.empty() && third == 1 && n % 2 == 0) removeoverlaps(rs); else removeoverlaps(rs, fx, third != 0); }
            catch (...) { thrown = true; }
            std::cerr.rdbuf(old);
            j.obj().k("fixed").arr(); for (unsigned f : fx) j.i(f + 1); j.end().k("third").b(third != 0).k("thrown").b(thrown);
            j.k("bafter").arr().i(llround(Rectangle::xBorder * 2)).i(llround(Rectangle::yBorder * 2)).end();
            j.k("bexact").b(Rectangle::xBorder == bx && Rectangle::yBorder == by);
            // read the geometry without borders
            Rectangle::setXBorder(0); Rectangle::setYBorder(0);
            j.k("out").arr();
            for (auto r : rs) {
                double v[4] = {r->getMinX(), r->getMaxX(), r->getMinY(), r->getMaxY()};
                j.arr(); for (double x : v) j.i(std::isfinite(x) && fabs(x) < 1900 ? llround(x * S) : 2000000000); j.end();
            }
            j.end().end();
            for (auto r : rs) delete r;
        }
        j.end().end();
        out.line((first ? "" : ",") + j.out); first = false;
    }
    Rectangle::setXBorder(0); Rectangle::setYBorder(0);
    out.line(std::string("]}"));
    return 0;
}
