"""C08: overlap avoidance and cluster containment hold in the result."""
from checks import c07


def main(tier):
    return c07.main(tier, which='C08')
