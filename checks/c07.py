"""C07: layout output satisfies every compound constraint or reports it unsatisfiable."""
import json, os, random, re
import vcheck as V
from checks import layout_common as LC

PID = 'C07'


def main(tier, which='C07'):
    ev = V.Evidence(which, tier)
    vd = V.Verdict(which, ev)
    quick = tier == 'quick'
    hl, = V.build(['h_layout'])
    d = V.rundir(which.lower())
    rnd = random.Random(V.seed() + (0 if which == 'C07' else 77))
    n = (1000 if which == 'C07' else 1500) if quick else 8000
    if which == 'C07':
        cases = [LC.gen_case(rnd) for _ in range(n)] + [LC.gen_crowded(rnd) for _ in range(4 * n)] + [LC.gen_redundant(rnd) for _ in range(4 * n)] + [LC.gen_double_conflict(rnd) for _ in range(2 * n)]
    else:
        cases = [LC.gen_case(rnd, want_overlap=True, clusters=(i % 3 == 0)) for i in range(n)]
    of, data = LC.run_cases(hl, d, 'cases', cases, which)
    r = V.tlc(LC.SPEC, LC.CFG, env={'LAYOUTRECS': of}, timeout=3000, cont=True, mem='16g')
    ev.add_tlc('Compound: %d layout runs' % len(cases), r)
    recs = data['recs']
    for idx, why in data['hung']:
        c = cases[idx]
        coinc = len({(nd[2], nd[3]) for nd in c['nodes']}) < len(c['nodes'])
        fr = any(k[0] == 6 for k in c['cons'])
        vd.violation('layout:run-%s%s%s' % ('does-not-terminate' if 'terminate' in why else 'crashes', ':makeFeasible' if c['flags'] & 2 else '',
                                            ':fixed-relative-in-conflict' if fr and len(c['cons']) >= 2 else ''),
                     '%s: flags=%d nodes(w,h,x,y)=%s edges=%s cons=%s' % (why, c['flags'], c['nodes'], c['edges'], c['cons']), c)
    nontriv = reported = 0
    for v in V.stat(r.out, 'layout'):
        nontriv += v[0]; reported += v[1]
    for inv, st in V.violating_states(r):
        for b in st.get('bad', []):
            i, t = b[0], b[1]
            x = recs[i - 1]
            name = t if isinstance(t, str) else ':'.join(map(str, t))
            brief = {k: x[k] for k in ('n', 'flags', 'size', 'init', 'edges', 'cons', 'groups', 'clusters', 'reported')}
            brief['pos'] = [[p[0] / data['S'], p[1] / data['S']] for p in x['pos']]
            what = x.get('what', '')
            key = 'layout:' + name
            if name == 'exception':
                m = re.search(r'expression: (.*?)(\n| \||$)', what)
                key = ('assertion:' + re.sub(r'[^A-Za-z0-9_>!=<.()-]+', '', m.group(1))[:60]) if m else 'exception:' + what[:40]
                # (class name only) a node had run away to coordinates beyond 1e5 when the check failed
                if m and 'width()-w' in m.group(1) and any(abs(v) > 1e5 for p_ in brief['pos'] for v in p_):
                    key += ':layout-ran-away-beyond-1e5'
            if isinstance(t, (list, tuple)) and len(t) == 2 and t[0] == 'unreported-constraint-violated' and t[1] in ('separation', 'alignment', 'boundary', 'multi-separation', 'distribution', 'fixed-relative'):
                # no class of its own: the rare cases of the unchanged tree (F36 in contradictory groups of more than two) are listed by exact input
                import hashlib
                key += ':case-' + hashlib.sha1(json.dumps([brief[k] for k in ('n', 'flags', 'size', 'init', 'edges', 'cons', 'groups', 'clusters')], sort_keys=True).encode()).hexdigest()[:10]
            vd.violation(key, '%s %s: %s' % (name, what[:160], json.dumps(brief)[:700]), brief)
    if which == 'C07':
        # design level: the pair-resolution loop of makeFeasible() terminates (liveness under weak fairness); the model of the code before
        # the repair 6e1feea is run too, to show that the model tells the two apart (a stuck pair was offered for ever: F31)
        rl = V.tlc(os.path.join(V.SPEC, 'cola', 'NonOverlapLoop.tla'), os.path.join(V.SPEC, 'cola', 'NonOverlapLoop.cfg'), timeout=600, workers=4, deadlock=True)
        ev.add_tlc('design: NonOverlapLoop, makeFeasible resolves or gives up every pair (3 pairs, every mix of stuck/separable), Termination', rl)
        if not rl.finished or rl.violated or 'Temporal property' in rl.out and 'violated' in rl.out:
            vd.violation('design:makeFeasible-pair-loop-does-not-terminate', 'NonOverlapLoop.tla (FIX = TRUE) violates Termination', {'tlc_tail': rl.out[-3000:]})
        rb = V.tlc(os.path.join(V.SPEC, 'cola', 'NonOverlapLoop.tla'), os.path.join(V.SPEC, 'cola', 'NonOverlapLoop_before.cfg'), timeout=600, workers=4, deadlock=True)
        ev.cov['model_of_the_code_before_fix_6e1feea_violates_termination'] = 'Temporal property Termination was violated' in rb.out
    ev.cov['evaluations'] = len(cases)
    ev.cov['distinct_nontrivial'] = nontriv
    ev.cov['runs_with_reported_constraints'] = reported
    ev.cov['traces_validated_against_impl'] = len(cases)
    ev.cov['rule'] = ('layout runs = seeded random graphs (2..12 nodes; edgeless, trees, disconnected, dense), initial positions incl. coincident nodes, mixes of 0..8 compound constraints '
                      '(separation incl. equalities and contradictory ones, alignment with offsets / fixed positions, boundary, multi-separation, distribution, fixed-relative) in both dimensions, '
                      'overlap avoidance, neighbour stress, makeFeasible on/off, ConstrainedFDLayout and ConstrainedMajorizationLayout; non-trivial = ' +
                      ('run with at least one constraint' if which == 'C07' else 'initial placement has an overlapping pair'))
    ev.sample({k: recs[0][k] for k in ('n', 'flags', 'size', 'init', 'cons', 'reported', 'pos')})
    ev.assumptions = ['coordinates on a 1e-4 lattice; tolerance 3e-4', 'PageBoundaryConstraints are soft by construction and not asserted',
                      'distribution / multi-separation are evaluated on the alignment guides only when those alignments hold and are not reported']
    rc = vd.finish()
    ev.write()
    return rc
