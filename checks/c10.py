"""C10: nudging separates shared paths without moving endpoints, adding segments or losing checkpoints."""
import json, os, random, re
import vcheck as V
from checks import route_common as RC
from checks import c03
from checks import simplify

_SIMPLIFY_DONE = []

PID = 'C10'
NT = os.path.join(V.SPEC, 'avoid', 'Nudge.tla')
ND = {0: 4, 1: 2, 2: 10, 3: 1}      # idealNudgingDistance selector of the harness (opts bits 5..6)


def corridor_scene(rnd, W, k, opts):
    """two rectangles stacked with a horizontal corridor of width W between them; k connectors crossing it left to right"""
    top = (8, 2, 20, 10)
    bot = (8, 10 + W, 20, 18 + W)
    shapes = [RC.rect_poly(top), RC.rect_poly(bot)] if W > 0 else [RC.rect_poly((8, 2, 20, 18))]
    mid = 10 + W // 2
    ys = rnd.sample(range(mid - 7, mid + 8, 2), k)
    yd = rnd.sample(range(mid - 7, mid + 8, 2), k)
    conns = [(1 + 2 * i, ys[i] | 1, 15, 27 - 2 * i, yd[i] | 1, 15) for i in range(k)]
    return {'mode': 1, 'P': rnd.choice([10, 50]), 'buf': 0, 'opts': opts, 'shapes': shapes, 'conns': conns}


def pin_scene(order, dx2, dy3, pq):
    """six shapes with one connection pin each and three pin-to-pin connectors Q, R, P created in the given order: Q's free middle
    segment shares a line with R's first segment inside the span of the straight connector P (orders and offsets vary that)"""
    S = {1: (4, 21, 12, 27, 4, 2, 8), 2: (16 + pq, 0, 24 + pq, 6, 2, 4, 2), 3: (36 + dx2, 16, 44 + dx2, 22, 2, 4, 2),
         4: (68, 33 + dy3, 76, 39 + dy3, 0, 2, 4), 5: (16 + pq, 66, 24 + pq, 72, 2, 0, 1), 6: (68, 53, 76, 59, 0, 2, 4)}
    ops = []
    for sid, (x1, y1, x2, y2, xq, yq, dirs) in S.items():
        ops.append([1, sid, x1, y1, x2, y2])
        ops.append([2, sid, 1, xq, yq, 1, 0, dirs, 0])
    C = {'Q': (1, 6), 'R': (3, 4), 'P': (2, 5)}
    for k, name in enumerate(order):
        a, b = C[name]
        ops.append([4, 21 + k, 1, a, 1, 1, b, 1])
    ops.append([13])
    return ops


def aligned_checkpoints_scene(rnd):
    """connector from the left to a target further right and lower that it has to enter from the left (so the last leg is a z-bend);
    two or three checkpoints in a row on the line of the source; a second, unrelated connector; one of the 8 symmetries of the square"""
    y0 = 2 * rnd.randint(1, 4) + 1
    y1 = y0 + 2 * rnd.randint(3, 8)
    xs = sorted(rnd.sample(range(3, 30, 2), rnd.randint(2, 3)))
    if rnd.random() < 0.7:
        xs[0], xs[-1] = 3, rnd.choice([19, 21, 23, 27])          # first checkpoint near the source, last one far out
        xs = sorted(set(xs))
    xd = xs[-1] + 2 * rnd.randint(4, 7)                          # room for the z-bend to be centred between the last checkpoint and the target
    conns = [(1, y0, 15, xd, y1, 4), (1, y1 + 6, 15, 9, y1 + 10, 15)]
    cps = [(0, x, y0) for x in xs]
    shapes = [RC.rect_poly((xd + 4, y0 - 2 if y0 > 2 else 0, xd + 8, y0 + 2))]
    t = rnd.randint(0, 7)
    M = 60
    def tp(x, y):
        if t & 1: x = M - x
        if t & 2: y = M - y
        if t & 4: x, y = y, x
        return x, y
    def tm(mask):
        out = 0
        for bit, (dx, dy) in ((1, (0, -1)), (2, (0, 1)), (4, (-1, 0)), (8, (1, 0))):
            if mask & bit:
                if t & 1: dx = -dx
                if t & 2: dy = -dy
                if t & 4: dx, dy = dy, dx
                out |= 1 if dy < 0 else 2 if dy > 0 else 4 if dx < 0 else 8
        return out
    conns = [tp(a, b) + (tm(m1),) + tp(c, e) + (tm(m2),) for a, b, m1, c, e, m2 in conns]
    cps = [(k,) + tp(x, y) for k, x, y in cps]
    def tpoly(poly):
        q = [tp(x, y) for x, y in poly]
        a2 = sum(q[i][0] * q[(i + 1) % len(q)][1] - q[(i + 1) % len(q)][0] * q[i][1] for i in range(len(q)))
        return q if a2 > 0 else q[::-1]
    shapes = [tpoly(sh) for sh in shapes]
    return {'mode': 1, 'P': rnd.choice([10, 50]), 'buf': 0, 'opts': rnd.randint(0, 127) & ~1, 'shapes': shapes, 'conns': conns, 'cps': cps}


def hug_scene(order, dxf, dyo):
    """an obstacle O; connector C joins two pins left of O's right side and has to go round it, hugging that side; connector F leaves a
    pin that lies exactly on the line of that side (dxf = 0) and runs down it for a stretch before turning away"""
    S = {1: (8, 30 + dyo, 28, 50 + dyo, None), 2: (22, 18, 26, 22, (4, 2, 8)), 3: (22, 58 + dyo, 26, 62 + dyo, (4, 2, 8)),
         4: (26 + dxf, 10, 30 + dxf, 14, (2, 4, 2)), 5: (48, 22, 52, 26, (0, 2, 4))}
    ops = []
    for sid, (x1, y1, x2, y2, pin) in S.items():
        ops.append([1, sid, x1, y1, x2, y2])
        if pin:
            ops.append([2, sid, 1, pin[0], pin[1], 1, 0, pin[2], 0])
    C = {'C': (2, 3), 'F': (4, 5)}
    for k, name in enumerate(order):
        a, b = C[name]
        ops.append([4, 21 + k, 1, a, 1, 1, b, 1])
    ops.append([13])
    return ops


def cp_scene(x1, x2, xb, dy):
    """shape A with a pin on its right side, shape B further right and lower with a pin on its left side, a connector between the pins
    with two checkpoints on the row of A's pin: the first close to A, the second far out.  The z-bend after the second checkpoint is
    what nudging centres -- between that checkpoint and B, not further back."""
    ops = [[1, 1, 2, 8, 8, 14], [2, 1, 1, 4, 2, 1, 0, 8, 0],
           [1, 2, xb, 8 + dy, xb + 6, 14 + dy], [2, 2, 1, 0, 2, 1, 0, 4, 0],
           [4, 21, 1, 1, 1, 1, 2, 1], [5, 21, 2, x1, 11, x2, 11], [13]]
    return ops, [[x1, 11], [x2, 11]]


def pin_family(d, quick, LS):
    """records (as for the scene families) of pin-attached connectors, replayed through the object-level harness"""
    import itertools
    from checks import life_common as LC
    hl, = V.build(['h_life'])
    hists, meta = [], []
    for order in itertools.permutations('QRP'):
        for dx2 in ((0, 2, 4) if quick else (0, 2, 4, 8)):
            for dy3 in ((0,) if quick else (0, 4)):
                for pq in ((0,) if quick else (0, 4)):
                    for buf in (0, 1):
                        hists.append(pin_scene(order, dx2, dy3, pq)); meta.append(buf)
    for order in ('CF', 'FC'):
        for dxf in (0, 2, -2):
            for dyo in (0, 4):
                hists.append(hug_scene(order, dxf, dyo)); meta.append(0)
    cpsof = {}
    for x1 in (10, 12):
        for x2 in ((26, 30) if quick else (26, 30, 34)):
            for gap in ((16, 24) if quick else (12, 16, 24)):
                for dy in ((22, -22) if quick else (14, 22, -22)):
                    ops, cps = cp_scene(x1, x2, x2 + gap, dy)
                    cpsof[len(hists)] = cps
                    hists.append(ops); meta.append(1)          # with a shape buffer: the route turns short of B, and nudging centres that turn
    scen = os.path.join(d, 'pins.txt')
    with open(scen, 'w') as f:
        for h, buf in zip(hists, meta):
            f.write('1 %d %d %s\n' % (buf, len(h), ' '.join(str(x) for o in h for x in o)))
    execs, _ = LC.run_harness(hl, scen, os.path.join(d, 'pins.ndjson'), len(hists), timeout=600)
    recs = []
    for ex in execs:
        snaps = [json.loads(l) for l in ex['lines'] if '"processed":true' in l and '"shapes"' in l]
        errs = [json.loads(l) for l in ex['lines'] if '"error"' in l]
        buf = meta[ex['index']]
        if errs or not snaps:
            recs.append({'thrown': True, 'what': (errs[0]['error'] if errs else 'no snapshot'), 'opts': 0, 'P': 10, 'buf': 2 * buf * LS, 'd': 4 * LS, 'rects': [], 'conns': []})
            continue
        sn = snaps[-1]
        recs.append({'thrown': False, 'what': '', 'opts': 0, 'P': 10, 'buf': 2 * buf * LS, 'd': 4 * LS, 'rects': [q[1:] for q in sn['shapes']],
                     'conns': [{'src': c['src']['p'], 'dst': c['dst']['p'], 'raw': c['raw'], 'disp': c['disp'],
                                'cps': [[p[0] * LS, p[1] * LS] for p in cpsof.get(ex['index'], [])]} for c in sorted(sn['conns'], key=lambda c: c['id'])]})
    return recs


def main(tier):
    ev = V.Evidence(PID, tier)
    vd = V.Verdict(PID, ev)
    quick = tier == 'quick'
    hr, = V.build(['h_route'])
    d = V.rundir('c10')
    rnd = random.Random(V.seed())
    scenes = []
    for W in (0, 2, 4, 8, 16, 24, 40):
        for k in (2, 3, 4):
            for rep in range(12 if quick else 40):
                scenes.append(corridor_scene(rnd, W, k, rnd.randint(0, 127)))
    for _ in range(1500 if quick else 6000):
        s = c03.random_scene(rnd, 1)
        if len(s['conns']) >= 2:
            # some connectors get a checkpoint in free space
            cps = []
            if rnd.random() < 0.3:
                boxes = [RC.poly_rect(sh) for sh in s['shapes']]
                for _try in range(10):
                    p = (2 * rnd.randint(0, 16) + 1, 2 * rnd.randint(0, 16) + 1)
                    if all(not (o[0] - s['buf'] - 1 < p[0] < o[2] + s['buf'] + 1 and o[1] - s['buf'] - 1 < p[1] < o[3] + s['buf'] + 1) for o in boxes):
                        cps.append((rnd.randrange(len(s['conns'])), p[0], p[1]))
                        break
            s['cps'] = cps
            scenes.append(s)
    # several checkpoints in the interior of one straight stretch that is followed by a segment nudging may centre (z-bend): the
    # stretch has to stay long enough for the last of them
    for _ in range(300 if quick else 3000):
        scenes.append(aligned_checkpoints_scene(rnd))
    out = RC.run_scenes(hr, d, 'nudge', scenes)
    LS = out['LS']
    recs = []
    for sc in out['recs']:
        recs.append({'thrown': sc['thrown'], 'what': sc.get('what', ''), 'opts': sc['opts'], 'P': sc['P'], 'buf': sc['buf'] * LS, 'd': ND[(sc['opts'] >> 5) & 3] * LS,
                     'rects': [[v * LS for v in RC.poly_rect(sh)] for sh in sc['shapes']],
                     'conns': [{'src': [c['src'][0] * LS, c['src'][1] * LS], 'dst': [c['dst'][0] * LS, c['dst'][1] * LS],
                                'raw': [] if sc['thrown'] else [p[:2] for p in c['raw']], 'disp': [] if sc['thrown'] else c['disp'],
                                'cps': [[p[0] * LS, p[1] * LS] for p in c['cps']]} for c in sc['conns']]})
    npin = len(recs)
    recs += pin_family(d, quick, LS)
    npin = len(recs) - npin
    rf = os.path.join(d, 'nudge_recs.json')
    json.dump({'chunk': 20, 'recs': recs}, open(rf, 'w'))
    r = V.tlc(NT, os.path.join(V.SPEC, 'avoid', 'Nudge.cfg'), env={'NUDGERECS': rf}, timeout=3000, cont=True, mem='24g')
    ev.add_tlc('Nudge: %d scenes' % len(recs), r)
    nontriv = sum(v[0] for v in V.stat(r.out, 'nudge'))
    for inv, st in V.violating_states(r):
        for (i, t) in st.get('bad', []):
            x = recs[i - 1]
            if t.startswith('obs:'):
                ev.cov.setdefault('observations', {})[t[4:]] = ev.cov.get('observations', {}).get(t[4:], 0) + 1
                continue
            desc = 'opts=%d P=%d buf=%d d=%d rects=%s conns=%s' % (x['opts'], x['P'], x['buf'] // LS, x['d'] // LS, [[v // LS for v in q] for q in x['rects']],
                                                               [{'src': [v // LS for v in c['src']], 'dst': [v // LS for v in c['dst']],
                                                                 'raw': [[round(p[0] / LS, 2), round(p[1] / LS, 2)] for p in c['raw']],
                                                                 'disp': [[round(p[0] / LS, 2), round(p[1] / LS, 2)] for p in c['disp']]} for c in x['conns']])
            key = 'nudge:' + t
            if t.endswith(':shared-path-ends-at-an-endpoint-of-one-connector') and (x['opts'] & 16):
                key = 'nudging:option-nudgeSharedPathsWithCommonEndPoint-off:endpoint-of-one-connector-on-the-shared-path'
            if t == 'endpoint-moved' and (x['opts'] & 1):
                key = 'nudging:option-nudgeOrthogonalSegmentsConnectedToShapes:endpoint-moved'
            if t.startswith('overlap-') and (x['opts'] & 1) and sum(1 for c in x['conns'] if len(c['disp']) >= 2 and (c['disp'][0] != c['src'] or c['disp'][-1] != c['dst'])) >= 2:
                # (class name only) F13 again: with that option on, the end segments of connectors with free endpoints are nudged like interior
                # ones -- the endpoints of at least two connectors of this scene were moved, and the segments carrying them end up on one line
                key = 'nudging:option-nudgeOrthogonalSegmentsConnectedToShapes:overlap-between-connectors-whose-endpoints-were-moved'
            if t.startswith('overlap-with-end-segment-in-wide-channel') and key == 'nudge:' + t:      # (not already filed under F35)
                # (class name only) an interior segment lies on another connector's first/last segment although the raw route of its connector
                # had no segment on that line there: nudging put it there
                def segs(rt):
                    pts = [p for i, p in enumerate(rt) if i == 0 or p != rt[i - 1]]
                    keep = [pts[0]] + [b for a, b, c in zip(pts, pts[1:], pts[2:]) if not ((a[0] == b[0] == c[0]) or (a[1] == b[1] == c[1]))] + [pts[-1]] if len(pts) >= 2 else pts
                    out = []
                    for i, (a, b) in enumerate(zip(keep, keep[1:])):
                        h = a[1] == b[1]
                        out.append({'h': h, 'pos': a[1] if h else a[0], 'lo': min(a[0], b[0]) if h else min(a[1], b[1]), 'hi': max(a[0], b[0]) if h else max(a[1], b[1]),
                                    'end': i == 0 or i == len(keep) - 2})
                    return out
                tol = 4
                def created():
                    D = [segs(c['disp']) for c in x['conns']]
                    R = [segs(c['raw']) for c in x['conns']]
                    for ci, ds in enumerate(D):
                        for sg in ds:
                            if sg['end']:
                                continue
                            for cj, es in enumerate(D):
                                for tg in es:
                                    if cj != ci and tg['end'] and tg['h'] == sg['h'] and abs(tg['pos'] - sg['pos']) <= tol and min(sg['hi'], tg['hi']) - max(sg['lo'], tg['lo']) > 2 * tol:
                                        lo, hi = max(sg['lo'], tg['lo']), min(sg['hi'], tg['hi'])
                                        if not any(rg['h'] == sg['h'] and abs(rg['pos'] - sg['pos']) <= tol and min(rg['hi'], hi) - max(rg['lo'], lo) > 2 * tol for rg in R[ci]):
                                            return True
                    return False
                if created():
                    # the class is too close to what a faulty nudger does (seeded change c10 fell into it), so the known cases are listed by
                    # their exact input: the fingerprint ends in a hash of the scene
                    import hashlib
                    h = hashlib.sha1(json.dumps([x['opts'], x['P'], x['buf'], x['d'], x['rects'], [[c['src'], c['dst'], c.get('cps', [])] for c in x['conns']]], sort_keys=True).encode()).hexdigest()[:10]
                    key = 'nudge:overlap-with-end-segment-in-wide-channel:the-raw-route-had-no-segment-on-that-line:scene-' + h
            if t == 'exception':
                m = re.search(r'expression: (.*)', x['what'])
                key = 'assertion:' + re.sub(r'[^A-Za-z0-9_>!=<-]+', '', m.group(1))[:60] if m else (RC.crash_key(x['what']) if x['what'].startswith('process died') else 'exception')
                desc = x['what'][:200] + ' ' + desc
            if t == 'checkpoint-off-route':
                def spur(c):
                    # the raw route reaches the checkpoint and doubles back: the direction of travel into the checkpoint is
                    # reversed within the next two segments (an out-and-back excursion, collinear or on the adjacent track)
                    sg = lambda v: (v > 0) - (v < 0)
                    for cp in c['cps']:
                        for i in range(1, len(c['raw']) - 1):
                            b = c['raw'][i]
                            if abs(b[0] - cp[0]) <= 2 * LS and abs(b[1] - cp[1]) <= 2 * LS:
                                a = c['raw'][i - 1]
                                din = (sg(b[0] - a[0]), sg(b[1] - a[1]))
                                for j in range(i, min(i + 3, len(c['raw']) - 1)):
                                    u, w = c['raw'][j], c['raw'][j + 1]
                                    if (sg(w[0] - u[0]), sg(w[1] - u[1])) == (-din[0], -din[1]):
                                        return True
                    return False
                if x['opts'] & 1:
                    key = 'nudging:option-nudgeOrthogonalSegmentsConnectedToShapes:checkpoint-moved'
                elif any(spur(c) for c in x['conns'] if c['cps']):
                    key = 'checkpoint:out-and-back-excursion-dropped-from-displayed-route'
                else:
                    def near_bend(c):
                        # (class name only) the connector has ONE checkpoint, and on the raw route that checkpoint sits inside a segment no
                        # further from the bend at its end than the nudging distance: nudging the adjoining segment shortened it past the checkpoint
                        if len(c['cps']) != 1:
                            return False
                        cp = c['cps'][0]
                        pts = [p for i, p in enumerate(c['raw']) if i == 0 or p != c['raw'][i - 1]]
                        bends = [pts[i] for i in range(1, len(pts) - 1)
                                 if (pts[i][0] - pts[i - 1][0] == 0) != (pts[i + 1][0] - pts[i][0] == 0)]
                        return any((b[0] == cp[0] or b[1] == cp[1]) and 0 < abs(b[0] - cp[0]) + abs(b[1] - cp[1]) <= x['d'] + x['buf'] for b in bends)
                    off = [c for c in x['conns'] if c['cps'] and not all(any(min(a[0], b[0]) - 2 <= cp[0] <= max(a[0], b[0]) + 2 and min(a[1], b[1]) - 2 <= cp[1] <= max(a[1], b[1]) + 2
                                                                                for a, b in zip(c['disp'], c['disp'][1:])) for cp in c['cps'])]
                    if off and all(near_bend(c) for c in off):
                        key = 'checkpoint:single-checkpoint-next-to-a-bend:adjoining-segment-nudged-past-it'
            vd.violation(key, t + ': ' + desc[:700], x)
    # ---- design level: the range bookkeeping of nudgeOrthogonalRoutes as a state machine (explains F11 / F34)
    rn = V.tlc(os.path.join(V.SPEC, 'avoid', 'NudgeRanges.tla'), os.path.join(V.SPEC, 'avoid', 'NudgeRanges.cfg'), timeout=300, cont=True, workers=4)
    ev.add_tlc('design: unsatisfied-range bookkeeping of nudgeOrthogonalRoutes (2 segments, every set of unsatisfied variables)', rn)
    for inv, st in V.violating_states(rn):
        if st.get('pc') not in ('done', 'abort'):
            continue
        if inv == 'InBounds':
            vd.violation('assertion:vsit->second->id!=freeSegmentID', 'design model NudgeRanges.tla: variables %s, unsatisfied %s -> ranges %s: %s' % (st.get('vs'), st.get('unsat'), st.get('ranges'), st.get('bad')), st)
        elif inv == 'LeftBeforeRight':
            vd.violation('assertion:vsi-1->id==channelLeftID', 'design model NudgeRanges.tla: variables %s, unsatisfied %s: %s' % (st.get('vs'), st.get('unsat'), st.get('bad')), st)
    # ---- beyond the statement: Polygon::simplify() and the checkpoint cache nudging relies on (Simplify.tla)
    # (deterministic, no seed: once per process is enough when the thorough tier runs several rounds)
    if not _SIMPLIFY_DONE:
        simplify.stage(ev, vd, V.rundir('c10simp'), tier == 'quick')
        _SIMPLIFY_DONE.append(1)
    ev.cov['evaluations'] = len(recs)
    ev.cov['distinct_nontrivial'] = nontriv
    ev.cov['traces_validated_against_impl'] = len(recs)
    ev.cov['rule'] = ('scenes = corridor family (two stacked rectangles, corridor width 0..40, 2..4 connectors crossing, all 2^5 nudging option combinations x 4 nudging distances at random) '
                      '+ seeded random orthogonal scenes with >= 2 connectors, some with checkpoints + %d scenes of three pin-attached connectors (six shapes with one pin each, every creation order, offsets, buffer 0|2) '
                      'replayed through the object-level harness; non-trivial = nudging changed a route with a bend' % npin)
    ev.sample(recs[0])
    ev.assumptions = ['"channel wide enough" is decided for axis-parallel rectangle obstacles and requires room for k+1 spacings (conservative)', 'displayed routes on a 2^-10 lattice, tolerance 3 units']
    rc = vd.finish()
    ev.write()
    return rc
