"""Beyond the listed properties: libvpsc's PairingHeap against Heap.tla (histories from the specification, trace validation of every call)."""
import json, os, re
import vcheck as V

SP = os.path.join(V.SPEC, 'vpsc')


def stage(ev, vd, d, quick):
    hh, = V.build(['h_heap'])
    # design level: every call sequence up to a small depth keeps the model well formed
    cfg = os.path.join(d, 'heap.cfg')
    open(cfg, 'w').write('SPECIFICATION Spec\nCONSTANTS\n VALS = {0, 1, 2}\n HMAX = 3\n HLEN = %d\nINVARIANT TypeOK\nCHECK_DEADLOCK FALSE\n' % (5 if quick else 6))
    r = V.tlc(os.path.join(SP, 'Heap.tla'), cfg, timeout=1500, mem='12g')
    ev.add_tlc('design: Heap.tla, every call sequence (2 heaps, 3 values, 3 handles)', r)
    # B1: histories by simulation
    open(cfg, 'w').write('SPECIFICATION Spec\nCONSTANTS\n VALS = {0, 1, 2, 3, 4, 5, 6, 7, 8, 9}\n HMAX = 12\n HLEN = 24\nINVARIANT EmitHist\nCHECK_DEADLOCK FALSE\n')
    n = 400 if quick else 6000
    rg = V.tlc(os.path.join(SP, 'Heap.tla'), cfg, timeout=900, simulate='num=%d' % n, extra=['-depth', '26'], seedv=V.seed(), workers=4)
    hists = [json.loads(h) for h in V.emitted_histories(rg.out)][:n]
    ev.add_tlc('history generation (simulation of Heap.tla)', rg)
    hf = os.path.join(d, 'heap_hists.txt')
    with open(hf, 'w') as f:
        for h in hists:
            f.write('%d %s\n' % (len(h), ' '.join(str(x) for o in h for x in o)))
    tf = os.path.join(d, 'heap.ndjson')
    V.run([hh, 'run', hf, tf], check=True, timeout=600)
    nlines = sum(1 for _ in open(tf))
    rt = V.tlc(os.path.join(SP, 'HeapTrace.tla'), os.path.join(SP, 'HeapTrace.cfg'), env={'HEAPTRACE': tf}, workers=1, timeout=2400, mem='12g')
    ev.add_tlc('HeapTrace: %d recorded calls of %d histories' % (nlines, len(hists)), rt)
    if rt.post_failed or not rt.finished:
        m = re.findall(r'The depth of the complete state graph search is (\d+)', rt.out)
        depth = int(m[-1]) if m else 0
        lines = open(tf).read().splitlines()
        vd.violation('heap-trace-rejected', 'the recorded calls are not a behaviour of Heap.tla: matched %d lines, next: %s' % (depth, lines[depth - 1] if 0 < depth <= len(lines) else '?'),
                     {'matched': depth, 'context': lines[max(0, depth - 10):depth + 1]})
    ev.cov['heap_calls_validated'] = nlines
    return nlines
