"""Helpers shared by the routing checks (C03, C04, C05, C06, C10, C20): scene generation from
the TLC-enumerated families, harness invocation, conversion of harness output into records."""
import re, json, os, random
import vcheck as V

GEN = os.path.join(V.SPEC, 'avoid', 'RouteGen.tla')


def gen_scenes(d, cmax, maxr, gap, tag='gen', poly=False):
    cfg = os.path.join(d, tag + '.cfg')
    open(cfg, 'w').write('SPECIFICATION Spec\nCONSTANTS\n CMAX = %d\n MAXR = %d\n GAP = %d\n POLY = %s\nCHECK_DEADLOCK FALSE\n' % (cmax, maxr, gap, 'TRUE' if poly else 'FALSE'))
    out = os.path.join(d, tag + '.json')
    V.tlc(GEN, cfg, env={'ROUTEGEN': out}, workers=1, timeout=1500, mem='12g')
    return json.load(open(out))


def rect_poly(r):
    x1, y1, x2, y2 = r
    # wound like Avoid::Rectangle: (X,y) (X,Y) (x,Y) (x,y)  -- positive signed area in (x, y)
    return [(x2, y1), (x2, y2), (x1, y2), (x1, y1)]


def inside_closed(p, r):
    return r[0] <= p[0] <= r[2] and r[1] <= p[1] <= r[3]


def write_scenes(path, scenes):
    """scenes: list of dict(mode,P,buf,opts,shapes=[poly pts],conns=[(sx,sy,sd,dx,dy,dd)])"""
    with open(path, 'w') as f:
        for s in scenes:
            row = [s['mode'], s['P'], s['buf'], s['opts'], len(s['shapes'])]
            for sh in s['shapes']:
                row += [0, len(sh)]
                for p in sh:
                    row += list(p)
            row.append(len(s['conns']))
            for c in s['conns']:
                row += list(c)
            cps = s.get('cps', [])          # (connector index, x, y)
            row.append(len(cps))
            for cp in cps:
                row += list(cp)
            f.write(' '.join(map(str, row)) + '\n')


def _run_part(hr, sf, of, chunk):
    """One harness process per restart: a scene in which the process dies (crash inside the library, or no return within
    the time limit) is recorded from the harness's own #PENDING line, and the run continues after it."""
    import subprocess
    recs, died, skip = [], [], 0
    total = sum(1 for _ in open(sf))
    while skip < total:
        p = subprocess.run(['timeout', '-s', 'KILL', str(120 + (total - skip)), hr, 'scenes', sf, of, str(chunk), str(skip)], stdout=subprocess.PIPE, stderr=subprocess.STDOUT, text=True, errors='replace')
        pending, got = None, 0
        for ln in open(of, errors='replace'):
            if ln.startswith('#PENDING '):
                pending = ln[9:]
            elif ln.startswith(('{"mode"', ',{"mode"', '{"', ',{"')) and not ln.startswith('{"chunk"'):
                try:
                    recs.append(json.loads(ln.lstrip(',')))
                except ValueError:
                    break           # torn last line
                got += 1
                pending = None
        skip += got
        if p.returncode == 0:
            break
        if pending is None:
            raise V.Broken('h_route failed rc=%d without a pending scene: %s' % (p.returncode, p.stdout[-1500:]))
        r = json.loads(pending)
        r['what'] = 'process died: %s' % ('no return within the time limit' if p.returncode in (124, 137, -9) else 'signal %d' % -p.returncode if p.returncode < 0 else 'exit %d' % p.returncode)
        died.append((len(recs), skip))
        recs.append(r)
        skip += 1
    return recs, died


def run_scenes(hr, d, name, scenes, chunk=20):
    """Runs the scenes through the harness in up to 16 parallel processes; the result has the scenes' order."""
    from concurrent.futures import ThreadPoolExecutor
    nparts = max(1, min(V.NCPU, len(scenes) // 50))
    parts = [scenes[i::nparts] for i in range(nparts)]
    files = []
    for i, part in enumerate(parts):
        sf = os.path.join(d, '%s.%d.txt' % (name, i))
        write_scenes(sf, part)
        files.append((sf, os.path.join(d, '%s.%d.out' % (name, i))))
    with ThreadPoolExecutor(nparts) as ex:
        res = list(ex.map(lambda f: _run_part(hr, f[0], f[1], chunk), files))
    recs = [None] * len(scenes)
    crashed = []
    for i, (rs, died) in enumerate(res):
        if len(rs) != len(parts[i]):
            raise V.Broken('h_route returned %d records for %d scenes' % (len(rs), len(parts[i])))
        for k, r in enumerate(rs):
            recs[i + k * nparts] = r
        crashed += [(i + k * nparts, files[i][0], sk) for k, sk in died]
    # a death of the optimised build depends on what happens to lie in memory: the sanitizer build names the first invalid access
    if crashed:
        hs, = V.build(['h_route'], cfg='san')
        for gi, sf, sk in crashed[:12]:
            one = os.path.join(d, '%s.crash%d.txt' % (name, gi))
            open(one, 'w').write(open(sf).read().splitlines()[sk] + '\n')
            rc1, out1 = V.run(['timeout', '-s', 'KILL', '600', hs, 'scenes', one, one + '.out', str(chunk)], timeout=700)
            # (UBSan names file:line in its message; for an ASan report the site is the first library frame of the faulting access)
            m = re.search(r'(\w+\.cpp):(\d+):\d+: runtime error', out1) or re.search(r'ERROR: AddressSanitizer[^\n]*\n(?:[^\n]*\n)?\s*#0 [^\n]*?/(\w+\.cpp):(\d+)', out1) or re.search(r'ERROR: AddressSanitizer: (\S+)', out1)
            site = ('memory-error@%s' % (m.group(1) + (':' + m.group(2) if m.lastindex > 1 else ''))) if m else 'not-reproduced-in-the-sanitizer-build'
            recs[gi]['what'] += ' [' + site + ']'
    json.dump({'chunk': chunk, 'LS': 1024, 'recs': recs}, open(os.path.join(d, name + '.json'), 'w'))
    return {'chunk': chunk, 'LS': 1024, 'recs': recs}


def crash_key(what):
    """fingerprint of a scene in which the process died"""
    m = re.search(r'\[(.*?)\]', what)
    return 'process-died:' + (m.group(1) if m else re.sub(r'[^a-z0-9]+', '-', what[14:].lower()))


def bbox(shapes, pts):
    xs = [p[0] for sh in shapes for p in sh] + [p[0] for p in pts]
    ys = [p[1] for sh in shapes for p in sh] + [p[1] for p in pts]
    return [min(xs), min(ys), max(xs), max(ys)]


def poly_rect(sh):
    xs = [p[0] for p in sh]
    ys = [p[1] for p in sh]
    return [min(xs), min(ys), max(xs), max(ys)]


def in_closed_convex(p, poly):
    """p inside or on the boundary of a positively wound convex polygon"""
    n = len(poly)
    for i in range(n):
        a, b = poly[i - 1], poly[i]
        if (b[0] - a[0]) * (p[1] - a[1]) - (b[1] - a[1]) * (p[0] - a[0]) < 0:
            return False
    return True
