"""Helpers shared by the routing checks (C03, C04, C05, C06, C10, C20): scene generation from
the TLC-enumerated families, harness invocation, conversion of harness output into records."""
import json, os, random
import vcheck as V

GEN = os.path.join(V.SPEC, 'avoid', 'RouteGen.tla')


def gen_scenes(d, cmax, maxr, gap, tag='gen', poly=False):
    cfg = os.path.join(d, tag + '.cfg')
    open(cfg, 'w').write('SPECIFICATION Spec\nCONSTANTS\n CMAX = %d\n MAXR = %d\n GAP = %d\n POLY = %s\nCHECK_DEADLOCK FALSE\n' % (cmax, maxr, gap, 'TRUE' if poly else 'FALSE'))
    out = os.path.join(d, tag + '.json')
    V.tlc(GEN, cfg, env={'ROUTEGEN': out}, workers=1, timeout=1500, mem='12g')
    return json.load(open(out))


def rect_poly(r):
    x1, y1, x2, y2 = r
    # wound like Avoid::Rectangle: (X,y) (X,Y) (x,Y) (x,y)  -- positive signed area in (x, y)
    return [(x2, y1), (x2, y2), (x1, y2), (x1, y1)]


def inside_closed(p, r):
    return r[0] <= p[0] <= r[2] and r[1] <= p[1] <= r[3]


def write_scenes(path, scenes):
    """scenes: list of dict(mode,P,buf,opts,shapes=[poly pts],conns=[(sx,sy,sd,dx,dy,dd)])"""
    with open(path, 'w') as f:
        for s in scenes:
            row = [s['mode'], s['P'], s['buf'], s['opts'], len(s['shapes'])]
            for sh in s['shapes']:
                row += [0, len(sh)]
                for p in sh:
                    row += list(p)
            row.append(len(s['conns']))
            for c in s['conns']:
                row += list(c)
            cps = s.get('cps', [])          # (connector index, x, y)
            row.append(len(cps))
            for cp in cps:
                row += list(cp)
            f.write(' '.join(map(str, row)) + '\n')


def run_scenes(hr, d, name, scenes, chunk=20):
    sf = os.path.join(d, name + '.txt')
    of = os.path.join(d, name + '.json')
    write_scenes(sf, scenes)
    rc, out = V.run([hr, 'scenes', sf, of, str(chunk)], timeout=1800)
    if rc != 0:
        raise V.Broken('h_route failed rc=%d: %s' % (rc, out[-2000:]))
    return json.load(open(of))


def bbox(shapes, pts):
    xs = [p[0] for sh in shapes for p in sh] + [p[0] for p in pts]
    ys = [p[1] for sh in shapes for p in sh] + [p[1] for p in pts]
    return [min(xs), min(ys), max(xs), max(ys)]


def poly_rect(sh):
    xs = [p[0] for p in sh]
    ys = [p[1] for p in sh]
    return [min(xs), min(ys), max(xs), max(ys)]


def in_closed_convex(p, poly):
    """p inside or on the boundary of a positively wound convex polygon"""
    n = len(poly)
    for i in range(n):
        a, b = poly[i - 1], poly[i]
        if (b[0] - a[0]) * (p[1] - a[1]) - (b[1] - a[1]) * (p[0] - a[0]) < 0:
            return False
    return True
