"""Beyond the listed properties: constraintsRemovingRedundantEqualities (libvpsc and libavoid's copy) returns a subsequence with the same solutions."""
import json, os, random
import vcheck as V

SPF = os.path.join(V.SPEC, 'vpsc', 'RedundantEq.tla')


def stage(ev, vd, d, quick, rnd):
    hv, ha = V.build(['h_vpsc', 'h_avpsc'])
    cfg = os.path.join(d, 'redeq.cfg')
    empty = os.path.join(d, 'redeq_empty.json')
    json.dump({'recs': [], 'chunk': 1}, open(empty, 'w'))
    consts = 'CONSTANTS\n NV = 3\n LMAX = %d\n GAPS %s\n' % (3, '= {0, 1}' if quick else '<- GapsWide')
    open(cfg, 'w').write('SPECIFICATION GenSpec\n' + consts + 'CHECK_DEADLOCK FALSE\n')
    gf = os.path.join(d, 'redeq_gen.json')
    V.tlc(SPF, cfg, env={'REDEQGEN': gf, 'REDEQRECS': empty}, workers=1, timeout=1500, mem='12g')
    fam = json.load(open(gf))
    lines = ['3 %d %s' % (len(L), ' '.join('%d %d %d %d' % (c[0], c[1], c[2], 1 if c[3] else 0) for c in L)) for L in fam]
    nenum = len(lines)
    for _ in range(300 if quick else 4000):       # longer lists over more variables, with planted cycles of equalities
        n = rnd.randint(2, 4)
        off = [rnd.randint(0, 1) for _ in range(n)]
        L = []
        for _c in range(rnd.randint(2, 6)):
            a, b = rnd.sample(range(n), 2)
            if rnd.random() < 0.7:
                g = off[b] - off[a] if rnd.random() < 0.8 else rnd.randint(-1, 1)      # mostly consistent with one placement, sometimes not
                L.append((a + 1, b + 1, g, 1))
            else:
                L.append((a + 1, b + 1, rnd.randint(-1, 1), 0))
        lines.append('%d %d %s' % (n, len(L), ' '.join('%d %d %d %d' % c for c in L)))
    inf = os.path.join(d, 'redeq.txt')
    open(inf, 'w').write('\n'.join(lines) + '\n')
    open(cfg, 'w').write('SPECIFICATION Spec\nCONSTANTS\n NV = 1\n LMAX = 1\n GAPS = {0}\nINVARIANT SameSolutions\nCHECK_DEADLOCK FALSE\n')
    total = nontriv = 0
    for name, h in (('libvpsc', hv), ('libavoid', ha)):
        of = os.path.join(d, 'redeq_%s.json' % name)
        V.run([h, 'redeq', inf, of], check=True, timeout=600)
        r = V.tlc(SPF, cfg, env={'REDEQRECS': of, 'REDEQGEN': '/dev/null'}, timeout=3000, cont=True, mem='16g')
        ev.add_tlc('RedundantEq (%s): %d constraint lists (%d enumerated + random)' % (name, len(lines), nenum), r)
        recs = json.load(open(of))['recs']
        total += len(recs)
        nontriv += sum(v[0] for v in V.stat(r.out, 'redeq'))
        for inv, st in V.violating_states(r):
            for (i, t) in st.get('bad', []):
                x = recs[i - 1]
                vd.violation('redundant-equalities:%s:%s' % (name, t), '%s: n=%d constraints (l, r, gap, equality)=%s kept=%s' % (t, x['n'], x['cons'], x['kept']), x)
    ev.cov['redundant_equality_lists'] = total
    ev.cov['redundant_equality_lists_with_something_removed'] = nontriv
    return total, nontriv
