"""C03: every displayed route joins its endpoints and stays out of obstacles (both modes, buffer, nudging options)."""
import json, os, random, re
import vcheck as V
from checks import route_common as RC

PID = 'C03'
RV = os.path.join(V.SPEC, 'avoid', 'RouteValid.tla')
PP = os.path.join(V.SPEC, 'avoid', 'PolyPath.tla')


def dist_box(p, poly):
    xs = [q[0] for q in poly]; ys = [q[1] for q in poly]
    dx = max(min(xs) - p[0], 0, p[0] - max(xs)); dy = max(min(ys) - p[1], 0, p[1] - max(ys))
    return max(dx, dy) if (dx == 0 or dy == 0) else min(dx, dy) if False else (dx * dx + dy * dy) ** 0.5


def mitred_offset(poly, off):
    """the routing polygon libavoid builds for a positively wound convex polygon (mitre joins), for classification only"""
    n = len(poly)
    nor = []
    for i in range(n):
        a, b = poly[i], poly[(i + 1) % n]
        dx, dy = b[0] - a[0], b[1] - a[1]
        f = (dx * dx + dy * dy) ** 0.5
        nor.append((dy / f, -dx / f))
    out = []
    for i in range(n):
        j = (i - 1) % n
        R = 1 + nor[i][0] * nor[j][0] + nor[i][1] * nor[j][1]
        q = off / R
        out.append((poly[i][0] + (nor[j][0] + nor[i][0]) * q, poly[i][1] + (nor[j][1] + nor[i][1]) * q))
    return out


def endpoint_in_mitred_buffer(x, LS):
    """an endpoint lies outside every shape but inside the mitred buffer polygon of a shape with an acute corner"""
    if x['buf'] <= 0:
        return False
    for sh in x['polys']:
        pts = [(p[0] / LS, p[1] / LS) for p in sh]
        if len(pts) == 4 and len({p[0] for p in pts}) == 2 and len({p[1] for p in pts}) == 2:
            continue        # axis-parallel rectangle: the offset is exact there
        off = mitred_offset(pts, x['buf'])
        for e in (x['src'], x['dst']):
            ep = (e[0] / LS, e[1] / LS)
            if not RC.in_closed_convex(ep, pts) and RC.in_closed_convex(ep, off):
                return True
    return False


def make_records(out):
    recs = []
    LS = out['LS']
    for si, sc in enumerate(out['recs']):
        for ci, c in enumerate(sc['conns']):
            recs.append({'scene': si, 'conn': ci, 'mode': sc['mode'], 'thrown': sc['thrown'], 'buf': sc['buf'], 'opts': sc['opts'], 'P': sc['P'],
                         'polys': [[[p[0] * LS, p[1] * LS] for p in sh] for sh in sc['shapes']],
                         'src': [c['src'][0] * LS, c['src'][1] * LS], 'dst': [c['dst'][0] * LS, c['dst'][1] * LS],
                         'disp': [] if sc['thrown'] else c['disp'], 'raw': [] if sc['thrown'] else [p[:2] for p in c['raw']],
                         'what': sc.get('what', '')})
    return recs


def random_scene(rnd, mode):
    """up to 8 separated convex shapes on the even lattice 2..30, up to 6 connectors"""
    buf = rnd.choice([0, 0, 2])
    gap = 2 * buf + 2
    shapes, boxes = [], []
    for _ in range(rnd.randint(1, 8)):
        for _try in range(30):
            w, h = 2 * rnd.randint(1, 4), 2 * rnd.randint(1, 4)
            x, y = 2 * rnd.randint(1, 13), 2 * rnd.randint(1, 13)
            b = (x, y, x + w, y + h)
            if all(b[2] + gap <= o[0] or o[2] + gap <= b[0] or b[3] + gap <= o[1] or o[3] + gap <= b[1] for o in boxes):
                boxes.append(b)
                kind = rnd.randint(0, 5) if mode == 0 else 0
                if kind <= 2:
                    shapes.append(RC.rect_poly(b))
                elif kind <= 4:
                    t = rnd.randint(0, 3); r = RC.rect_poly(b)
                    shapes.append([r[(t + i) % 4] for i in range(3)])
                else:
                    mx, my = (b[0] + b[2]) // 2, (b[1] + b[3]) // 2
                    shapes.append([(b[2], my), (mx, b[3]), (b[0], my), (mx, b[1])])
                break
    pts = [(x, y) for x in range(1, 34, 2) for y in range(1, 34, 2)
           if all(not (o[0] - buf - 1 < x < o[2] + buf + 1 and o[1] - buf - 1 < y < o[3] + buf + 1) for o in boxes)]
    conns = []
    for _ in range(rnd.randint(1, 6)):
        a, b = rnd.sample(pts, 2)
        if rnd.random() < 0.2 and boxes:       # an end at the centre of a shape (inside it)
            o = rnd.choice(boxes); a = ((o[0] + o[2]) // 2, (o[1] + o[3]) // 2)
        conns.append((a[0], a[1], 15, b[0], b[1], 15))
    return {'mode': mode, 'P': rnd.choice([0, 10, 10, 50]) if mode == 0 else rnd.choice([1, 10, 10, 50]), 'buf': buf,
            'opts': rnd.randint(0, 127), 'shapes': shapes, 'conns': conns}


def butted_row(rnd):
    bx0 = 2 * rnd.randint(5, 8); bx1 = bx0 + 2 * rnd.randint(1, 4)
    by0 = 2 * rnd.randint(1, 3); by1 = by0 + 2 * rnd.randint(6, 10)
    def side(left):
        h = 2 * rnd.randint(1, 3)
        y0 = rnd.choice(range(by0 + 2, by1 - h - 1, 2))           # strictly inside B's side
        w = 2 * rnd.randint(1, 3)
        return (bx0 - w, y0, bx0, y0 + h) if left else (bx1, y0, bx1 + w, y0 + h)
    boxes = [side(True), (bx0, by0, bx1, by1), side(False)]
    if rnd.random() < 0.3:                                        # sometimes a second shape butted on one side
        extra = side(rnd.random() < 0.5)
        if all(extra[2] <= o[0] or o[2] <= extra[0] or extra[3] <= o[1] or o[3] <= extra[1] for o in boxes):
            boxes.append(extra)
    col = rnd.random() < 0.5                                      # column instead of row
    if col:
        boxes = [(b[1], b[0], b[3], b[2]) for b in boxes]
    boxes_mid = (bx0, bx1)
    rnd.shuffle(boxes)
    shapes = [RC.rect_poly(b) for b in boxes]
    pts = [(x, y) for x in range(1, 34, 2) for y in range(1, 34, 2) if all(not (o[0] <= x <= o[2] and o[1] <= y <= o[3]) for o in boxes)]
    conns = []
    mid = boxes_mid
    for q in range(6):
        a, b = rnd.sample(pts, 2)
        if q < 4:           # across the middle shape: one end on either side of it
            lo = [p for p in pts if (p[1] if col else p[0]) < mid[0]]
            hi = [p for p in pts if (p[1] if col else p[0]) > mid[1]]
            if lo and hi:
                a, b = rnd.choice(lo), rnd.choice(hi)
                if rnd.random() < 0.5:
                    a, b = b, a
        conns.append((a[0], a[1], 15, b[0], b[1], 15))
    md = rnd.choice([0, 0, 0, 1])
    return {'mode': md, 'P': 10 if md else rnd.choice([0, 0, 10]), 'buf': 0, 'opts': rnd.randint(0, 31) & ~1, 'shapes': shapes, 'conns': conns}


def pin_wall_records(d, quick, LS):
    """nested connectors between side pins of two shapes, next to a wall that extends beyond both: the vertical (horizontal) segments can
    only lie in the channel between the shapes and the wall, the outer one flush on the wall -- nudging has to spread them AWAY from it.
    Pins need the object-level harness; the records are judged by RouteValid like all others."""
    from checks import life_common as LC
    hl, = V.build(['h_life'])
    hists, meta = [], []
    for gap in ((8, 12) if quick else (6, 8, 10, 12, 16)):
        for turn in (0, 1):                      # 0: pins on the right sides, wall to the right; 1: pins on the lower sides, wall below
            for k in (2, 3):
                for buf in (0, 1):
                    # shape A above (left of) shape B, pins at quarters 1..3 of the facing side, classes 1..k
                    A, B = (0, 0, 10, 8), (0, 16, 10, 24)
                    W = (10 + gap, -10, 10 + gap + 6, 34)
                    tr = (lambda r: r) if turn == 0 else (lambda r: (r[1], r[0], r[3], r[2]))
                    ops = [[1, 1] + list(tr(A)), [1, 2] + list(tr(B)), [1, 3] + list(tr(W))]
                    for cls in range(1, k + 1):
                        qa, qb = cls, 4 - cls                         # outer connector: first pin of A, last pin of B
                        pa = (4, qa) if turn == 0 else (qa, 4)
                        pb = (4, qb) if turn == 0 else (qb, 4)
                        dirs = 8 if turn == 0 else 2
                        ops.append([2, 1, cls, pa[0], pa[1], 1, 0, dirs, 0])
                        ops.append([2, 2, cls, pb[0], pb[1], 1, 0, dirs, 0])
                    for cls in range(1, k + 1):
                        ops.append([4, 20 + cls, 1, 1, cls, 1, 2, cls])
                    ops.append([13])
                    hists.append(ops); meta.append(buf)
    scen = os.path.join(d, 'pinwalls.txt')
    with open(scen, 'w') as f:
        for h, buf in zip(hists, meta):
            f.write('1 %d %d %s\n' % (buf, len(h), ' '.join(str(x) for o in h for x in o)))
    execs, _ = LC.run_harness(hl, scen, os.path.join(d, 'pinwalls.ndjson'), len(hists), timeout=600)
    recs = []
    for ex in execs:
        snaps = [json.loads(l) for l in ex['lines'] if '"processed":true' in l and '"shapes"' in l]
        errs = [json.loads(l) for l in ex['lines'] if '"error"' in l]
        buf = meta[ex['index']]
        base = {'scene': -1 - ex['index'], 'mode': 1, 'buf': 2 * buf, 'opts': 0, 'P': 10}
        if errs or not snaps:
            recs.append(
                        dict(base, **{'conn': 0, 'thrown': True, 'polys': [], 'src': [0, 0], 'dst': [0, 0], 'disp': [], 'raw': [], 'what': (errs[0]['error'] if errs else 'no snapshot')}))
            continue
        sn = snaps[-1]
        polys = [[[p[0], p[1]] for p in ((q[3], q[2]), (q[3], q[4]), (q[1], q[4]), (q[1], q[2]))] for q in sn['shapes']]
        for ci, c in enumerate(sorted(sn['conns'], key=lambda c: c['id'])):
            recs.append(dict(base, **{'conn': ci, 'thrown': False, 'polys': polys, 'src': c['src']['p'], 'dst': c['dst']['p'], 'disp': c['disp'],
                                      'raw': [p[:2] for p in c['raw']], 'what': ''}))
    return recs


def main(tier):
    ev = V.Evidence(PID, tier)
    vd = V.Verdict(PID, ev)
    quick = tier == 'quick'
    hr, = V.build(['h_route'])
    d = V.rundir('c03')
    rnd = random.Random(V.seed())
    # TLC-enumerated families: touching shapes allowed (GAP 0), both modes
    fam = RC.gen_scenes(d, 8, 2, 0, poly=True)
    pts = fam['points']
    scenes = []
    rect_sets = fam['scenes']
    poly_sets = fam['pscenes']
    for mode, sets in ((1, rect_sets), (0, poly_sets)):
        chosen = rnd.sample(sets, min(len(sets), 400 if quick else 6000))
        for st in chosen:
            shapes = [RC.rect_poly(r) for r in st] if mode == 1 else st
            free = [p for p in pts if not any(RC.in_closed_convex(p, poly) for poly in shapes)]
            if len(free) < 2:
                continue
            conns = []
            for _ in range(3):
                a, b = rnd.sample(free, 2)
                conns.append((a[0], a[1], 15, b[0], b[1], 15))
            scenes.append({'mode': mode, 'P': rnd.choice([0, 10]) if mode == 0 else 10, 'buf': 0, 'opts': rnd.randint(0, 31), 'shapes': shapes, 'conns': conns})
    # three interior-disjoint rectangles, touching allowed, in every insertion order (a shape butted between two others)
    fam3 = RC.gen_scenes(d, 8, 3, 0, tag='gen3')
    triples = [st for st in fam3['scenes'] if len(st) == 3]
    def touching(a, b):
        return (a[2] == b[0] or b[2] == a[0]) and min(a[3], b[3]) > max(a[1], b[1]) or (a[3] == b[1] or b[3] == a[1]) and min(a[2], b[2]) > max(a[0], b[0])
    chains = [st for st in triples if sum(touching(st[i], st[j]) for i in range(3) for j in range(i + 1, 3)) >= 2]
    for st in chains * (2 if quick else 6):
        order = list(st)
        rnd.shuffle(order)
        shapes = [RC.rect_poly(r) for r in order]
        free = [p for p in pts if not any(RC.in_closed_convex(p, poly) for poly in shapes)]
        if len(free) < 2:
            continue
        conns = []
        for _ in range(6):
            a, b = rnd.sample(free, 2)
            conns.append((a[0], a[1], 15, b[0], b[1], 15))
        md = rnd.choice([0, 0, 0, 1])
        scenes.append({'mode': md, 'P': 10 if md else rnd.choice([0, 10]), 'buf': 0, 'opts': rnd.randint(0, 31) & ~1, 'shapes': shapes, 'conns': conns})
    # a row A | B | C of butted rectangles: corners of the outer two lie in the interior of opposite sides of the middle one
    # (vertices on another shape's edge on both sides of one shape), every insertion order, both orientations
    for _ in range(400 if quick else 3000):
        scenes.append(butted_row(rnd))
    nenum = len(scenes)
    for _ in range(1000 if quick else 8000):
        scenes.append(random_scene(rnd, rnd.randint(0, 1)))
    out = RC.run_scenes(hr, d, 'valid', scenes)
    recs = make_records(out)
    recs += pin_wall_records(d, quick, out['LS'])
    rf = os.path.join(d, 'valid_recs.json')
    json.dump({'chunk': 100, 'recs': recs}, open(rf, 'w'))
    r = V.tlc(RV, os.path.join(V.SPEC, 'avoid', 'RouteValid.cfg'), env={'VALIDRECS': rf}, timeout=3000, cont=True, mem='24g')
    ev.add_tlc('RouteValid over %d (scene, connector) records' % len(recs), r)
    nontriv = sum(v[0] for v in V.stat(r.out, 'rv'))
    suspects = []
    for inv, st in V.violating_states(r):
        for (i, t) in st.get('bad', []):
            suspects.append((i, t))
    # "whenever an obstacle-free path exists": decided by the specification (reachability in PolyPath's visibility graph)
    need = sorted({i for i, t in suspects if t.startswith('through-shape') or t.startswith('does-not') or t == 'fewer-than-two-points'})
    exists = {}
    if need:
        prec = []
        for i in need:
            x = recs[i - 1]
            LS = out['LS']
            polys = [[[p[0] // LS, p[1] // LS] for p in sh] for sh in x['polys']]
            # obstacles containing an endpoint do not count
            src, dst = [x['src'][0] // LS, x['src'][1] // LS], [x['dst'][0] // LS, x['dst'][1] // LS]
            polys = [sh for sh in polys if not RC.in_closed_convex(src, sh) and not RC.in_closed_convex(dst, sh)]
            prec.append({'polys': polys, 'src': src, 'dst': dst, 'P': 0, 'route': [src, dst], 'exact': True})
        pf = os.path.join(d, 'reach.json')
        json.dump({'recs': prec}, open(pf, 'w'))
        cfgp = os.path.join(d, 'reach.cfg')
        open(cfgp, 'w').write('SPECIFICATION ReachSpec\nINVARIANT NotReached\nCHECK_DEADLOCK FALSE\n')
        rr = V.tlc(PP, cfgp, env={'POLYRECS': pf}, timeout=1500, cont=True)
        ev.add_tlc('PolyPath reachability for %d suspicious records (antecedent "a path exists")' % len(need), rr)
        for inv, st in V.violating_states(rr):
            if st.get('k'):
                exists[need[st['k'] - 1]] = True
    for i, t in suspects:
        x = recs[i - 1]
        if i in need and not exists.get(i):
            ev.cov['no_path_exists_records'] = ev.cov.get('no_path_exists_records', 0) + 1
            continue
        LS = out['LS']
        desc = 'mode=%s buf=%s opts=%s P=%s shapes=%s src=%s dst=%s display=%s' % (
            'orthogonal' if x['mode'] else 'polyline', x['buf'], x['opts'], x['P'],
            [[[p[0] // LS, p[1] // LS] for p in sh] for sh in x['polys']], [v / LS for v in x['src']], [v / LS for v in x['dst']],
            [[round(p[0] / LS, 3), round(p[1] / LS, 3)] for p in x['disp']])
        key = {'through-shape:via-two-of-its-vertices': 'visibility:segment-through-two-collinear-shape-vertices',
               'through-shape:crossing-only-at-shape-vertices': 'visibility:touching-shapes:segment-crosses-boundary-only-at-shape-vertices'}.get(t, 'route:' + t)
        if t == 'through-shape' and x['mode'] == 0 and endpoint_in_mitred_buffer(x, LS):
            key = 'buffer:mitred-offset-of-acute-corner-contains-endpoint'
        if t in ('does-not-start-at-source', 'does-not-end-at-destination') and x['mode'] == 1 and (x['opts'] & 1):
            key = 'nudging:option-nudgeOrthogonalSegmentsConnectedToShapes:endpoint-moved'
        if t == 'exception':
            desc = x['what'][:300] + ' ' + desc
            m = re.search(r'expression: (.*)', x['what'])
            key = 'assertion:' + re.sub(r'[^A-Za-z0-9_>!=<-]+', '', m.group(1))[:60] if m else (RC.crash_key(x['what']) if x['what'].startswith('process died') else 'exception')

        vd.violation(key, t + ': ' + desc, x)
    ev.cov['evaluations'] = len(recs)
    ev.cov['distinct_nontrivial'] = nontriv
    ev.cov['traces_validated_against_impl'] = len(recs)
    ev.cov['rule'] = ('records = (scene, connector) with the displayed route; scenes = %d from the TLC-enumerated families (<=2 rectangles / convex polygons on the even lattice 2..8, touching allowed) '
                      '+ seeded random scenes (<=8 separated shapes, <=6 connectors, buffer 0|2, random nudging options, ends at shape centres); non-trivial = displayed route with a bend' % nenum)
    ev.sample({k: recs[0][k] for k in ('mode', 'buf', 'opts', 'polys', 'src', 'dst', 'disp')})
    ev.assumptions = ['displayed routes on a 2^-10 lattice; penetrations shallower than 2 lattice units are not detected',
                      'polygons wound positively (as Avoid::Rectangle)']
    rc = vd.finish()
    ev.write()
    return rc
