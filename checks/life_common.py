"""Object-level libavoid pipeline shared by C11, C12, C15: histories are behaviours of Lifecycle.tla,
replayed by harness/h_life (plain or sanitizer build), recorded as ndjson executions."""
import json, os, random, re
import vcheck as V

SP = os.path.join(V.SPEC, 'avoid')


def gen_histories(d, n, hlen, seed, tag='lifegen', conn_ids='{21, 22, 23}'):
    cfg = os.path.join(d, tag + '.cfg')
    open(cfg, 'w').write('SPECIFICATION Spec\nCONSTANTS\n ShapeIds = {1, 2}\n JuncIds = {11}\n ConnIds = %s\n HLEN = %d\nINVARIANTS EmitHist\nCHECK_DEADLOCK FALSE\n' % (conn_ids, hlen))
    r = V.tlc(os.path.join(SP, 'Lifecycle.tla'), cfg, timeout=900, simulate='num=%d' % max(50, n // 20), extra=['-depth', str(hlen + 2)], seedv=seed, workers=4)
    hs = V.emitted_histories(r.out)
    random.Random(seed).shuffle(hs)
    return [json.loads(h) for h in hs[:n]], r


def write_scenarios(path, hists, rnd, opts_choices=(0, 1, 2, 4, 6, 3), forced=None):
    """forced: {index: (mode, opts)} for histories that need a particular routing mode / option set"""
    cfgs = []
    with open(path, 'w') as f:
        for i, h in enumerate(hists):
            mode, opts = rnd.randint(0, 1), rnd.choice(opts_choices)
            if forced and i in forced:
                mode, opts = forced[i]
            cfgs.append((mode, opts))
            f.write('%d %d %d %s\n' % (mode, opts, len(h), ' '.join(str(x) for o in h for x in o)))
    return cfgs


def _report(txt):
    """the part of a dead process's stderr that names the error: from the first sanitizer line on (a stack-overflow report is long), plus the tail"""
    m = re.search(r'ERROR: AddressSanitizer|runtime error:|ERROR: LeakSanitizer', txt)
    i = max(0, txt.rfind('\n', 0, m.start())) if m else 0
    return txt[i:i + 4000] + ('\n...\n' + txt[-4000:] if len(txt) > i + 4000 else '')


EXIT_REPORTS = []      # what the sanitizers printed when harness processes of the last run_harness() call exited (leak reports)


def run_harness(binary, scen, out, n, timeout=900, env=None):
    """Runs all n scenarios, restarting after every crash; returns (executions, stderr snippets per crashed index)."""
    execs, crashes = [], {}
    skip = 0
    EXIT_REPORTS[:] = []
    while skip < n:
        part = '%s.part' % out
        rc, txt = V.run([binary, 'run', scen, part, str(skip)], timeout=timeout, env=env)
        if 'LeakSanitizer' in txt:
            EXIT_REPORTS.append(txt[txt.find('ERROR: LeakSanitizer') if 'ERROR: LeakSanitizer' in txt else 0:])      # LSan reports at process exit, after the last scenario
        cur = None
        lines = open(part).read().splitlines() if os.path.exists(part) else []
        done = 0
        for ln in lines:
            try:
                j = json.loads(ln)
            except ValueError:
                continue
            if j['e'] == 'Scenario':
                cur = {'index': j['index'], 'lines': [ln], 'end': None}
                execs.append(cur)
            elif cur is not None:
                cur['lines'].append(ln)
                if j['e'] in ('End', 'Crash'):
                    cur['end'] = j
                    done = cur['index'] + 1
        if cur is not None and cur['end'] is None:
            # the process died inside this scenario (sanitizer abort, signal, timeout)
            cur['end'] = {'e': 'Crash', 'what': 'process died rc=%d' % rc}
            crashes[cur['index']] = _report(txt)
            done = cur['index'] + 1
        elif cur is not None and cur['end']['e'] == 'Crash':
            crashes[cur['index']] = _report(txt)
        if rc == 0 and (cur is None or cur['end']['e'] == 'End') and done >= n:
            break
        if done <= skip:
            done = skip + 1          # no progress: skip the offending scenario
        skip = done
        if rc == 0 and cur is not None and cur['end']['e'] == 'End':
            break
    if os.path.exists('%s.part' % out):
        os.remove('%s.part' % out)
    return execs, crashes


def precondition_class(ops):
    """coarse class of a history, part of finding keys"""
    kinds = [o[0] for o in ops]
    if any(o[0] == 14 and o[1] == 0 for o in ops):
        return 'txn-off'
    if 13 not in kinds:
        return 'never-processed'
    return 'txn-on'


def san_kind(txt):
    m = re.search(r'ERROR: AddressSanitizer: ([a-zA-Z-]+)', txt)
    if m:
        kind = 'asan:' + m.group(1)
    elif 'runtime error:' in txt:
        kind = 'ubsan:' + re.sub(r'[^a-z ]', '', re.sub(r'0x[0-9a-f]+', '', re.search(r'runtime error: ([^\n]{0,80})', txt).group(1).lower())).strip().replace('  ', ' ').replace(' ', '-')[:40]
    elif 'LeakSanitizer' in txt:
        kind = 'lsan:leak'
    else:
        return None, None
    fr = re.findall(r'#\d+ 0x[0-9a-f]+ in (Avoid::[A-Za-z_:~]+)', txt)
    if kind == 'asan:stack-overflow':
        # the top frame is wherever the stack happened to run out: name the recursion by the (alphabetically first) frame that repeats
        rep = sorted({f for f in fr if fr.count(f) >= 2})
        return kind, ('recursion-through-' + rep[0]) if rep else (fr[0] if fr else '?')
    loc = re.search(r'(\w+\.cpp:\d+):\d+: runtime error', txt)
    return kind, (fr[0] if fr else (loc.group(1) if loc else '?'))
