"""Beyond the listed statements (mechanism of C10's checkpoint clause): Polygon::simplify() with a live checkpoint cache against
Simplify.tla -- design model of the loop, TLC-enumerated instances replayed through the real function, records judged by the
declarative postcondition."""
import json, os
import vcheck as V

SP = os.path.join(V.SPEC, 'avoid', 'Simplify.tla')


def _cfg(d, name, spec, legs, maxcp, inv, glegs=1):
    p = os.path.join(d, name + '.cfg')
    open(p, 'w').write('SPECIFICATION %s\nCONSTANTS\n LEGS = %d\n GLEGS = %d\n MAXCP = %d\n FIX = TRUE\n%sCHECK_DEADLOCK FALSE\n' % (spec, legs, glegs, maxcp, ('INVARIANT %s\n' % inv) if inv else ''))
    return p


def stage(ev, vd, d, quick):
    hg, = V.build(['h_geom'])
    legs, maxcp, glegs = (5, 2, 4) if quick else (7, 2, 5)
    # design level: the loop with the re-indexing rule of the comment/diagram meets the postcondition on every instance
    r = V.tlc(SP, _cfg(d, 'simp_design', 'DSpec', legs, maxcp, 'Post', glegs), env={'SIMPRECS': '/dev/null'}, timeout=900, workers=8)
    ev.add_tlc('design: Simplify.tla loop (Keep/Drop/Return) meets Post on every staircase route of <= %d legs and every self-avoiding four-direction route of <= %d legs, with <= %d checkpoints' % (legs, glegs, maxcp), r)
    if r.violated:
        raise V.Broken('Simplify.tla: the design model does not meet its own postcondition\n' + r.out[-2000:])
    # the same model with the re-indexing rule the code had before fix 98eb188 must violate Post (the model can tell the two apart)
    rb = V.tlc(SP, os.path.join(V.SPEC, 'avoid', 'SimplifyDesign_before.cfg'), env={'SIMPRECS': '/dev/null'}, timeout=300, workers=4)
    ev.cov['simplify_model_of_the_code_before_fix_98eb188_violates_Post'] = bool(rb.violated)
    if not rb.violated:
        raise V.Broken('Simplify.tla with FIX = FALSE no longer violates Post: the design model lost its discriminating power')
    # B1: the same instances written out and run through the real Polygon::simplify()
    gf = os.path.join(d, 'simp_inst.json')
    V.tlc(SP, _cfg(d, 'simp_gen', 'GenSpec', legs, maxcp, None, glegs), env={'SIMPGEN': gf, 'SIMPRECS': '/dev/null'}, workers=1, timeout=900, mem='8g')
    insts = json.load(open(gf))
    tf = os.path.join(d, 'simp_inst.txt')
    with open(tf, 'w') as f:
        for i in insts:
            row = [len(i['ps'])] + [c for p in i['ps'] for c in p] + [len(i['cps'])] + [c for p in i['cps'] for c in p]
            f.write(' '.join(map(str, row)) + '\n')
    rf = os.path.join(d, 'simp_recs.json')
    rc, out = V.run([hg, 'simp', tf, rf, '400'], timeout=600)
    if rc != 0:
        V.harness_exit('h_geom:simp', rc, out)
    # B2: every record judged by the postcondition
    rr = V.tlc(SP, _cfg(d, 'simp_recs', 'RSpec', 1, 0, 'AllOK'), env={'SIMPRECS': rf}, timeout=1500, cont=True)
    ev.add_tlc('Simplify records: %d instances through the real Polygon::simplify()' % len(insts), rr)
    recs = json.load(open(rf))['recs']
    merged = sum(v[0] for v in V.stat(rr.out, 'simp'))
    nbad = 0
    for inv, st in V.violating_states(rr):
        for (i, t) in sorted(st.get('bad', []))[:3] if nbad < 6 else []:
            rec = recs[i - 1]
            nbad += 1
            vd.violation({1: 'simplify:wrong-route', 2: 'simplify:checkpoint-cache-misindexed', 4: 'checkpoint-cache:builder-disagrees-with-specification'}.get(t, 'simplify:checkpointsOnSegment-wrong'),
                         'Polygon::simplify() on route %s with checkpoint cache %s returned route %s, cache %s%s' % (rec['ps'], rec['cps'], rec['qs'], rec['cq'], (', checkpointsOnSegment (segment, modifier, points): %s' % rec['cos']) if t == 3 else (', cache built by buildConnectorRouteCheckpointCache: %s' % rec['built']) if t == 4 else ''), rec)
    ev.cov['simplify_instances'] = len(insts)
    ev.cov['simplify_instances_with_merge_and_checkpoints'] = merged
    return len(insts)
