"""C04: polyline routes are Euclidean shortest paths (zero penalties) / minimise length + P*bends over taut paths."""
import json, os, random
import vcheck as V
from checks import route_common as RC

PID = 'C04'
PP = os.path.join(V.SPEC, 'avoid', 'PolyPath.tla')


def make_records(out):
    recs = []
    LS = out['LS']
    for si, sc in enumerate(out['recs']):
        for ci, c in enumerate(sc['conns']):
            raw = [] if sc['thrown'] else c['raw']
            recs.append({'scene': si, 'thrown': sc['thrown'], 'polys': sc['shapes'], 'src': c['src'], 'dst': c['dst'], 'P': sc['P'],
                         'route': [[p[0] // LS, p[1] // LS] for p in raw],
                         'exact': (not sc['thrown']) and bool(c['rawExact']) and all(p[0] % LS == 0 and p[1] % LS == 0 for p in raw)})
    return recs


def build_scenes(tier, d, rnd, mode=0, pvals=(0, 0, 0, 3, 10)):
    quick = tier == 'quick'
    fam = RC.gen_scenes(d, 10, 2, 2, poly=True)
    pts = fam['points']
    ps = fam['pscenes']
    singles = [s for s in ps if len(s) == 1]
    pairs = [s for s in ps if len(s) == 2]
    chosen = (rnd.sample(singles, 60) + rnd.sample(pairs, 140)) if quick else (singles + rnd.sample(pairs, min(len(pairs), 4000)))
    per = 10 if quick else 30
    scenes = []
    for st in chosen:
        free = [p for p in pts if not any(RC.in_closed_convex(p, poly) for poly in st)]
        for _ in range(per):
            a, b = rnd.sample(free, 2)
            scenes.append({'mode': mode, 'P': rnd.choice(pvals), 'buf': 0, 'opts': 0, 'shapes': st, 'conns': [(a[0], a[1], 15, b[0], b[1], 15)]})
    return scenes, len(singles), len(pairs), len(chosen)


def main(tier):
    ev = V.Evidence(PID, tier)
    vd = V.Verdict(PID, ev)
    hr, = V.build(['h_route'])
    d = V.rundir('c04')
    rnd = random.Random(V.seed())
    scenes, ns, npairs, nchosen = build_scenes(tier, d, rnd)
    out = RC.run_scenes(hr, d, 'poly', scenes)
    recs = make_records(out)
    # routes kept or recomputed by a long-lived router after add/move/delete transactions must be optimal for the
    # final scene too (histories are behaviours of RouterApiMC, as in C06; one connector, interior-disjoint shapes)
    from checks import c06
    hists, rg = c06.gen_histories(d, 2500 if tier == 'quick' else 15000, 14, 7, V.seed() + 11, tier == 'quick')
    ev.add_tlc('history generation (simulation of RouterApiMC)', rg)
    hf = os.path.join(d, 'hists.txt')
    hp = []
    with open(hf, 'w') as f:
        for h in hists:
            h1 = [o for o in h if not (o[0] == 4 and o[1] == 2)]
            P = rnd.choice([0, 0, 3, 10])
            hp.append(P)
            f.write('0 %d 1 %d %s\n' % (P, len(h1), ' '.join(str(x) for o in h1 for x in o)))
    of = os.path.join(d, 'hists.json')
    rc_, o_ = V.run([hr, 'hist', hf, of], timeout=1800)
    if rc_ != 0:
        V.harness_exit('h_route:hist', rc_, o_)
    hres = json.load(open(of))
    LS = hres['LS']
    ninc = 0
    for hi, rs in enumerate(hres['hists']):
        if rs['thrown']:
            continue
        for st in rs['steps']:
            c = st['conns'][0]
            if c['src'] == c['dst']:
                continue
            if any(RC.in_closed_convex(c['src'], RC.rect_poly(q[1:])) or RC.in_closed_convex(c['dst'], RC.rect_poly(q[1:])) for q in st['scene']):
                continue          # C04 quantifies over endpoints in free space
            recs.append({'scene': -1, 'thrown': False, 'polys': [[list(p) for p in RC.rect_poly(q[1:])] for q in st['scene']], 'src': c['src'], 'dst': c['dst'], 'P': hp[hi],
                         'route': [[p[0] // LS, p[1] // LS] for p in c['raw']], 'exact': bool(c['exact']), 'history': hists[hi], 'after_op': st['op']})
            ninc += 1
    ev.cov['incremental_route_records'] = ninc
    rf = os.path.join(d, 'poly_recs.json')
    json.dump({'recs': recs}, open(rf, 'w'))
    r = V.tlc(PP, os.path.join(V.SPEC, 'avoid', 'PolyPath.cfg'), env={'POLYRECS': rf}, timeout=3000, cont=True, mem='24g')
    ev.add_tlc('PolyPath: visibility of every route segment + refutation search over %d records' % len(recs), r)
    # invalid routes are classified by the route-validity specification (RouteValid.tla), which knows the two touching/collinear
    # classes of the known findings F4 and F30
    invalid = sorted({st.get('k') for inv, st in V.violating_states(r) if inv == 'ValidRoute' and st.get('k') is not None})
    rv_tags = {}
    if invalid:
        LSV = 1024
        vrecs = [{'mode': 0, 'thrown': bool(recs[k - 1]['thrown']), 'what': '', 'P': recs[k - 1]['P'], 'buf': 0, 'opts': 0,
                  'polys': [[[p[0] * LSV, p[1] * LSV] for p in sh] for sh in recs[k - 1]['polys']],
                  'src': [recs[k - 1]['src'][0] * LSV, recs[k - 1]['src'][1] * LSV], 'dst': [recs[k - 1]['dst'][0] * LSV, recs[k - 1]['dst'][1] * LSV],
                  'disp': [[int(round(p[0] * LSV)), int(round(p[1] * LSV))] for p in recs[k - 1]['route']]} for k in invalid]
        vf = os.path.join(d, 'invalid_recs.json')
        json.dump({'chunk': 100, 'recs': vrecs}, open(vf, 'w'))
        rvr = V.tlc(os.path.join(V.SPEC, 'avoid', 'RouteValid.tla'), os.path.join(V.SPEC, 'avoid', 'RouteValid.cfg'), env={'VALIDRECS': vf}, timeout=1500, cont=True)
        ev.add_tlc('RouteValid: classification of %d invalid routes' % len(invalid), rvr)
        for inv2, st2 in V.violating_states(rvr):
            for (i, t) in st2.get('bad', []):
                rv_tags.setdefault(invalid[i - 1], set()).add(t)
    seen = set()
    for inv, st in V.violating_states(r):
        k = st.get('k')
        if k is None or (k, inv) in seen:
            continue
        seen.add((k, inv))
        rec = recs[k - 1]
        def through_two_vertices(rec):
            # classification only: some route segment passes exactly through two vertices of one polygon (F4)
            rt = rec['route']
            for a, b in zip(rt, rt[1:]):
                for poly in rec['polys']:
                    n = 0
                    for v in poly:
                        cr = (b[0] - a[0]) * (v[1] - a[1]) - (b[1] - a[1]) * (v[0] - a[0])
                        if cr == 0 and min(a[0], b[0]) <= v[0] <= max(a[0], b[0]) and min(a[1], b[1]) <= v[1] <= max(a[1], b[1]):
                            n += 1
                    if n >= 2:
                        return True
            return False
        if inv == 'ValidRoute':
            tg = rv_tags.get(k, set())
            key = 'poly:invalid-route'
            if not rec['thrown'] and rec['exact'] and (through_two_vertices(rec) or tg == {'through-shape:via-two-of-its-vertices'}):
                key = 'visibility:segment-through-two-collinear-shape-vertices'
            elif tg and all(t.startswith('through-shape:crossing-only-at-shape-vertices') for t in tg):
                key = 'visibility:touching-shapes:segment-crosses-boundary-only-at-shape-vertices'
            vd.violation(key, 'route is not an obstacle-avoiding polyline between the endpoints: polys=%s src=%s dst=%s P=%s route=%s thrown=%s' %
                         (rec['polys'], rec['src'], rec['dst'], rec['P'], rec['route'], rec['thrown']), rec)
        else:
            vd.violation('poly:not-shortest' + (':penalised' if rec['P'] > 0 else ''),
                         'a cheaper route exists (%.4f < %.4f): polys=%s src=%s dst=%s P=%s route=%s' %
                         (st.get('gh', 0) / 2048.0, st.get('claim', 0) / 2048.0, rec['polys'], rec['src'], rec['dst'], rec['P'], rec['route']),
                         {'record': rec, 'cheaper_upper_bound_x2048': st.get('gh'), 'claimed_lower_bound_x2048': st.get('claim')})
    ev.cov['evaluations'] = len(recs)
    ev.cov['distinct_nontrivial'] = sum(1 for x in recs if len(x['route']) > 2)
    ev.cov['traces_validated_against_impl'] = len(recs)
    ev.cov['penalised_records'] = sum(1 for x in recs if x['P'] > 0)
    ev.cov['rule'] = ('records = (scene, connector); scenes = sets of <=2 separated convex obstacles (rectangles, right triangles, diamonds on the even lattice 2..10; '
                      'TLC-enumerated: %d single, %d pairs; %d replayed), endpoints on the odd lattice in free space, P in {0,3,10}; non-trivial = route with a bend' % (ns, npairs, nchosen))
    for x in recs[:2]:
        ev.sample(x)
    ev.assumptions = ['lengths compared as integer-square-root intervals at 2^-11 per segment: a route longer than the optimum by less than ~1e-3 is not detected (the statement says 1e-6)',
                      'with P > 0 the minimum is over taut paths (bends only round obstacle corners), the family the library optimises over',
                      'one connector per router']
    rc = vd.finish()
    ev.write()
    return rc
