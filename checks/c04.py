"""C04: polyline routes are Euclidean shortest paths (zero penalties) / minimise length + P*bends over taut paths."""
import json, os, random
import vcheck as V
from checks import route_common as RC

PID = 'C04'
PP = os.path.join(V.SPEC, 'avoid', 'PolyPath.tla')


def make_records(out):
    recs = []
    LS = out['LS']
    for si, sc in enumerate(out['recs']):
        for ci, c in enumerate(sc['conns']):
            raw = [] if sc['thrown'] else c['raw']
            recs.append({'scene': si, 'thrown': sc['thrown'], 'polys': sc['shapes'], 'src': c['src'], 'dst': c['dst'], 'P': sc['P'],
                         'route': [[p[0] // LS, p[1] // LS] for p in raw],
                         'exact': (not sc['thrown']) and bool(c['rawExact']) and all(p[0] % LS == 0 and p[1] % LS == 0 for p in raw)})
    return recs


def build_scenes(tier, d, rnd, mode=0, pvals=(0, 0, 0, 3, 10)):
    quick = tier == 'quick'
    fam = RC.gen_scenes(d, 10, 2, 2, poly=True)
    pts = fam['points']
    ps = fam['pscenes']
    singles = [s for s in ps if len(s) == 1]
    pairs = [s for s in ps if len(s) == 2]
    chosen = (rnd.sample(singles, 60) + rnd.sample(pairs, 140)) if quick else (singles + rnd.sample(pairs, min(len(pairs), 4000)))
    per = 10 if quick else 30
    scenes = []
    for st in chosen:
        free = [p for p in pts if not any(RC.in_closed_convex(p, poly) for poly in st)]
        for _ in range(per):
            a, b = rnd.sample(free, 2)
            scenes.append({'mode': mode, 'P': rnd.choice(pvals), 'buf': 0, 'opts': 0, 'shapes': st, 'conns': [(a[0], a[1], 15, b[0], b[1], 15)]})
    return scenes, len(singles), len(pairs), len(chosen)


def main(tier):
    ev = V.Evidence(PID, tier)
    vd = V.Verdict(PID, ev)
    hr, = V.build(['h_route'])
    d = V.rundir('c04')
    rnd = random.Random(V.seed())
    scenes, ns, npairs, nchosen = build_scenes(tier, d, rnd)
    out = RC.run_scenes(hr, d, 'poly', scenes)
    recs = make_records(out)
    rf = os.path.join(d, 'poly_recs.json')
    json.dump({'recs': recs}, open(rf, 'w'))
    r = V.tlc(PP, os.path.join(V.SPEC, 'avoid', 'PolyPath.cfg'), env={'POLYRECS': rf}, timeout=3000, cont=True, mem='24g')
    ev.add_tlc('PolyPath: visibility of every route segment + refutation search over %d records' % len(recs), r)
    seen = set()
    for inv, st in V.violating_states(r):
        k = st.get('k')
        if k is None or (k, inv) in seen:
            continue
        seen.add((k, inv))
        rec = recs[k - 1]
        if inv == 'ValidRoute':
            vd.violation('poly:invalid-route', 'route is not an obstacle-avoiding polyline between the endpoints: polys=%s src=%s dst=%s P=%s route=%s thrown=%s' %
                         (rec['polys'], rec['src'], rec['dst'], rec['P'], rec['route'], rec['thrown']), rec)
        else:
            vd.violation('poly:not-shortest' + (':penalised' if rec['P'] > 0 else ''),
                         'a cheaper route exists (%.4f < %.4f): polys=%s src=%s dst=%s P=%s route=%s' %
                         (st.get('gh', 0) / 2048.0, st.get('claim', 0) / 2048.0, rec['polys'], rec['src'], rec['dst'], rec['P'], rec['route']),
                         {'record': rec, 'cheaper_upper_bound_x2048': st.get('gh'), 'claimed_lower_bound_x2048': st.get('claim')})
    ev.cov['evaluations'] = len(recs)
    ev.cov['distinct_nontrivial'] = sum(1 for x in recs if len(x['route']) > 2)
    ev.cov['traces_validated_against_impl'] = len(recs)
    ev.cov['penalised_records'] = sum(1 for x in recs if x['P'] > 0)
    ev.cov['rule'] = ('records = (scene, connector); scenes = sets of <=2 separated convex obstacles (rectangles, right triangles, diamonds on the even lattice 2..10; '
                      'TLC-enumerated: %d single, %d pairs; %d replayed), endpoints on the odd lattice in free space, P in {0,3,10}; non-trivial = route with a bend' % (ns, npairs, nchosen))
    for x in recs[:2]:
        ev.sample(x)
    ev.assumptions = ['lengths compared as integer-square-root intervals at 2^-11 per segment: a route longer than the optimum by less than ~1e-3 is not detected (the statement says 1e-6)',
                      'with P > 0 the minimum is over taut paths (bends only round obstacle corners), the family the library optimises over',
                      'one connector per router']
    rc = vd.finish()
    ev.write()
    return rc
