"""C12: hyperedges stay spanning trees over the same terminals."""
import json, os, random, re
import vcheck as V
from checks import life_common as LC
from checks import c11

PID = 'C12'
HT = os.path.join(LC.SP, 'Hyperedge.tla')


def scenario_ops(sc, rnd):
    if sc.get('reg') == 1:
        # registration by terminal list: shapes and pins only, then the list
        base = scenario_ops(dict(sc, reg=0), rnd)
        ops = [o for o in base if o[0] in (1, 2)]
        t = sc['terms']
        ops.append([16, len(t)] + [v for x in t for v in (x[1], x[2])] + [0] * (2 * (5 - len(t))))
        ops.append([13])
        if sc['follow'] == 1:
            ops += [[6, 1, 2, 0], [13]]
        elif sc['follow'] == 2:
            ops += [[13]]
        elif sc['follow'] == 3:
            ops += [[6, 1, 2, 0], [17, 1, 1], [13]]
        elif sc['follow'] == 4:
            ops += [[18, sc['opts'] & ~4 | 2], [6, 1, 2, 0], [13]]
        return ops
    if sc.get('geo') == 1:
        rects = {1: (37, 15, 43, 25, 4, 2), 2: (47, 35, 53, 45, 0, 1), 3: (7, 5, 13, 15, 4, 2), 4: (7, 45, 13, 55, 0, 1), 5: (57, 15, 63, 25, 4, 2)}
        ops = []
        for s_, (x1, y1, x2, y2, yq, dirs) in rects.items():
            ops.append([1, s_, x1, y1, x2, y2])
            ops.append([2, s_, 1, 2, yq, 1, 0, dirs, 0])
        ops.append([3, 11, sc['jp'][0], sc['jp'][1]])
        for i, t in enumerate(sc['terms']):
            ops.append([4, 21 + i, 2, 11, 0, t[0], t[1], t[2]])
        ops += [[13], [12, 11], [13]]
        if sc['follow'] == 1:
            ops += [[6, 1, 2, 0], [13]]
        elif sc['follow'] == 2:
            ops += [[13]]
        elif sc['follow'] == 3:
            ops += [[6, 1, 2, 0], [17, 1, 1], [13]]
        elif sc['follow'] == 4:
            ops += [[18, sc['opts'] & ~4 | 2], [6, 1, 2, 0], [13]]
        return ops
    ops = [[1, 1, 2, 2, 10, 10], [1, 2, 14, 14, 22, 22], [1, 3, 26, 2, 34, 10]]
    # non-exclusive pins of both classes on both shapes
    for s in (1, 2, 3):
        ops.append([2, s, 1, 4 if s == 1 else 0, 2, 1, 0, 8 if s == 1 else 4, 0])
        ops.append([2, s, 2, 2, 4 if s != 2 else 0, 1, 0, 2 if s != 2 else 1, 0])
    ops.append([3, 11, sc['jp'][0], sc['jp'][1]])
    for i, t in enumerate(sc['terms']):
        if sc.get('pass') == 1 and i == len(sc['terms']) - 1:
            # the last terminal hangs on a second junction with two connectors, placed between the registered junction and the shapes
            ops.append([3, 12, 24, 12])
            ops.append([4, 21 + i, 2, 11, 0, 2, 12, 0])
            ops.append([4, 31, 2, 12, 0, t[0], t[1], t[2]])
        else:
            ops.append([4, 21 + i, 2, 11, 0, t[0], t[1], t[2]])
    ops.append([13])
    ops.append([12, 11])
    ops.append([13])
    if sc['follow'] == 1:
        ops += [[6, 1, 2, 0], [13]]
    elif sc['follow'] == 2:
        ops += [[13]]
    elif sc['follow'] == 3:
        ops += [[6, 1, 2, 0], [17, 1, 1], [13]]
    elif sc['follow'] == 4:
        ops += [[18, sc['opts'] & ~4 | 2], [6, 1, 2, 0], [13]]
    return ops


def main(tier):
    ev = V.Evidence(PID, tier)
    vd = V.Verdict(PID, ev)
    quick = tier == 'quick'
    d = V.rundir('c12')
    hl, = V.build(['h_life'])
    cfg = os.path.join(d, 'gen.cfg')
    open(cfg, 'w').write('SPECIFICATION GenSpec\nCHECK_DEADLOCK FALSE\n')
    gf = os.path.join(d, 'scen.json')
    V.tlc(HT, cfg, env={'HYPERGEN': gf, 'HYPERRECS': '/dev/null'}, workers=1, timeout=600)
    scs = json.load(open(gf))
    rnd = random.Random(V.seed())
    if quick:
        def some(pred, k):
            pool = [x for x in scs if pred(x)]
            return rnd.sample(pool, min(k, len(pool)))
        scs = some(lambda x: x['geo'] == 0 and x['reg'] == 0 and x['pass'] == 0, 600) + some(lambda x: x['pass'] == 1, 250) + some(lambda x: x['geo'] == 1 and x['reg'] == 0, 300) + some(lambda x: x['reg'] == 1, 150)
    hists = [scenario_ops(sc, rnd) for sc in scs]
    scen = os.path.join(d, 'scen.txt')
    cfgs = []
    with open(scen, 'w') as f:
        for sc, h in zip(scs, hists):
            mode = 1          # hyperedge rerouting/improvement is an orthogonal-routing feature (MinimumTerminalSpanningTree is orthogonal only)
            cfgs.append((mode, sc['opts']))
            f.write('%d %d %d %s\n' % (mode, sc['opts'], len(h), ' '.join(str(x) for o in h for x in o)))
    execs, crashes = LC.run_harness(hl, scen, os.path.join(d, 'run.ndjson'), len(hists), timeout=2400)
    recs, meta = [], []
    for ex in execs:
        sc = scs[ex['index']]
        mode, opts = cfgs[ex['index']]
        bad = [json.loads(l) for l in ex['lines'] if '"error"' in l]
        if bad or not ex['end'] or ex['end'].get('e') != 'End':
            what = (bad[0]['error'] if bad else str(ex['end']))[:300]
            m = re.search(r'expression: (.*?)(\n| \||$)', what)
            key = ('assertion:' + re.sub(r'[^A-Za-z0-9_>!=<.()-]+', '', m.group(1))[:60]) if m else 'execution-aborted'
            vd.violation(key, '%s | scenario=%s mode=%d' % (what, json.dumps(sc), mode), {'scenario': sc, 'mode': mode, 'ops': hists[ex['index']]})
            continue
        snaps, _ = c11.snapshots([ex], hists, {ex['index']: (mode, opts)} if False else cfgs)
        # every snapshot after a processTransaction(): the improver runs on junction hyperedges whether or not they are registered for rerouting
        seen_reg = True
        k = 0
        prevJ, prevC = [], []
        for ln in ex['lines']:
            j = json.loads(ln)
            if j.get('e') != 'Op':
                continue
            if j['op'][0] == 12:
                seen_reg = True
            if j.get('processed') and 'shapes' in j:
                snap = snaps[k]; k += 1
                snap['prevJ'] = prevJ; snap['prevC'] = prevC
                prevJ = [q['id'] for q in j['juncs']]; prevC = [q['id'] for q in j['conns']]
                if seen_reg:
                    snap['terms'] = [[t[0], t[1] * (1024 if t[0] == 0 else 1), t[2] * (1024 if t[0] == 0 else 1)] for t in sc['terms']]
                    recs.append(snap)
                    meta.append(ex['index'])
    rf = os.path.join(d, 'hyper_recs.json')
    json.dump({'chunk': 25, 'recs': recs}, open(rf, 'w'))
    r = V.tlc(HT, os.path.join(LC.SP, 'Hyperedge.cfg'), env={'HYPERRECS': rf, 'HYPERGEN': '/dev/null'}, timeout=3000, cont=True, mem='16g')
    ev.add_tlc('Hyperedge: %d snapshots after registration' % len(recs), r)
    nontriv = sum(v[0] for v in V.stat(r.out, 'hyper'))
    for inv, st in V.violating_states(r):
        for (i, t) in st.get('bad', []):
            sc = scs[meta[i - 1]]
            x = recs[i - 1]
            brief = {'juncs': x['juncs'], 'conns': [{'id': c['id'], 'src': c['src'], 'dst': c['dst'], 'disp': c['disp']} for c in x['conns']],
                     'newJ': x['newJ'], 'delJ': x['delJ'], 'newC': x['newC'], 'delC': x['delC'], 'prevJ': x['prevJ'], 'prevC': x['prevC']}
            key = 'hyperedge:' + t
            LSq = 1024
            pinpos = {(tuple(p['p'])) for p in x['pins']}
            jun_on_pin = any(tuple(jn['p']) in pinpos or tuple(jn['rp']) in pinpos for jn in x['juncs'])
            if t in ('route-with-fewer-than-two-points', 'route-does-not-join-its-attachments') and jun_on_pin:
                key = 'hyperedge:junction-placed-on-terminal-pin:degenerate-route'
            elif (sc['opts'] & 4) and t in ('connector-attached-to-deleted-junction', 'not-connected', 'not-a-tree', 'junction-is-a-leaf', 'terminals-changed', 'reported-new-object-not-live', 'route-does-not-join-its-attachments', 'connector-end-unattached', 'terminal-used-twice'):
                key = 'hyperedge:improver-adding-deleting-junctions:tree-broken'
            if key == 'hyperedge:route-does-not-join-its-attachments' and sc['follow'] in (1, 4):      # both follow-ups move a terminal's shape
                key = 'hyperedge:after-terminal-shape-move:route-does-not-reach-pin'
            if key == 'hyperedge:route-does-not-join-its-attachments' and sc['follow'] == 3:
                key = 'hyperedge:after-shape-and-junction-move:route-does-not-reach-pin'
            vd.violation(key, '%s: scenario=%s mode=%d -> %s' % (t, json.dumps(sc), x['mode'], json.dumps(brief)[:700]),
                         {'scenario': sc, 'mode': x['mode'], 'ops': hists[meta[i - 1]], 'snapshot': brief})
    ev.cov['evaluations'] = len(recs)
    ev.cov['executions_cut_where_the_history_would_use_an_object_the_library_reported_deleted'] = sum(1 for ex in execs if ex['end'] and ex['end'].get('truncated'))
    ev.cov['distinct_nontrivial'] = nontriv
    ev.cov['traces_validated_against_impl'] = len(execs)
    ev.cov['rule'] = ('scenarios = TLC-enumerated: every set of 3..4 terminals from a catalogue (pin classes of two shapes, free points) x 3 junction positions x improvement options x follow-up '
                      '(none, shape move, empty transaction); snapshots after registerHyperedgeForRerouting (junction or terminal list) + processTransaction; non-trivial = improvement moved/added/deleted something')
    if recs:
        ev.sample({'scenario': scs[meta[0]], 'conns': [{'src': c['src'], 'dst': c['dst']} for c in recs[0]['conns']]})
    ev.assumptions = ['one hyperedge per scene; registration by root junction (reg=0) or by terminal list (reg=1)', 'each terminal used by one connector']
    rc = vd.finish()
    ev.write()
    return rc
