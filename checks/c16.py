"""C16: libavoid/libvpsc geometry predicates agree with exact arithmetic.

B2 (records as independent chunks): h_geom evaluates the real predicates over
the canonical grid enumerations and random large-coordinate tuples; TLC
re-derives every table entry with Geom.tla / Limb.tla (exact integers).
Design level: symmetry lemmas of the exact definitions over the whole grid,
exactness lemma of the limb comparison."""
import json, os, re
import vcheck as V

PID = 'C16'
GT = os.path.join(V.SPEC, 'avoid', 'GeomTable.tla')
GB = os.path.join(V.SPEC, 'avoid', 'GeomBig.tla')


def stats(out):
    seen = {(m.group(1), int(m.group(2))): int(m.group(3)) for m in re.finditer(r'<<"STAT", "(\w+)", (\d+), (\d+)>>', out)}
    tot = {}
    for (k, _), v in seen.items():
        tot[k] = tot.get(k, 0) + v
    return tot


def decode(kind, k, j, G, PG):
    N, PN = G * G, PG * PG
    pt = lambda i, g: [i // g, i % g]
    if kind == 't3':
        return {'a': pt(k, G), 'b': pt(j // N, G), 'c': pt(j % N, G)}
    if kind == 't4':
        return {'a': pt(k, G), 'b': pt(j // (N * N), G), 'c': pt((j // N) % N, G), 'd': pt(j % N, G)}
    if kind == 'tri':
        return {'poly': [pt(k, PG), pt(j // (PN * PN), PG), pt((j // PN) % PN, PG)], 'q': pt(j % PN, PG)}
    return {'poly': [pt(k, PG), pt(j // PN ** 3, PG), pt((j // PN ** 2) % PN, PG), pt((j // PN) % PN, PG)], 'q': pt(j % PN, PG)}


def main(tier):
    ev = V.Evidence(PID, tier)
    vd = V.Verdict(PID, ev)
    G, PG, nbig = (5, 4, 20000) if tier == 'quick' else (6, 5, 400000)
    hg, = V.build(['h_geom'])
    d = V.rundir('c16')
    V.run([hg, 'grid', str(G), d], timeout=600, check=True)
    V.run([hg, 'poly', str(PG), d], timeout=900, check=True)
    json.dump({'G': G, 'PG': PG, 'kinds': ['t3', 't4', 'tri', 'quad']}, open(os.path.join(d, 'meta.json'), 'w'))
    env = {'GEOMDIR': d}
    # design level: lemmas
    r = V.tlc(GT, os.path.join(V.SPEC, 'avoid', 'GeomLemma.cfg'), env=env, timeout=1200)
    ev.add_tlc('Geom symmetry lemmas over the %dx%d grid' % (G, G), r)
    if r.violated:
        raise V.Broken('specification lemma fails (Geom symmetry): the oracle itself is inconsistent')
    r = V.tlc(GB, os.path.join(V.SPEC, 'avoid', 'GeomBigLemma.cfg'), env={'BIGRECS': '/dev/null'}, timeout=600)
    ev.add_tlc('Limb comparison exactness lemma', r)
    if r.violated:
        raise V.Broken('specification lemma fails (Limb)')
    # conformance: tables
    r = V.tlc(GT, os.path.join(V.SPEC, 'avoid', 'GeomTable.cfg'), env=env, timeout=3000, cont=True, mem='16g')
    ev.add_tlc('GeomTable: every table entry re-derived exactly', r)
    N, PN = G * G, PG * PG
    entries = N ** 3 + N ** 4 + PN ** 4 + PN ** 5
    st = stats(r.out)
    for inv, vals in V.violating_states(r):
        kind, k = vals.get('kind'), vals.get('k')
        for j in (vals.get('bad') or [])[:3]:
            case = decode(kind, k, j, G, PG)
            vd.violation('table:%s' % kind, 'implementation disagrees with exact arithmetic on %s' % json.dumps(case),
                         {'kind': kind, 'chunk': k, 'entry': j, 'case': case, 'grid': G, 'polygrid': PG})
    # conformance: large coordinates
    nb = 0
    for part in range(max(1, nbig // 100000)):
        bf = os.path.join(d, 'big%d.json' % part)
        n = min(nbig, 100000)
        V.run([hg, 'big', str(n), str(V.seed() * 1000 + part), bf], timeout=600, check=True)
        rb = V.tlc(GB, os.path.join(V.SPEC, 'avoid', 'GeomBig.cfg'), env={'BIGRECS': bf}, timeout=1500, cont=True)
        ev.add_tlc('GeomBig part %d: %d random tuples up to 2^20' % (part, n), rb)
        nb += n
        st['big'] = st.get('big', 0) + stats(rb.out).get('big', 0)
        recs = json.load(open(bf))['recs']
        if part == 0:
            ev.sample({'kind': 'big', 'p': recs[0]['p'], 'impl_bits': recs[0]['v']})
        for inv, vals in V.violating_states(rb):
            for i in (vals.get('bad') or [])[:3]:
                vd.violation('big', 'implementation disagrees with exact arithmetic on %s' % json.dumps(recs[i - 1]),
                             {'kind': 'big', 'record': recs[i - 1]})
        os.remove(bf)
    t4 = json.load(open(os.path.join(d, 't4_7.json')))
    ev.sample({'kind': 't4', 'case': decode('t4', 7, 1234, G, PG), 'impl_bits': t4['bits'][1234]})
    ev.sample({'kind': 't4', 'case': decode('t4', 7, 40, G, PG), 'impl_bits': t4['bits'][40]})
    ev.cov['evaluations'] = entries + nb
    ev.cov['distinct_nontrivial'] = sum(st.values())
    ev.cov['nontrivial_by_family'] = st
    ev.cov['traces_validated_against_impl'] = entries + nb
    ev.cov['rule'] = ('every ordered 3-/4-tuple of points of the %dx%d grid (11 predicates packed per tuple, intersection points at 2^-20), '
                      'every triangle/quadrilateral on the %dx%d grid x every query point, plus %d random tuples with coordinates up to 2^20; '
                      'non-trivial = degenerate (some orientation among the tuple is zero / query point on the polygon boundary), counted by TLC'
                      % (G, G, PG, PG, nb))
    ev.cov['exhaustive'] = True
    ev.assumptions = ['polygons are wound positively (as Avoid::Rectangle), the only winding the library supports',
                      'pointOnLine/inBetween are specified as the open segment (behaviour all callers rely on; documentation says closed)',
                      'TLC integer arithmetic (overflow is a TLC error, never wraps)']
    rc = vd.finish()
    ev.write()
    return rc
