"""Shared driver of the VPSC checks (C01, C02): one pipeline, two verdict filters.

Design level : TLC on VpscMC (algorithm-shaped IncSolver spec vs declarative QP oracle).
B1           : TLC-enumerated instance set (same bounds) + seeded histories replayed into
               vpsc::IncSolver / vpsc::Solver / Avoid::IncSolver.
B2 (steps)   : hook H1 traces validated line by line against Vpsc (VpscTrace).
B2 (records) : results judged by the declarative VpscQP (VpscRecs).
"""
import json, os, re, subprocess, concurrent.futures as cf
import vcheck as V

SP = os.path.join(V.SPEC, 'vpsc')

# which failure belongs to which property
C01_TAGS = {'nonfinite', 'unflagged-constraint-violated', 'flag-iff-infeasible', 'equality-positive-slack',
            'throws-on-feasible:cyclic', 'throws-on-feasible:dag', 'throws-on-feasible:dag-eq', 'exception'}
C02_TAGS = {'not-optimal'}
C01_INVS = {'HoldsOrFlagged', 'FlagIffInfeasible', 'TypeOK', 'Forest', 'Tight'}
C02_INVS = {'KKT', 'Optimal', 'KKTImpliesOptimal'}


def finding_key(tag, run, rec, tags_by_run=None, j=None):
    """Fingerprint of a record-level failure (input class + call site), see known-findings.txt."""
    sv = run['solver']
    if sv in ('static-perm', 'static-rev'):      # the static solver on a relabelled / reversed copy: same call site
        sv = 'static'
    if sv == 'static' and tag == 'throws-on-feasible:cyclic':
        return 'static-solver:cyclic-graph:throws-on-feasible'
    if sv == 'static' and tag == 'equality-positive-slack':
        return 'static-solver:equality:positive-slack-at-return'
    if sv == 'static' and tag == 'not-optimal' and tags_by_run is not None and 'equality-positive-slack' in tags_by_run.get(j, set()):
        return 'static-solver:equality:positive-slack-at-return'
    if sv == 'inc-live' and tag == 'not-optimal' and tags_by_run is not None:
        again = tags_by_run.get(j + 1, set())
        if j < len(rec['runs']) and rec['runs'][j]['solver'] == 'inc-live-again' and 'not-optimal' not in again:
            return 'incsolver:resolve:cost-unchanged-exit-with-negative-multiplier'
    if sv in ('inc', 'inc-perm', 'inc-rev') and run['call'] == 'solve' and tag == 'not-optimal' and tags_by_run is not None:
        again = tags_by_run.get(j + 1, set())
        if j < len(rec['runs']) and rec['runs'][j]['solver'] == sv + '-again' and 'not-optimal' not in again:
            return 'incsolver:solve:cost-unchanged-exit-with-negative-multiplier'
    if sv.endswith('-again') and sv != 'inc-live-again':
        sv = sv[:-6] + ':called-twice'
    return 'vpsc:%s:%s:%s' % (sv, run['call'], tag)


def mc_cfg(d, name, N, DESMAX, MAXC, RESOLVES, EQS, ADDS, spec='Spec', invs=True):
    p = os.path.join(d, name + '.cfg')
    with open(p, 'w') as f:
        f.write('SPECIFICATION %s\nCONSTANTS\n N = %d\n DESMAX = %d\n MAXC = %d\n RESOLVES = %d\n EQS = %s\n ADDS = %s\n' %
                (spec, N, DESMAX, MAXC, RESOLVES, 'TRUE' if EQS else 'FALSE', 'TRUE' if ADDS else 'FALSE'))
        if invs:
            f.write('INVARIANTS TypeOK Forest Tight HoldsOrFlagged FlagIffInfeasible KKT Optimal KKTImpliesOptimal\n')
            f.write('CONSTRAINT Bound\n')
        f.write('CHECK_DEADLOCK FALSE\n')
    return p


def flatten(insts, path, ops=None):
    with open(path, 'w') as f:
        for I in insts:
            n = len(I['des'])
            row = [n, len(I['cons'])] + I['des'] + I['w'] + I.get('sc', [1] * n)
            for c in I['cons']:
                row += [c['l'], c['r'], c['g'], 1 if c['eq'] else 0]
            row += [0]
            f.write(' '.join(map(str, row)) + '\n')


def split_trace(path, parts):
    """Split an ndjson trace into <parts> files at Reset boundaries."""
    lines = open(path).read().splitlines()
    if lines and '"End"' in lines[-1]:
        lines = lines[:-1]
    starts = [i for i, l in enumerate(lines) if l.startswith('{"e":"Reset"')]
    if not starts:
        return []
    per = max(1, (len(starts) + parts - 1) // parts)
    out = []
    for p in range(0, len(starts), per):
        a = starts[p]
        b = starts[p + per] if p + per < len(starts) else len(lines)
        fn = '%s.part%d' % (path, len(out))
        with open(fn, 'w') as f:
            f.write('\n'.join(lines[a:b]) + '\n{"e":"End"}\n')
        out.append((fn, len(starts[p:p + per])))
    return out


def validate_traces(trace_file, parts=12, timeout=1500):
    """Returns (list of TlcResult, executions, rejected parts info)."""
    pieces = split_trace(trace_file, parts)
    res = []

    def one(pc):
        fn, nexec = pc
        r = V.tlc(os.path.join(SP, 'VpscTrace.tla'), os.path.join(SP, 'VpscTrace.cfg'), env={'VPSCTRACE': fn},
                  workers=1, timeout=timeout, cont=True, mem='3g')
        return fn, nexec, r
    with cf.ThreadPoolExecutor(max_workers=min(parts, V.NCPU)) as ex:
        res = list(ex.map(one, pieces))
    return res


def rejected_prefix(fn, r):
    """For a rejected trace part: number of lines matched and the next line."""
    m = re.findall(r'The depth of the complete state graph search is (\d+)', r.out)
    depth = int(m[-1]) if m else 0
    lines = open(fn).read().splitlines()
    nxt = lines[depth - 1] if 0 < depth <= len(lines) else None
    # find the Reset line of the execution the rejection falls into
    start = max([i for i in range(min(depth, len(lines))) if lines[i].startswith('{"e":"Reset"')] or [0])
    return depth, nxt, lines[start:min(len(lines), depth + 2)]


class Collector:
    """Collects violations of both VPSC properties in one pipeline run."""

    def __init__(self):
        self.items = []

    def add(self, props, key, what, replay):
        for p in props:
            self.items.append({'prop': p, 'key': key, 'what': what, 'replay': replay})


def props_of_inv(inv):
    return ['C01'] if inv in C01_INVS else ['C02'] if inv in C02_INVS else ['C01', 'C02']


def props_of_tag(t):
    return ['C01'] if t in C01_TAGS else ['C02'] if t in C02_TAGS else []


def tree_hash(tier):
    import hashlib
    h = hashlib.sha256()
    roots = [os.path.join(V.REPO, 'cola', 'libvpsc'), os.path.join(V.REPO, 'cola', 'libavoid'),
             os.path.join(V.VERIF, 'harness'), os.path.join(V.VERIF, 'spec', 'vpsc'), os.path.join(V.VERIF, 'spec', 'common'),
             os.path.join(V.VERIF, 'checks'), os.path.join(V.VERIF, 'lib')]
    for root in roots:
        for dp, dn, fn in sorted(os.walk(root)):
            dn.sort()
            for f in sorted(fn):
                if f.endswith(('.cpp', '.h', '.tla', '.cfg', '.py', 'Makefile')):
                    h.update(f.encode())
                    h.update(open(os.path.join(dp, f), 'rb').read())
    h.update(('%s %d' % (tier, V.seed())).encode())
    return h.hexdigest()[:24]


def run_shared(pid, tier):
    """C01 and C02 are decided by one pipeline; its result is cached under a hash of every input
    (library sources, harness, specifications, tier, seed) so that the second check of a pair re-uses it."""
    import time
    cdir = os.path.join(V.BUILD, 'cache')
    os.makedirs(cdir, exist_ok=True)
    cf_ = os.path.join(cdir, 'vpsc_%s.json' % tree_hash(tier))
    if os.path.exists(cf_) and time.time() - os.path.getmtime(cf_) < 6 * 3600 and not os.environ.get('VERIF_NOCACHE'):
        res = json.load(open(cf_))
        res['from_cache'] = True
    else:
        ev = V.Evidence('VPSC', tier)
        col = Collector()
        run_pipeline(tier, ev, col)
        res = {'cov': ev.cov, 'items': col.items, 'wall_s': time.time() - ev.t0, 'from_cache': False}
        for old in os.listdir(cdir):
            if old.startswith('vpsc_'):
                os.remove(os.path.join(cdir, old))
        json.dump(res, open(cf_, 'w'), default=str)
    ev = V.Evidence(pid, tier)
    ev.cov = res['cov']
    ev.cov['pipeline_wall_s'] = round(res['wall_s'], 1)
    ev.cov['pipeline_shared_with'] = 'C01/C02 (one run, cached by input hash)'
    ev.cov['pipeline_result_reused'] = res['from_cache']
    vd = V.Verdict(pid, ev)
    for it in res['items']:
        if it['prop'] == pid:
            vd.violation(it['key'], it['what'], it['replay'])
    return ev, vd


def run_pipeline(tier, ev, col):
    hv, ha = V.build(['h_vpsc', 'h_avpsc'])
    pid = 'vpsc'
    d = V.rundir(pid.lower())
    quick = tier == 'quick'
    seed = V.seed()
    # ---------------------------------------------------------------- design level
    if quick:
        runs = [('mc-n3-c2-eq', dict(N=3, DESMAX=1, MAXC=2, RESOLVES=0, EQS=True, ADDS=False), 900)]
    else:
        runs = [('mc-n3-c2-eq', dict(N=3, DESMAX=2, MAXC=2, RESOLVES=0, EQS=True, ADDS=False), 1800),
                ('mc-n3-c3-resolve', dict(N=3, DESMAX=1, MAXC=3, RESOLVES=1, EQS=False, ADDS=False), 3000)]
    for name, k, to in runs:
        cfg = mc_cfg(d, name, **k)
        r = V.tlc(os.path.join(SP, 'VpscMC.tla'), cfg, timeout=to, mem='24g')
        ev.add_tlc('design: VpscMC %s %s' % (name, json.dumps(k)), r)
        if r.violated:
            # the algorithm-shaped specification itself breaks a property on a small instance: report with the counterexample
            for inv in set(r.violated):
                col.add(props_of_inv(inv), 'design:%s' % inv, 'specification of IncSolver violates %s (counterexample in replay)' % inv,
                        {'tlc_tail': r.out[-6000:]})
    # simulation at n=4 with re-solves (where F8 lives) -- design level, random behaviours
    cfg = mc_cfg(d, 'sim-n4', N=4, DESMAX=4, MAXC=5, RESOLVES=1, EQS=False, ADDS=False, spec='SimSpec')
    rs = V.tlc(os.path.join(SP, 'VpscMC.tla'), cfg, timeout=900, simulate='num=%d' % (40 if quick else 1500),
               extra=['-depth', '80'], seedv=seed, cont=True, workers=8)
    ev.add_tlc('design: VpscMC simulate n=4 re-solve', rs)
    f8_design = 0
    for inv, st in V.violating_states(rs):
        if inv in ('KKT', 'Optimal') and st.get('rounds', 0) >= 2 and st.get('passSplit') is True:
            f8_design += 1
            col.add(['C02'], 'incsolver:resolve:cost-unchanged-exit-with-negative-multiplier',
                    'design-level behaviour: des=%s w=%s C=%s' % (st.get('des'), st.get('w'), st.get('C')), st)
        else:
            col.add(props_of_inv(inv), 'design-sim:%s' % inv, 'simulated behaviour of the specification violates %s: %s' % (inv, st), st)
    ev.cov['design_sim_f8_hits'] = f8_design
    # ---------------------------------------------------------------- B1 instance set from TLC
    gk = dict(N=3, DESMAX=1, MAXC=2, RESOLVES=0, EQS=True, ADDS=False) if quick else dict(N=3, DESMAX=2, MAXC=2, RESOLVES=0, EQS=True, ADDS=False)
    gcfg = mc_cfg(d, 'gen', spec='GenSpec', invs=False, **gk)
    gfile = os.path.join(d, 'gen.json')
    V.tlc(os.path.join(SP, 'VpscMC.tla'), gcfg, env={'VPSCGEN': gfile}, workers=1, timeout=900)
    insts = json.load(open(gfile))
    if quick:
        # quick: a seeded third of the enumerated set goes through the step-level traces, all of it through the records
        trace_insts = [I for i, I in enumerate(insts) if (i + seed) % 6 == 0]
    else:
        trace_insts = insts
    tl = os.path.join(d, 'enum_trace.txt')
    flatten(trace_insts, tl)
    full = os.path.join(d, 'enum_all.txt')
    flatten(trace_insts if quick else insts, full)
    ev.sample({'kind': 'TLC-enumerated instance', 'instance': insts[len(insts) // 3]})
    # ---------------------------------------------------------------- seeded histories and medium instances
    nh, nm, nsc = (4500, 1500, 1000) if quick else (30000, 20000, 10000)
    fh, fm, fs = [os.path.join(d, x) for x in ('hist.txt', 'med.txt', 'scaled.txt')]
    V.run([hv, 'gen', str(nh), str(seed), fh, 'hist'], check=True)
    V.run([hv, 'gen', str(nm), str(seed + 1), fm, 'med'], check=True)
    V.run([hv, 'gen', str(nsc), str(seed + 2), fs, 'scaled'], check=True)
    fhf = os.path.join(d, 'histfar.txt')      # re-solve histories next to an unrelated pair held far apart (large constant in the cost)
    V.run([hv, 'gen', str(nh // 2), str(seed + 3), fhf, 'histfar'], check=True)
    # ---------------------------------------------------------------- B2 step level (hook H1)
    tfiles = []
    for src, tag, sat in ((tl, 'enum', 0), (tl, 'enum-satisfy', 1), (fh, 'hist', 0), (fhf, 'histfar', 0)):
        tf = os.path.join(d, 'trace_%s.ndjson' % tag)
        rc, out = V.run([hv, 'trace', src, tf, str(sat)], timeout=900)
        if rc != 0:
            V.harness_exit('h_vpsc:trace', rc, out)
        tfiles.append((tag, tf))
    accepted = 0
    for tag, tf in tfiles:
        for fn, nexec, r in validate_traces(tf):
            ev.add_tlc('trace validation %s (%s, %d executions)' % (tag, os.path.basename(fn), nexec), r)
            for inv, st in V.violating_states(r):
                if inv in ('KKT', 'Optimal') and st.get('rounds', 0) >= 2 and st.get('passSplit') is True and st.get('pc') == 'returned':
                    col.add(['C02'], 'incsolver:resolve:cost-unchanged-exit-with-negative-multiplier',
                            'real execution: des=%s w=%s C=%s' % (st.get('des'), st.get('w'), st.get('C')), st)
                else:
                    col.add(props_of_inv(inv), 'trace-invariant:%s' % inv, 'recorded execution violates %s: des=%s w=%s C=%s' %
                            (inv, st.get('des'), st.get('w'), st.get('C')), st)
            if r.post_failed or not r.finished:
                depth, nxt, ctx = rejected_prefix(fn, r)
                # a rejected trace: the code took a step the specification does not allow.  Both properties
                # rest on the specification being a faithful model, so both report it.
                col.add(['C01', 'C02'], 'trace-rejected', 'execution not a behaviour of Vpsc.tla: matched %d lines, next line %s' % (depth, nxt),
                        {'file': fn, 'matched': depth, 'next': nxt, 'execution': ctx[-40:]})
            else:
                accepted += nexec
            os.remove(fn)
    ev.cov['traces_validated_against_impl'] = accepted
    lines = open(tfiles[2][1]).read().splitlines()
    ev.sample({'kind': 'recorded execution (first lines)', 'trace': [json.loads(x) for x in lines[:12]]})
    # ---------------------------------------------------------------- B2 record level
    nrec = nruns = nontriv = undecided = 0
    jobs = []
    for src, harness, tag in ((full, hv, 'enum'), (fh, hv, 'hist'), (fhf, hv, 'histfar'), (fm, hv, 'med'), (fs, hv, 'scaled'),
                              (full, ha, 'enum-avoid'), (fh, ha, 'hist-avoid'), (fm, ha, 'med-avoid'), (fs, ha, 'scaled-avoid')):
        rf = os.path.join(d, 'recs_%s.json' % tag)
        rc, out = V.run([harness, 'recs', src, rf], timeout=1200, env={'VERIF_SEED': seed})
        if rc != 0:
            V.harness_exit(os.path.basename(harness) + ':recs', rc, out)
        jobs.append((tag, rf))
    for tag, rf in jobs:
        r = V.tlc(os.path.join(SP, 'VpscRecs.tla'), os.path.join(SP, 'VpscRecs.cfg'), env={'VPSCRECS': rf}, timeout=3000, cont=True, mem='16g')
        ev.add_tlc('records %s' % tag, r)
        for v in V.stat(r.out, 'recs'):
            nontriv += v[0]
            nruns += v[1]
        recs = None
        for inv, st in V.violating_states(r):
            if recs is None:
                recs = json.load(open(rf))['recs']
            byrun = {}
            for (i, j, t) in st.get('bad', []):
                byrun.setdefault((i, j), set()).add(t)
            for (i, j, t) in st.get('bad', []):
                if t == 'undecided':
                    undecided += 1
                    continue
                if not props_of_tag(t):
                    continue
                rec = recs[i - 1]
                run = rec['runs'][j - 1]
                key = finding_key(t, run, rec, {jj: ts for (ii, jj), ts in byrun.items() if ii == i}, j)
                prob = {k: rec[k] for k in ('n', 'des', 'w', 'sc', 'cons')}
                col.add(props_of_tag(t), key, '%s/%s %s on %s -> pos/S=%s unsat=%s thrown=%s' %
                        (run['solver'] + ('-avoid' if 'avoid' in tag else ''), run['call'], t, json.dumps(prob),
                         [round(x / (rec['S1'] * rec['S2']), 6) for x in run['pos']], run['unsat'], run['thrown']),
                        {'problem': prob, 'run': run, 'tag': t, 'set': tag, 'step': rec.get('step')})
        nrec += len(json.load(open(rf))['recs']) if tag in ('enum', 'hist') else 0
        if tag == 'med':
            rr = json.load(open(rf))['recs']
            ev.sample({'kind': 'medium instance record', 'record': rr[0]})
        os.remove(rf)
    ev.cov['evaluations'] = nruns
    ev.cov['distinct_nontrivial'] = nontriv
    ev.cov['undecided_runs'] = undecided
    ev.cov['rule'] = ('runs = (instance, solver variant) pairs judged by VpscRecs; instances = TLC-enumerated set %s + seeded histories/medium/scaled '
                      'instances; non-trivial = records where some run has an active or flagged constraint or throws, counted by TLC' % json.dumps(gk))
    ev.cov['exhaustive'] = False
