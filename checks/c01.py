"""C01: VPSC -- every constraint is satisfied on return or is reported unsatisfiable."""
import random
import vcheck as V
from checks import vpsc_common as VC
from checks import redeq


def main(tier):
    ev, vd = VC.run_shared('C01', tier)
    # beyond the statement: the pre-processing that VPSC's users run on equality-heavy systems (RedundantEq.tla)
    redeq.stage(ev, vd, V.rundir('redeq'), tier == 'quick', random.Random(V.seed()))
    ev.assumptions = ['positions observed on a 2^-20..2^-24 lattice: deviations below ~4e-6 are not detected',
                      'step-level validation covers instances with total weight <= 7 (integer lattice L = lcm(1..7)); larger instances are judged by the KKT certificate of VpscQP',
                      'harness appends added constraints to the vector the solver was built with (the documented usage in makeFeasible)',
                      'C01 and C02 share one pipeline run (same specifications, same traces); each reports its own invariants/tags']
    rc = vd.finish()
    ev.write()
    return rc
