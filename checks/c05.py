"""C05: orthogonal routes are axis-parallel and of minimum length + bend cost; the bend estimate is admissible."""
import json, os, random, re
import vcheck as V
from checks import route_common as RC

PID = 'C05'
OP = os.path.join(V.SPEC, 'avoid', 'OrthoPath.tla')


def make_records(out):
    recs = []
    LS = out['LS']
    for si, sc in enumerate(out['recs']):
        rects = [RC.poly_rect(sh) for sh in sc['shapes']]
        for ci, c in enumerate(sc['conns']):
            if sc['thrown']:
                recs.append({'scene': si, 'conn': ci, 'thrown': True, 'rects': rects, 'src': c['src'], 'dst': c['dst'], 'sd': c['sd'], 'dd': c['dd'],
                             'P': sc['P'], 'route': [], 'exact': False, 'box': RC.bbox(sc['shapes'], [c['src'], c['dst']])})
                continue
            route = [[p[0] // LS, p[1] // LS] for p in c['raw']]
            recs.append({'scene': si, 'conn': ci, 'thrown': False, 'rects': rects, 'src': c['src'], 'dst': c['dst'], 'sd': c['sd'], 'dd': c['dd'], 'P': sc['P'],
                         'route': route, 'exact': bool(c['rawExact']) and all(p[0] % LS == 0 and p[1] % LS == 0 for p in c['raw']),
                         'box': RC.bbox(sc['shapes'], [c['src'], c['dst']] + route)})
    return recs


# segment penalties; a negative entry stands for |P| thousandths ("all positive segment penalties": also tiny ones, where a bend
# costs less than any difference in length and less than libavoid's cost-comparison tolerances)
PENS = [1, 3, 10, 50, 1, 10, -1, -8, -50, -500]


def main(tier):
    ev = V.Evidence(PID, tier)
    vd = V.Verdict(PID, ev)
    quick = tier == 'quick'
    hr, = V.build(['h_route'])
    d = V.rundir('c05')
    rnd = random.Random(V.seed())
    # ---- bend estimator, exhaustive
    bt = os.path.join(d, 'bends.json')
    V.run([hr, 'bends', bt], check=True)
    r = V.tlc(os.path.join(V.SPEC, 'avoid', 'Bends.tla'), os.path.join(V.SPEC, 'avoid', 'Bends.cfg'), env={'BENDTAB': bt}, timeout=900, cont=True)
    ev.add_tlc('Bends: 128 estimator entries against the free-plane bend model', r)
    tab = json.load(open(bt))['entries']
    for inv, st in V.violating_states(r):
        e = tab[st['k'] - 1]
        vd.violation('bends:%d,%d,%d,%d' % (e['dx'], e['dy'], e['cd'], e['dd']),
                     'estimate %d exceeds a real path with %d bends for entry %s' % (e['v'], st.get('b', -1), e), {'entry': e, 'state': st})
    ev.cov['bend_entries'] = len(tab)
    # ---- scenes: TLC-enumerated families
    fam = RC.gen_scenes(d, 10, 2, 2)
    pts = fam['points']
    scenes = []
    all_sets = fam['scenes']
    singles = [s for s in all_sets if len(s) == 1]
    pairs = [s for s in all_sets if len(s) == 2]
    if quick:
        chosen = rnd.sample(singles, min(len(singles), 200)) + rnd.sample(pairs, 250)
        per = 16
    else:
        chosen = singles + rnd.sample(pairs, min(len(pairs), 2500))
        per = 40
    masks = [15] * 6 + [1, 2, 4, 8, 3, 12]
    for st in chosen:
        free = [p for p in pts if not any(RC.inside_closed(p, r) for r in st)]
        # one connector per router: other connectors' endpoints are vertices a route may not pass through,
        # which is outside the statement ("obstacle-avoiding paths" in scenes of rectangles)
        for _ in range(per if len(st) > 1 or not quick else 40):       # (quick: more connectors in the single-rectangle scenes, which are few)
            a, b = rnd.sample(free, 2)
            scenes.append({'mode': 1, 'P': rnd.choice(PENS), 'buf': 0, 'opts': 0, 'shapes': [RC.rect_poly(r) for r in st],
                           'conns': [(a[0], a[1], rnd.choice(masks), b[0], b[1], rnd.choice(masks))]})
    # seeded scenes of 2..6 separated rectangles on a larger lattice (even corners 2..30, odd endpoints): offset arrangements in which
    # the cheapest route threads between rectangles while routes of equal bend count go round the outside -- where the order in which
    # the search relaxes and re-relaxes an edge matters
    for _ in range(2500 if quick else 10000):
        boxes = []
        for _ in range(rnd.randint(2, 6)):
            for _try in range(20):
                w, h = 2 * rnd.randint(1, 5), 2 * rnd.randint(1, 6)
                x, y = 2 * rnd.randint(1, 13), 2 * rnd.randint(1, 13)
                b = (x, y, x + w, y + h)
                if all(b[2] + 2 <= o[0] or o[2] + 2 <= b[0] or b[3] + 2 <= o[1] or o[3] + 2 <= b[1] for o in boxes):
                    boxes.append(b)
                    break
        free = [(x, y) for x in range(1, 34, 2) for y in range(1, 34, 2) if not any(RC.inside_closed((x, y), o) for o in boxes)]
        a, b = rnd.sample(free, 2)
        scenes.append({'mode': 1, 'P': rnd.choice([1, 10, 50, 50, 200, -8]), 'buf': 0, 'opts': 0, 'shapes': [RC.rect_poly(o) for o in boxes],
                       'conns': [(a[0], a[1], 15, b[0], b[1], 15)]})
    out = RC.run_scenes(hr, d, 'orth', scenes)
    recs = make_records(out)
    rf = os.path.join(d, 'orth_recs.json')
    json.dump({'recs': recs}, open(rf, 'w'))
    r = V.tlc(OP, os.path.join(V.SPEC, 'avoid', 'OrthoPath.cfg'), env={'ORTHRECS': rf}, timeout=3000 if quick else 6000, cont=True, mem='24g')
    ev.add_tlc('OrthoPath: route validity + refutation search over %d (scene, connector) records' % len(recs), r)
    seen = set()
    for inv, st in V.violating_states(r):
        k = st.get('k')
        if k is None or (k, inv) in seen:
            continue
        seen.add((k, inv))
        rec = recs[k - 1]
        if inv == 'ValidRoute':
            vd.violation('ortho:invalid-route', 'route is not a valid orthogonal obstacle-avoiding route: rects=%s src=%s dst=%s dirs=%s/%s route=%s thrown=%s' %
                         (rec['rects'], rec['src'], rec['dst'], rec['sd'], rec['dd'], rec['route'], rec['thrown']), rec)
        else:
            restricted = rec['sd'] != 15 or rec['dd'] != 15
            key = 'ortho:not-optimal:direction-restricted-endpoint' if restricted else 'ortho:not-optimal'
            vd.violation(key, 'a cheaper route exists (cost %s < claimed %s): rects=%s src=%s dst=%s dirs=%s/%s P=%s route=%s' %
                         (st.get('g'), st.get('claim'), rec['rects'], rec['src'], rec['dst'], rec['sd'], rec['dd'], rec['P'], rec['route']),
                         {'record': rec, 'cheaper_cost': st.get('g'), 'claimed': st.get('claim')})
    nontriv = sum(1 for x in recs if len(x['route']) > 2)
    ev.cov['evaluations'] = len(recs)
    ev.cov['distinct_nontrivial'] = nontriv
    ev.cov['traces_validated_against_impl'] = len(recs)
    ev.cov['rule'] = ('records = (scene, connector): scenes = every set of <=2 rectangles with corners on the even lattice 2..10 separated by >=2 (TLC-enumerated: %d single, %d pairs; '
                      '%d scenes replayed) + seeded scenes of 2..6 separated rectangles on the even lattice 2..38 (unrestricted ends), endpoints on the odd lattice in free space, direction masks {all, single, opposite pairs}, P in {1,3,10,50} and {0.001,0.008,0.05,0.5}; '
                      'non-trivial = route with at least one bend' % (len(singles), len(pairs), len(chosen)))
    for x in recs[:2]:
        ev.sample(x)
    ev.assumptions = ['integer scenes, shapeBufferDistance 0 (routes may run along rectangle sides, as the library does)',
                      'the unit grid contains an optimal orthogonal route (Hanan grid argument)',
                      'cost = Manhattan length + P * bends of the raw route (conn->route()), all other penalties zero']
    rc = vd.finish()
    ev.write()
    return rc
