"""Case generation and harness driving for the libcola layout checks (C07, C08, C20-layout)."""
import json, os, random
import vcheck as V

SPEC = os.path.join(V.SPEC, 'cola', 'Compound.tla')
CFG = os.path.join(V.SPEC, 'cola', 'Compound.cfg')


def gen_case(rnd, want_overlap=False, clusters=False, nmax=12):
    n = rnd.randint(2, nmax)
    nodes = []
    coincide = rnd.random() < 0.2
    for i in range(n):
        w, h = 2 * rnd.randint(2, 10), 2 * rnd.randint(2, 10)
        if coincide:
            x, y = 50, 50
        elif want_overlap:
            x, y = rnd.randint(40, 70), rnd.randint(40, 70)
        else:
            x, y = rnd.randint(0, 200), rnd.randint(0, 200)
        nodes.append((w, h, x, y))
    kind = rnd.randint(0, 3)
    edges = set()
    if kind != 0:       # kind 0: edgeless
        for i in range(1, n):
            if kind == 1 or rnd.random() < 0.8:     # kind 2/3 may be disconnected
                edges.add((rnd.randrange(0, i), i))
        for _ in range(rnd.randint(0, n)):
            a, b = rnd.sample(range(n), 2)
            edges.add((min(a, b), max(a, b)))
    flags = 0
    if want_overlap or rnd.random() < 0.4:
        flags |= 1
    if want_overlap or rnd.random() < 0.6:
        flags |= 2
    if not want_overlap and not clusters and rnd.random() < 0.12:
        flags |= 4
    if rnd.random() < 0.2:
        flags |= 8
    cons = []
    ncons = 0 if want_overlap and rnd.random() < 0.5 else rnd.randint(0, 8 if not want_overlap else 2)
    align_idx = {0: [], 1: []}
    for _ in range(ncons):
        k = rnd.choice([1, 1, 1, 2, 2, 3, 4, 5, 6]) if not want_overlap else rnd.choice([1, 2])
        dim = rnd.randint(0, 1)
        if flags & 4 and k in (4, 5, 6):
            k = 1
        if k == 1:
            l, r = rnd.sample(range(n), 2)
            cons.append([1, dim, l, r, rnd.choice([0, 10, 25, 40, -10]), 1 if rnd.random() < 0.25 else 0])
        elif k == 2:
            kk = rnd.randint(1, min(4, n))
            ms = rnd.sample(range(n), kk)
            c = [2, dim, kk]
            for i in ms:
                c += [i, rnd.choice([0, 0, 5, -5, 12])]
            fixed = 1 if rnd.random() < 0.2 else 0
            c += [fixed, rnd.choice([50, 100, 0])]
            align_idx[dim].append(len(cons))
            cons.append(c)
        elif k == 3:
            kk = rnd.randint(2, min(5, n))
            ms = rnd.sample(range(n), kk)
            c = [3, dim, kk]
            for i in ms:
                c += [i, rnd.choice([-20, -10, 0, 0, 10, 20])]
            cons.append(c)
        elif k in (4, 5) and len(align_idx[dim]) >= 2:
            np_ = rnd.randint(1, min(2, len(align_idx[dim]) - 1))
            idxs = rnd.sample(align_idx[dim], np_ + 1)
            pairs = []
            for q in range(np_):
                pairs += [idxs[q], idxs[q + 1]]
            if k == 4:
                cons.append([4, dim, rnd.choice([10, 30]), 1 if rnd.random() < 0.3 else 0, np_] + pairs)
            else:
                cons.append([5, dim, rnd.choice([20, 40]), np_] + pairs)
        elif k == 6 and n >= 2:
            kk = rnd.randint(2, min(4, n))
            cons.append([6, kk] + rnd.sample(range(n), kk))
    groups = []
    if (flags & 1) and rnd.random() < 0.3 and n >= 3:
        groups.append(rnd.sample(range(n), rnd.randint(2, min(4, n))))
        rest = [i for i in range(n) if i not in groups[0]]
        if len(rest) >= 2 and rnd.random() < 0.6:        # a second exemption group, disjoint from the first
            groups.append(rnd.sample(rest, rnd.randint(2, min(3, len(rest)))))
    if want_overlap and (flags & 1) and not (flags & 4) and rnd.random() < 0.3:
        flags |= 64          # the exemption groups are declared a second time on the same layout object (after a layout with everything exempt)
    cl = []
    if clusters and n >= 4 and not (flags & 4):
        ids = list(range(n))
        rnd.shuffle(ids)
        a = ids[:rnd.randint(1, n // 2)]
        b = ids[len(a):len(a) + rnd.randint(1, max(1, (n - len(a)) // 2))]
        cl = [(rnd.choice([0, 2, 5]), rnd.choice([0, 2, 5]), -1, a), (rnd.choice([0, 2]), rnd.choice([0, 2]), -1, b)]
        if n >= 6 and rnd.random() < 0.5:
            # a hierarchy: P{direct nodes, C{D1{..}, D2{..}}} where C may have no direct member of its own, next to free nodes
            k = rnd.randint(5, min(n - 1, 8))
            mem = ids[:k]
            pn, d1, d2 = mem[:1], mem[1:1 + max(1, (k - 1) // 2)], mem[1 + max(1, (k - 1) // 2):]
            cdirect = [d2.pop()] if len(d2) > 1 and rnd.random() < 0.4 else []
            pm = lambda: (rnd.choice([0, 2]), rnd.choice([0, 2]))
            cl = [pm() + (-1, pn), pm() + (0, cdirect), pm() + (1, d1), pm() + (1, d2)]
    return {'nodes': nodes, 'edges': sorted(edges), 'flags': flags, 'cons': cons, 'groups': groups, 'clusters': cl}


def gen_crowded(rnd):
    """few nodes on top of each other, overlap avoidance and makeFeasible on, and a handful of separations (some slack, some pushing hard):
    the non-overlap alternatives that makeFeasible tries interact with the user's constraints"""
    n = rnd.randint(2, 5)
    nodes = [(2 * rnd.randint(4, 20), 2 * rnd.randint(4, 20), rnd.randint(40, 80), rnd.randint(40, 80)) for _ in range(n)]
    edges = sorted({(min(a, b), max(a, b)) for a, b in (rnd.sample(range(n), 2) for _ in range(rnd.randint(0, n)))})
    cons = []
    for _ in range(rnd.randint(1, 4)):
        l, r = rnd.sample(range(n), 2)
        cons.append([1, rnd.randint(0, 1), l, r, rnd.choice([0, 10, 25, 100, 200]), 0])
    return {'nodes': nodes, 'edges': edges, 'flags': 3 | (8 if rnd.random() < 0.2 else 0) | (32 if rnd.random() < 0.5 else 0), 'cons': cons, 'groups': [], 'clusters': []}


def gen_redundant(rnd):
    """no overlap avoidance; separations, equalities and small alignments over few nodes, with the redundancy a user's constraint list
    typically has: the same pair constrained twice (an alignment with offsets plus a separation of exactly that gap, an equality plus an
    inequality), chains through a third node; mostly satisfiable; makeFeasible() alone half of the time"""
    n = rnd.randint(2, 5)
    nodes = [(2 * rnd.randint(2, 8), 2 * rnd.randint(2, 8), rnd.randint(0, 120), rnd.randint(0, 120)) for _ in range(n)]
    edges = sorted({(min(a, b), max(a, b)) for a, b in (rnd.sample(range(n), 2) for _ in range(rnd.randint(0, n)))})
    cons = []
    dim = rnd.randint(0, 1)
    for _ in range(rnd.randint(1, 2)):
        a, b = rnd.sample(range(n), 2)
        g = rnd.choice([0, 10, 10, 20, 35])
        twin = rnd.choice([0, 0, 0, 1, 2, 2, 3])
        if twin == 0:
            cons += [[1, dim, a, b, g, 0], [2, dim, 2, a, 0, b, g, 0, 0]]
        elif twin == 1:
            cons += [[1, dim, a, b, g, 0], [1, dim, a, b, g, 1]]
        elif twin == 2:
            cons += [[2, dim, 2, a, 0, b, g, 0, 0], [1, dim, a, b, g - rnd.choice([0, 5]), 0]]
        else:
            cons += [[1, dim, a, b, g, 0], [1, dim, b, a, -g, 0]]
    for _ in range(rnd.randint(1, 4)):
        l, r = rnd.sample(range(n), 2)
        cons.append([1, dim if rnd.random() < 0.8 else 1 - dim, l, r, rnd.choice([0, 10, 10, 25]), 0])
    rnd.shuffle(cons)
    return {'nodes': nodes, 'edges': edges, 'flags': 2 | (8 if rnd.random() < 0.2 else 0) | (32 if rnd.random() < 0.6 else 0), 'cons': cons, 'groups': [], 'clusters': []}


def gen_double_conflict(rnd):
    """two (or three) separations of one ordered pair with different gaps, all in conflict with an alignment or an equality that holds the
    pair closer together (sometimes one of them satisfiable): each unsatisfiable constraint has to be reported on its own"""
    n = rnd.randint(2, 4)
    nodes = [(2 * rnd.randint(2, 8), 2 * rnd.randint(2, 8), rnd.randint(0, 150), rnd.randint(0, 150)) for _ in range(n)]
    edges = sorted({(min(a, b), max(a, b)) for a, b in (rnd.sample(range(n), 2) for _ in range(rnd.randint(0, n)))})
    dim = rnd.randint(0, 1)
    a, b = rnd.sample(range(n), 2)
    hold = rnd.choice([0, 10, 20])
    cons = [[2, dim, 2, a, 0, b, hold, 0, 0]] if rnd.random() < 0.6 else [[1, dim, a, b, hold, 1]]
    for g in rnd.sample([hold - 10, hold + 15, hold + 30, hold + 60, hold + 80], rnd.randint(2, 3)):
        cons.append([1, dim, a, b, g, 0])
    if n > 2 and rnd.random() < 0.5:
        l, r = rnd.sample(range(n), 2)
        cons.append([1, rnd.randint(0, 1), l, r, rnd.choice([0, 10, 25]), 0])
    rnd.shuffle(cons)
    return {'nodes': nodes, 'edges': edges, 'flags': (2 if rnd.random() < 0.6 else 0) | (8 if rnd.random() < 0.2 else 0) | (4 if rnd.random() < 0.15 else 0), 'cons': cons, 'groups': [], 'clusters': []}


def write_cases(path, cases):
    with open(path, 'w') as f:
        for c in cases:
            row = [len(c['nodes'])]
            for nd in c['nodes']:
                row += list(nd)
            row.append(len(c['edges']))
            for e in c['edges']:
                row += list(e)
            row.append(c['flags'])
            row.append(len(c['cons']))
            for k in c['cons']:
                row += k
            row.append(len(c['groups']))
            for g in c['groups']:
                row += [len(g)] + g
            row.append(len(c['clusters']))
            for pad, margin, parent, ns in c['clusters']:
                row += [pad, margin, parent, len(ns)] + ns
            f.write(' '.join(map(str, row)) + '\n')


def run_cases(hl, d, name, cases, which, chunk=20, timeout=2400):
    cf = os.path.join(d, name + '.txt')
    of = os.path.join(d, name + '.json')
    write_cases(cf, cases)
    recs, hung, skip = [], [], 0
    while skip < len(cases):
        part = of + '.part'
        # a layout run takes well under a second; a part that stops making progress is a run that does not terminate
        rc, out = V.run(['timeout', str(20 + (len(cases) - skip) // 8), hl, 'run', cf, part, str(chunk), str(skip)], timeout=timeout)
        lines = open(part).read().splitlines()[1:]
        got = [json.loads(l.lstrip(',')) for l in lines if l.startswith(('{', ',{'))]
        recs += got
        skip += len(got)
        if rc == 0:
            break
        if rc != 124 and rc != 137:
            # crashed inside case number skip
            hung.append((skip, 'crashed rc=%d %s' % (rc, out[-300:])))
        else:
            hung.append((skip, 'did not terminate'))
        skip += 1
    os.remove(of + '.part')
    data = {'chunk': chunk, 'S': 10000, 'recs': recs, 'which': which}
    json.dump(data, open(of, 'w'))
    data['hung'] = hung
    return of, data
