"""C11: pins, junctions and checkpoints are honoured by routes."""
import json, os, random, re
import vcheck as V
from checks import life_common as LC

PID = 'C11'


def snapshots(execs, hists, cfgs):
    recs, meta = [], []
    for ex in execs:
        mode, opts = cfgs[ex['index']]
        for ln in ex['lines']:
            if '"processed":true' not in ln:
                continue
            j = json.loads(ln)
            if 'shapes' not in j:
                continue
            for c in j['conns']:
                for e in ('src', 'dst'):
                    c[e].setdefault('s', -1); c[e].setdefault('c', -1); c[e].setdefault('j', -1)
            recs.append({'mode': mode, 'buf': 2 if (opts & 1) else 0, 'opts': opts, 'shapes': j['shapes'], 'pins': j['pins'], 'juncs': j['juncs'], 'conns': j['conns'],
                         'newJ': j['newJ'], 'newC': j['newC'], 'delJ': j['delJ'], 'delC': j['delC']})
            meta.append((ex['index'], j['op']))
    return recs, meta


def capacity_histories():
    """'numbers of connectors up to pin capacity': one shape carrying two or three exclusive pins of one class (every such subset of the
    protocol's catalogue, among them two pins that differ only in their inside offset) and as many connectors on that class, then the
    shape moved and resized.  Legal behaviours of Lifecycle.tla, written out instead of waited for."""
    import itertools
    EXCL1 = [(1, 0, 2, 0, 4, 1, 1), (1, 4, 2, 0, 8, 1, 1), (1, 2, 2, 1, 15, 1, 1), (1, 4, 2, 1, 8, 1, 1)]      # <<class, xq, yq, inside, dirs, excl, prop>>
    targets = [(23, 12), (12, 1), (23, 1)]
    out = []
    for k in (2, 3):
        for pins in itertools.combinations(EXCL1, k):
            ops = [[1, 1, 6, 8, 14, 16]]
            for p in pins:
                ops.append([2, 1, p[0], p[1], p[2], p[6], p[3], p[4], p[5]])
            for i in range(k):
                ops.append([4, 21 + i, 1, 1, 1, 0, targets[i][0], targets[i][1]])
            ops += [[13], [6, 1, 2, 0], [13], [7, 1, 8, 8, 18, 20], [13]]
            out.append(ops)
    return out


def main(tier):
    ev = V.Evidence(PID, tier)
    vd = V.Verdict(PID, ev)
    quick = tier == 'quick'
    d = V.rundir('c11')
    hl, = V.build(['h_life'])
    n = 3000 if quick else 8000
    # histories rich in pins: the same protocol specification, longer histories
    hists, rg = LC.gen_histories(d, n * 3, 18 if quick else 20, V.seed())
    hists = [h for h in hists if any(o[0] == 2 for o in h) and any(o[0] == 13 for o in h)][:n]
    hists = hists + capacity_histories()
    ev.add_tlc('history generation (simulation of Lifecycle)', rg)
    rnd = random.Random(V.seed())
    scen = os.path.join(d, 'scen.txt')
    cfgs = LC.write_scenarios(scen, hists, rnd, opts_choices=(0, 1, 1, 0))
    execs, crashes = LC.run_harness(hl, scen, os.path.join(d, 'run.ndjson'), len(hists), timeout=1500)
    complete = [ex for ex in execs if ex['end'] and ex['end'].get('e') == 'End' and not any('"error"' in l for l in ex['lines'])]
    recs, meta = snapshots(complete, hists, cfgs)
    rf = os.path.join(d, 'pin_recs.json')
    json.dump({'chunk': 25, 'recs': recs}, open(rf, 'w'))
    r = V.tlc(os.path.join(LC.SP, 'Pins.tla'), os.path.join(LC.SP, 'Pins.cfg'), env={'PINRECS': rf}, timeout=3000, cont=True, mem='16g')
    ev.add_tlc('Pins: %d snapshots of %d executions' % (len(recs), len(complete)), r)
    nontriv = sum(v[0] for v in V.stat(r.out, 'pins'))
    for inv, st in V.violating_states(r):
        for (i, t) in st.get('bad', []):
            hi, op = meta[i - 1]
            x = recs[i - 1]
            brief = {'shapes': [[v // 1024 if k else v for k, v in enumerate(q)] for q in x['shapes']],
                     'pins': [{k: (p[k] if k != 'p' else [v / 1024 for v in p[k]]) for k in ('s', 'c', 'xq', 'yq', 'inside', 'dirs', 'excl', 'p')} for p in x['pins']],
                     'conns': [{'id': c.get('id'), 'src': c['src'], 'dst': c['dst'], 'raw': [[v / 1024 for v in p] for p in c['raw']], 'cps': [[v / 1024 for v in p] for p in c.get('cps', [])]} for c in x['conns']]}
            key = 'pins:' + t
            # fingerprints of the known classes (the verdict is the specification's; this only names the input class)
            ever_cp = {}
            for o in hists[hi]:
                if o[0] == 5:
                    ever_cp.setdefault(o[1], set()).add((o[3] * 1024, o[4] * 1024))
            pinpos = {tuple(q['p']) for q in x['pins']}
            def on_old_checkpoint(c):
                return any(e['t'] == 1 and tuple(pt) not in pinpos and tuple(pt) in ever_cp.get(c['id'], set())
                           for e, pt in ((c['src'], c['raw'][0]), (c['dst'], c['raw'][-1])) if len(c['raw']) >= 2)
            def strictly_inside(q):
                sh = [z for z in x['shapes'] if z[0] == q['s']]
                return bool(sh) and sh[0][1] < q['p'][0] < sh[0][3] and sh[0][2] < q['p'][1] < sh[0][4]
            def off_pin_ends(c):
                return [e for e, pt in ((c['src'], c['raw'][0]), (c['dst'], c['raw'][-1])) if len(c['raw']) >= 2 and e['t'] == 1 and tuple(pt) not in pinpos]
            if t == 'pin-end-not-on-a-free-pin-of-its-class':
                offenders = [(c, e) for c in x['conns'] for e in off_pin_ends(c)]
                # ends that are not on a pin OF THEIR CLASS (the point may be another class's pin, e.g. a centre pin at the shape centre)
                offenders2 = [(c, e) for c in x['conns'] if len(c['raw']) >= 2 for e, pt in ((c['src'], c['raw'][0]), (c['dst'], c['raw'][-1]))
                              if e['t'] == 1 and tuple(pt) not in {tuple(q['p']) for q in x['pins'] if q['s'] == e['s'] and q['c'] == e['c']}]
                if any(c['src']['t'] == 1 and c['dst']['t'] == 1 and c['src']['s'] == c['dst']['s'] for c in x['conns']):
                    key += ':a-connector-joins-two-pins-of-one-shape'
                elif any(on_old_checkpoint(c) for c in x['conns']):
                    key += ':route-ends-on-a-checkpoint'
                elif offenders and all(len({tuple(q['p']) for q in x['pins'] if q['s'] == e['s'] and q['c'] == e['c']}) < len([q for q in x['pins'] if q['s'] == e['s'] and q['c'] == e['c']]) for c, e in offenders):
                    key += ':coincident-pins-of-one-class'
                elif offenders and all(any(q['s'] == e['s'] and q['c'] == e['c'] and strictly_inside(q) for q in x['pins']) for c, e in offenders):
                    key += ':class-has-a-pin-inside-its-shape'
                elif offenders and all(c['id'] in ever_cp for c, e in offenders):
                    key += ':connector-with-checkpoints'
                elif offenders2 and all(len(c['raw']) == 2 and any(z[0] == e['s'] and (tuple(c['raw'][0]) == ((z[1] + z[3]) // 2, (z[2] + z[4]) // 2) or tuple(c['raw'][-1]) == ((z[1] + z[3]) // 2, (z[2] + z[4]) // 2))
                                                                     for z in x['shapes']) for c, e in offenders2):
                    # (class name only) the library found no route at all -- the pin is walled in by a touching shape or the other end lies in a
                    # buffered outline -- and drew the straight line from the centre of the shape instead
                    key += ':no-route-found:straight-line-from-the-shape-centre'
                elif x['mode'] == 1 and any(len(c['raw']) == 2 and c['raw'][0][0] != c['raw'][1][0] and c['raw'][0][1] != c['raw'][1][1]
                                            and any(e['t'] == 1 and any(z[0] == e['s'] and tuple(pt) == ((z[1] + z[3]) // 2, (z[2] + z[4]) // 2) for z in x['shapes'])
                                                    for e, pt in ((c['src'], c['raw'][0]), (c['dst'], c['raw'][-1]))) for c in x['conns']):
                    # (class name only) the same fallback when the class happens to have a pin at the shape centre: an orthogonal connector drawn as
                    # one slanted line from the centre of its shape (no route was found) sits on that pin and takes it from its rightful user
                    key += ':no-route-found:straight-line-from-the-shape-centre'
            if t == 'checkpoints-not-visited-in-order':
                def on_inside_pin(e):
                    return e['t'] == 1 and any(q['s'] == e['s'] and q['c'] == e['c'] and strictly_inside(q) for q in x['pins'])
                if any(c.get('cps') and (on_inside_pin(c['src']) or on_inside_pin(c['dst'])) for c in x['conns']):
                    key += ':connector-attached-to-a-pin-inside-its-shape'
                else:
                    def visits(c):
                        return all(any(abs(p[0] - cp[0]) <= 2 and abs(p[1] - cp[1]) <= 2 for p in c['raw']) for cp in c['cps'])
                    missing = [c for c in x['conns'] if c.get('cps') and not visits(c)]
                    if missing and all(len(c['raw']) == 2 for c in missing):
                        key += ':no-route-found:straight-line-between-the-ends'
            vd.violation(key, '%s after op %s of history %s (mode=%d buf=%d): %s' % (t, op, hists[hi], x['mode'], x['buf'], json.dumps(brief)[:900]),
                         {'ops': hists[hi], 'mode': x['mode'], 'opts': x['opts'], 'after_op': op, 'snapshot': brief})
    ev.cov['evaluations'] = len(recs)
    ev.cov['executions_cut_where_the_history_would_use_an_object_the_library_reported_deleted'] = sum(1 for ex in execs if ex['end'] and ex['end'].get('truncated'))
    ev.cov['distinct_nontrivial'] = nontriv
    ev.cov['traces_validated_against_impl'] = len(complete)
    ev.cov['executions_not_completed'] = len(execs) - len(complete)
    ev.cov['rule'] = ('snapshots = projections recorded at every processing point of %d histories (behaviours of Lifecycle.tla containing pins and a processing point; pins from a catalogue with '
                      'all direction masks, exclusive/shared, inside offset; shape moves and resizes; connector ends on pin classes, junctions, points; checkpoints); non-trivial = snapshot with a '
                      'pin-attached or junction-attached end or a checkpoint' % len(hists))
    if recs:
        ev.sample({'ops': hists[meta[0][0]], 'pins': recs[0]['pins'][:3]})
    ev.assumptions = ['executions that crash or assert are excluded here and reported by C15', 'direction clause evaluated only with a positive shape buffer (DESIGN 1, reading (d))']
    rc = vd.finish()
    ev.write()
    return rc
