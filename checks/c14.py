"""C14: HOLA returns a clean orthogonal drawing of the same graph."""
import json, os, random, re
import vcheck as V
from checks import c19

PID = 'C14'
HP = os.path.join(V.SPEC, 'dialect', 'HolaPipeline.tla')


def main(tier):
    ev = V.Evidence(PID, tier)
    vd = V.Verdict(PID, ev)
    quick = tier == 'quick'
    hd, = V.build(['h_dialect'])
    d = V.rundir('c14')
    rnd = random.Random(V.seed())
    cases = []
    for _ in range(700 if quick else 3000):
        n, es = c19.random_graph(rnd, rnd.randint(2, 14 if quick else 25))
        sizes = [(rnd.choice([10, 20, 30, 40]), rnd.choice([10, 20, 30])) for _ in range(n)]
        cases.append((n, sizes, [(rnd.randint(0, 300), rnd.randint(0, 300)) for _ in range(n)], es, rnd.randint(0, 127)))
    # trees with isomorphic sibling subtrees and narrow/wide nodes mixed (the whole-graph-is-a-tree path returns the symmetric layout as it is)
    for _ in range(500 if quick else 2500):
        n, es = c19.bushy_tree(rnd)
        if not 2 <= n <= (16 if quick else 25):
            continue
        ws = rnd.choice([[30, 200], [20, 40, 120], [30, 30, 30, 160], [10, 20, 30, 40]])
        sizes = [(rnd.choice(ws), rnd.choice([20, 30])) for _ in range(n)]
        cases.append((n, sizes, [(rnd.randint(0, 300), rnd.randint(0, 300)) for _ in range(n)], es, rnd.randint(0, 127)))
    # ear graphs: a cycle plus one or two chains of degree-2 nodes ("ears") between two of its nodes, optionally a chord and small hanging
    # trees -- the inputs on which the chain configuration (Chain::takeShapeBasedConfiguration, used when useACAforLinks is off) has
    # several bends to distribute over a chain; two thirds of them run in chain mode
    # (drawn from a fixed seed, the same 260 cases in both tiers and in every round of the thorough tier: doHOLA() has rare defects of its
    #  own on these inputs -- F68 -- which are listed by exact input, so the family must not change from run to run)
    rnd_main, rnd = rnd, random.Random(20261005)
    # the input of F68 (found by this family when it was still drawn from the run's seed), kept so that the listed finding stays exercised
    f68 = [40, 30, 359, 74, 30, 50, 108, 338, 60, 40, 152, 370, 50, 50, 88, 266, 60, 50, 62, 17, 60, 30, 339, 83, 60, 50, 408, 235, 40, 30, 348, 367,
           30, 30, 167, 286, 60, 20, 77, 167, 30, 30, 458, 59, 50, 50, 133, 588, 30, 40, 175, 514]
    cases.append((13, [(f68[4 * i], f68[4 * i + 1]) for i in range(13)], [(f68[4 * i + 2], f68[4 * i + 3]) for i in range(13)],
                  [(1, 2), (1, 3), (1, 5), (1, 6), (2, 3), (3, 4), (3, 8), (4, 5), (6, 7), (7, 8), (8, 9), (8, 10), (8, 11), (8, 12), (12, 13)], 56))
    for _ in range(260):
        nc = rnd.randint(3, 6)
        es = set((i + 1, (i + 1) % nc + 1) for i in range(nc))
        n = nc
        for _ear in range(rnd.randint(1, 2)):
            a = rnd.randint(1, nc)
            b = rnd.choice([x for x in range(1, nc + 1) if x != a])
            prev = a
            for _k in range(rnd.randint(2, 4)):
                n += 1
                es.add((prev, n)); prev = n
            es.add((prev, b))
        if rnd.random() < 0.3 and nc >= 4:
            a = rnd.randint(1, nc); b = (a + 1) % nc + 1
            if (a, b) not in es and (b, a) not in es and a != b:
                es.add((a, b))
        for _t in range(rnd.randint(0, 2)):
            par = rnd.randint(1, n)
            for _k in range(rnd.randint(1, 3)):
                n += 1
                es.add((par, n)); par = rnd.choice([par, n])
        es = sorted((min(u, v), max(u, v)) for u, v in es)
        sizes = [(rnd.choice([20, 30, 40, 50, 60]), rnd.choice([20, 30, 40, 50])) for _ in range(n)]
        opts = rnd.randint(0, 127)
        if rnd.random() < 0.67:
            opts &= ~1
        cases.append((n, sizes, [(rnd.randint(0, 600), rnd.randint(0, 600)) for _ in range(n)], es, opts))
    rnd = rnd_main
    cf = os.path.join(d, 'cases.txt')
    with open(cf, 'w') as f:
        for n, sizes, pos, es, opts in cases:
            row = [n] + [v for i in range(n) for v in (sizes[i][0], sizes[i][1], pos[i][0], pos[i][1])] + [len(es)] + [v for e in es for v in e] + [opts]
            f.write(' '.join(map(str, row)) + '\n')
    phase_cases = 200 if quick else 1200       # runs whose main pipeline phases are recorded too (observations)
    recs, hung, skip = [], [], 0
    of = os.path.join(d, 'hola.json')
    while skip < len(cases):
        rc, out = V.run(['timeout', str(60 + 3 * (len(cases) - skip)), hd, 'hola', cf, of + '.part', str(skip), str(phase_cases)], timeout=3000)
        got = [json.loads(l.lstrip(',')) for l in open(of + '.part').read().splitlines()[1:] if l.startswith(('{', ',{'))]
        recs += got
        skip += len(got)
        if rc == 0:
            break
        hung.append((skip, 'did not terminate' if rc in (124, 137) else 'crashed rc=%d' % rc))
        recs.append({'n': cases[skip][0], 'opts': cases[skip][4], 'size': [list(s) for s in cases[skip][1]], 'edges': [list(e) for e in cases[skip][3]], 'thrown': True, 'assertion': False, 'what': hung[-1][1]})
        skip += 1
    json.dump({'chunk': 5, 'S': 64, 'recs': recs}, open(of, 'w'))
    for idx, why in hung:
        site = ''
        if why.startswith('crashed'):
            # a crash of the optimised build is garbage-dependent: run the one case in the sanitizer build, which names the first invalid access
            hs, = V.build(['h_dialect'], cfg='san')
            one = os.path.join(d, 'crash_%d.txt' % idx)
            open(one, 'w').write(open(cf).read().splitlines()[idx] + '\n')
            rc1, out1 = V.run(['timeout', '600', hs, 'hola', one, one + '.out'], timeout=700)
            m = re.search(r'(\w+\.cpp):(\d+):\d+: runtime error', out1) or re.search(r'ERROR: AddressSanitizer: (\S+)', out1)
            site = ':memory-error@%s' % (m.group(1) + (':' + m.group(2) if m.lastindex > 1 else '')) if m else ':not-reproduced-in-the-sanitizer-build'
        vd.violation('hola:' + why.split(' rc')[0].replace(' ', '-') + site, '%s: n=%d edges=%s opts=%d' % (why, cases[idx][0], cases[idx][3], cases[idx][4]), {'case': cases[idx]})
    r = V.tlc(HP, os.path.join(V.SPEC, 'dialect', 'HolaPipeline.cfg'), env={'HOLARECS': of}, timeout=3000, cont=True, mem='16g')
    ev.add_tlc('HolaPipeline: %d doHOLA runs' % len(recs), r)
    st = V.stat(r.out, 'hola')
    nontriv, thrown = sum(v[0] for v in st), sum(v[1] for v in st)
    for inv, st in V.violating_states(r):
        for (i, t) in st.get('bad', []):
            x = recs[i - 1]
            what = x.get('what', '')
            key = 'hola:' + t
            if t == 'assertion':
                m = re.search(r'expression: (.*?)(\n| \||$)', what)
                ml = re.search(r'at line (\d+) of \S*/(\w+\.cpp)', what)
                key = ('assertion:' + re.sub(r'[^A-Za-z0-9_>!=<.()-]+', '', m.group(1))[:50] + ('@' + ml.group(2) if ml else '')) if m else 'assertion'
            if t == 'route-through-a-third-node':
                # rare on the unchanged tree: listed by exact input (DESIGN 10: class-level keys mask seeded changes)
                import hashlib
                key += ':case-' + hashlib.sha1(json.dumps([x['n'], x['size'], x['edges'], x['opts']], sort_keys=True).encode()).hexdigest()[:10]
            vd.violation(key, '%s %s: n=%d sizes=%s edges=%s opts=%d' % (t, what[:160].replace('\n', ' '), x['n'], x['size'], x['edges'], x['opts']),
                         {k: x.get(k) for k in ('n', 'size', 'edges', 'opts', 'what', 'nodes', 'routes')} if x['n'] <= 10 else {'n': x['n'], 'edges': x['edges'], 'opts': x['opts'], 'what': what})
    # phase-level observations printed by the specification (never violations)
    obs, seen_chunks, phase_runs = {}, set(), 0
    for m in re.finditer(r'<<"OBS", (\d+), (\{.*?\}), (\d+)>>', r.out, re.S):
        if m.group(1) in seen_chunks:
            continue
        seen_chunks.add(m.group(1))
        phase_runs += int(m.group(3))
        for o in V.parse_tla_value(m.group(2)):
            kk = '%s:%s' % (o[1], o[2])
            obs[kk] = obs.get(kk, 0) + 1
    ev.cov['phase_observations'] = {'runs_with_recorded_phases': phase_runs, 'by_phase_and_kind': obs,
                                    'meaning': 'logged state of a main pipeline phase violates its own constraints / has overlapping nodes after an overlap-preventing destress; not part of the statement'}
    # ---- beyond the statement: the chain bend-sequence lookup table re-derived (BendSeq.tla); observations only
    bf = os.path.join(d, 'bendseq.json')
    V.run([hd, 'bendseq', bf], check=True, timeout=120)
    rb = V.tlc(os.path.join(V.SPEC, 'dialect', 'BendSeq.tla'), os.path.join(V.SPEC, 'dialect', 'BendSeq.cfg'), env={'BENDSEQ': bf}, timeout=900, cont=True)
    ev.add_tlc('BendSeq: the 128 entries of minimalBendSeqs re-derived on a grid with node extent, and the quarter-turn lemma', rb)
    bs = {}
    for m in re.finditer(r'<<"BENDSEQ", (\d+), "([a-z-]+)">>', rb.out):
        bs[int(m.group(1))] = m.group(2)
    tally = {}
    for v in bs.values():
        tally[v] = tally.get(v, 0) + 1
    ev.cov['bend_sequence_table'] = {'entries': len(bs), 'by_outcome': tally, 'quarter_turn_lemma_holds': 'RotationLemma' not in ' '.join(rb.violated),
                                     'meaning': 'ok = the table entry is exactly the set of bend-minimal walkable sequences; the other outcome names entries (cardinal alignment) that also list a sequence '
                                                'that needs the two nodes to be a little out of line; not part of the statement'}
    ev.cov['evaluations'] = len(recs)
    ev.cov['distinct_nontrivial'] = nontriv
    ev.cov['runs_left_by_exception'] = thrown
    ev.cov['traces_validated_against_impl'] = len(recs)
    ev.cov['rule'] = ('doHOLA runs on seeded random connected simple graphs (2..%d nodes: trees, cycles with tails, sparse, dense, hubs), node sizes from a catalogue, random initial positions, '
                      'option vectors {ACA|chains} x near-align x convex trees x aspect preference {landscape, none, portrait} x preferred tree growth direction; non-trivial = some route has a bend; runs that leave by std::runtime_error have no "after" state and are counted only'
                      % (14 if quick else 25))
    good = [x for x in recs if not x['thrown']]
    if good:
        ev.sample({k: good[0][k] for k in ('n', 'size', 'edges', 'opts', 'nodes')})
    ev.assumptions = ['lattice 1/64, tolerance 2 units', 'phase-level invariants through the Logger seam are not recorded (postcondition only)']
    rc2 = vd.finish()
    ev.write()
    return rc2
