"""C19: graph decompositions partition the graph (peel, connected components, symmetric trees) and planarise it."""
import json, os, random, re
import vcheck as V

PID = 'C19'
SP = os.path.join(V.SPEC, 'dialect')
PT = os.path.join(SP, 'Peel.tla')


def cfg(d, name, spec, gn, invs):
    p = os.path.join(d, name + '.cfg')
    open(p, 'w').write('SPECIFICATION %s\nCONSTANT GN = %d\n%sCHECK_DEADLOCK FALSE\n' % (spec, gn, ''.join('INVARIANT %s\n' % i for i in invs)))
    return p


def random_graph(rnd, n):
    kind = rnd.randint(0, 4)
    edges = set()
    nodes = list(range(1, n + 1))
    rnd.shuffle(nodes)
    # spanning tree first (connected), then extras depending on kind
    for i in range(1, n):
        edges.add(frozenset((nodes[i], nodes[rnd.randrange(0, i)] if kind != 1 else nodes[i - 1])))
    extra = {0: 0, 1: 1 if n > 2 else 0, 2: n // 3, 3: n, 4: rnd.randint(0, 2 * n)}[kind]
    for _ in range(extra if n >= 2 else 0):
        u, v = rnd.sample(range(1, n + 1), 2)
        edges.add(frozenset((u, v)))
    return n, [sorted(e) for e in edges]


def main(tier):
    ev = V.Evidence(PID, tier)
    vd = V.Verdict(PID, ev)
    quick = tier == 'quick'
    hd, = V.build(['h_dialect'])
    d = V.rundir('c19')
    gn = 5 if quick else 6
    # design level: stripping leaves is confluent and ends in the 2-core, for every connected graph on gn nodes
    r = V.tlc(PT, cfg(d, 'design', 'DSpec', gn, ['Confluent', 'CoreHasNoLeaf']), env={'PEELRECS': '/dev/null'}, timeout=3000, mem='16g')
    ev.add_tlc('design: peeling is confluent (all connected graphs on %d nodes, all stripping orders)' % gn, r)
    if r.violated:
        raise V.Broken('Peel.tla design property fails: ' + r.out[-2000:])
    # B1: the same graphs replayed
    gf = os.path.join(d, 'graphs.json')
    V.tlc(PT, cfg(d, 'gen', 'GenSpec', gn, []), env={'PEELGEN': gf, 'PEELRECS': '/dev/null'}, workers=1, timeout=1500, mem='12g')
    graphs = json.load(open(gf))
    rnd = random.Random(V.seed())
    lines = ['%d %d %s' % (gn, len(g), ' '.join('%d %d' % (e[0], e[1]) for e in g)) for g in graphs]
    nrand = 400 if quick else 6000
    for _ in range(nrand):
        n, es = random_graph(rnd, rnd.randint(2, 60))
        lines.append('%d %d %s' % (n, len(es), ' '.join('%d %d' % (e[0], e[1]) for e in es)))
    # disconnected graphs for the component clause
    for _ in range(nrand // 4):
        n1, e1 = random_graph(rnd, rnd.randint(1, 12))
        n2, e2 = random_graph(rnd, rnd.randint(1, 12))
        es = e1 + [[a + n1, b + n1] for a, b in e2]
        lines.append('%d %d %s' % (n1 + n2 + 1, len(es), ' '.join('%d %d' % (e[0], e[1]) for e in es)))      # plus one isolated node
    gt = os.path.join(d, 'graphs.txt')
    open(gt, 'w').write('\n'.join(lines) + '\n')
    rf = os.path.join(d, 'peel.json')
    rc, out = V.run([hd, 'peel', gt, rf], timeout=1800)
    if rc != 0:
        raise V.Broken('h_dialect peel failed rc=%d: %s' % (rc, out[-1500:]))
    rr = V.tlc(PT, cfg(d, 'recs', 'Spec', 1, ['AllPartitions']), env={'PEELRECS': rf}, timeout=3000, cont=True, mem='16g')
    ev.add_tlc('Peel records: %d graphs (%d enumerated + random)' % (len(lines), len(graphs)), rr)
    recs = json.load(open(rf))['recs']
    nontriv = sum(v[0] for v in V.stat(rr.out, 'peel'))
    for inv, st in V.violating_states(rr):
        for (i, t) in st.get('bad', []):
            x = recs[i - 1]
            vd.violation('peel:' + t, '%s: n=%d edges=%s %s' % (t, x['n'], x['edges'][:40], x.get('what', '')[:200]), x if x['n'] <= 12 else {'n': x['n'], 'edges': x['edges']})
    ev.cov['evaluations'] = len(lines)
    ev.cov['distinct_nontrivial'] = nontriv
    ev.cov['traces_validated_against_impl'] = len(lines)
    ev.cov['rule'] = ('graphs = every simple connected graph on %d labelled nodes (TLC-enumerated, %d graphs) + %d seeded random connected graphs up to 60 nodes (trees, cycles with tails, sparse, dense) '
                      '+ disconnected unions for the component clause; non-trivial = non-empty core and at least one tree' % (gn, len(graphs), nrand))
    ev.sample({'n': recs[7]['n'], 'edges': recs[7]['edges'], 'core': recs[7].get('core'), 'trees': [t['g'] for t in recs[7].get('trees', [])]})
    ev.assumptions = ['planarisation is checked by the second stage of this check (Planar.tla) when present']
    rc2 = vd.finish()
    ev.write()
    return rc2
