"""C19: graph decompositions partition the graph (peel, connected components, symmetric trees) and planarise it."""
import json, os, random, re
import vcheck as V

PID = 'C19'
SP = os.path.join(V.SPEC, 'dialect')
PT = os.path.join(SP, 'Peel.tla')


def cfg(d, name, spec, gn, invs):
    p = os.path.join(d, name + '.cfg')
    open(p, 'w').write('SPECIFICATION %s\nCONSTANT GN = %d\n%sCHECK_DEADLOCK FALSE\n' % (spec, gn, ''.join('INVARIANT %s\n' % i for i in invs)))
    return p


def random_graph(rnd, n):
    kind = rnd.randint(0, 4)
    edges = set()
    nodes = list(range(1, n + 1))
    rnd.shuffle(nodes)
    # spanning tree first (connected), then extras depending on kind
    for i in range(1, n):
        edges.add(frozenset((nodes[i], nodes[rnd.randrange(0, i)] if kind != 1 else nodes[i - 1])))
    extra = {0: 0, 1: 1 if n > 2 else 0, 2: n // 3, 3: n, 4: rnd.randint(0, 2 * n)}[kind]
    for _ in range(extra if n >= 2 else 0):
        u, v = rnd.sample(range(1, n + 1), 2)
        edges.add(frozenset((u, v)))
    return n, [sorted(e) for e in edges]


def bushy_tree(rnd):
    """a rooted tree whose sibling subtrees come from a small catalogue with repetition (so isomorphic siblings and one odd class out
    are common -- what symmetricLayout pairs off, centres and flips), numbered in random order so that the harness's index-derived node
    sizes differ between isomorphic copies; sometimes hung on a triangle so that the tree has a proper core"""
    SHAPES = ([], [[]], [[], []], [[], [], []], [[[]]], [[[], []]], [[], [[]]], [[[]], [[]]], [[[], []], []])
    def grow(depth):
        if depth == 0:
            return rnd.choice(SHAPES)
        kids = []
        cat = rnd.sample(SHAPES, rnd.randint(1, 3))
        for _ in range(rnd.randint(2, 5)):
            kids.append(rnd.choice(cat) if rnd.random() < 0.8 else grow(depth - 1))
        return kids
    tree = grow(rnd.randint(0, 1)) if rnd.random() < 0.7 else [grow(0) for _ in range(rnd.randint(3, 5))]
    edges = []
    cnt = [1]
    def number(t, me):
        for k in t:
            cnt[0] += 1
            c = cnt[0]
            edges.append((me, c))
            number(k, c)
    number(tree, 1)
    n = cnt[0]
    if rnd.random() < 0.3:
        edges += [(1, n + 1), (n + 1, n + 2), (n + 2, 1)]
        n += 2
    perm = list(range(1, n + 1))
    rnd.shuffle(perm)
    return n, [sorted((perm[a - 1], perm[b - 1])) for a, b in edges]


def main(tier):
    ev = V.Evidence(PID, tier)
    vd = V.Verdict(PID, ev)
    quick = tier == 'quick'
    hd, = V.build(['h_dialect'])
    d = V.rundir('c19')
    gn = 5 if quick else 6
    # design level: stripping leaves is confluent and ends in the 2-core, for every connected graph on gn nodes
    r = V.tlc(PT, cfg(d, 'design', 'DSpec', gn, ['Confluent', 'CoreHasNoLeaf']), env={'PEELRECS': '/dev/null'}, timeout=3000, mem='16g')
    ev.add_tlc('design: peeling is confluent (all connected graphs on %d nodes, all stripping orders)' % gn, r)
    if r.violated:
        raise V.Broken('Peel.tla design property fails: ' + r.out[-2000:])
    # B1: the same graphs replayed
    gf = os.path.join(d, 'graphs.json')
    V.tlc(PT, cfg(d, 'gen', 'GenSpec', gn, []), env={'PEELGEN': gf, 'PEELRECS': '/dev/null'}, workers=1, timeout=1500, mem='12g')
    graphs = json.load(open(gf))
    rnd = random.Random(V.seed())
    lines = ['%d %d %s' % (gn, len(g), ' '.join('%d %d' % (e[0], e[1]) for e in g)) for g in graphs]
    nrand = 1200 if quick else 6000
    for _ in range(nrand):
        n, es = random_graph(rnd, rnd.randint(2, 60))
        lines.append('%d %d %s' % (n, len(es), ' '.join('%d %d' % (e[0], e[1]) for e in es)))
    for _ in range(1000 if quick else 6000):
        n, es = bushy_tree(rnd)
        if 2 <= n <= 60:
            ws = rnd.choice([[4, 8, 20], [4, 40], [4, 4, 4, 60], [8, 12]])
            sizes = ' '.join('%d %d' % (rnd.choice(ws), rnd.choice([4, 8])) for _ in range(n))
            lines.append('%d %d %s %s' % (-n, len(es), ' '.join('%d %d' % (e[0], e[1]) for e in es), sizes))
    # disconnected graphs for the component clause
    for _ in range(nrand // 4):
        n1, e1 = random_graph(rnd, rnd.randint(1, 12))
        n2, e2 = random_graph(rnd, rnd.randint(1, 12))
        es = e1 + [[a + n1, b + n1] for a, b in e2]
        lines.append('%d %d %s' % (n1 + n2 + 1, len(es), ' '.join('%d %d' % (e[0], e[1]) for e in es)))      # plus one isolated node
    gt = os.path.join(d, 'graphs.txt')
    open(gt, 'w').write('\n'.join(lines) + '\n')
    rf = os.path.join(d, 'peel.json')
    rc, out = V.run([hd, 'peel', gt, rf], timeout=1800)
    if rc != 0:
        V.harness_exit('h_dialect:peel', rc, out)
    rr = V.tlc(PT, cfg(d, 'recs', 'Spec', 1, ['AllPartitions']), env={'PEELRECS': rf}, timeout=3000, cont=True, mem='16g')
    ev.add_tlc('Peel records: %d graphs (%d enumerated + random)' % (len(lines), len(graphs)), rr)
    recs = json.load(open(rf))['recs']
    nontriv = sum(v[0] for v in V.stat(rr.out, 'peel'))
    for inv, st in V.violating_states(rr):
        for (i, t) in st.get('bad', []):
            x = recs[i - 1]
            vd.violation('peel:' + t, '%s: n=%d edges=%s %s' % (t, x['n'], x['edges'][:40], x.get('what', '')[:200]), x if x['n'] <= 12 else {'n': x['n'], 'edges': x['edges']})
    # ---- second stage: planarisation of orthogonally routed graphs (Planar.tla)
    PL = os.path.join(SP, 'Planar.tla')
    U = 10                                   # input units per grid step of the generator's doubled grid
    pcfg = os.path.join(d, 'plgen.cfg')
    open(pcfg, 'w').write('SPECIFICATION GenSpec\nCONSTANTS\n GN = 3\n GMAXN = %d\n GMAXE = %d\nCHECK_DEADLOCK FALSE\n' % ((3, 3) if quick else (4, 3)))
    pgf = os.path.join(d, 'plgen.json')
    empty = os.path.join(d, 'empty.json')
    json.dump({'recs': [], 'chunk': 1, 'GU': 1, 'S': 1}, open(empty, 'w'))
    rg = V.tlc(PL, pcfg, env={'PLANARGEN': pgf, 'PLANARRECS': empty}, workers=1, timeout=1500, mem='12g')
    fam = json.load(open(pgf))
    plines = []
    def pline(nodes, edges):
        # nodes: [(x, y)] in grid units; edges: [(ui, vi, [(x, y)...])]
        return '%d %s %d %s' % (len(nodes), ' '.join('%d %d 8 8' % (x * U, y * U) for x, y in nodes), len(edges),
                                ' '.join('%d %d %d %s' % (u, v, len(rt), ' '.join('%d %d' % (x * U, y * U) for x, y in rt)) for u, v, rt in edges))
    chosen = fam if len(fam) <= (3000 if quick else 60000) else rnd.sample(fam, 3000 if quick else 60000)
    for g in chosen:
        nodes = [tuple(p) for p in g['nodes']]
        plines.append(pline(nodes, [(nodes.index(tuple(e[0][0])) + 1, nodes.index(tuple(e[0][1])) + 1, [tuple(p) for p in e[1]]) for e in g['edges']]))
    nenum = len(plines)
    # seeded random routed graphs: up to 40 nodes on a 12x12 doubled grid, straight/L/Z routes that stay clear of third nodes
    def on_seg(o, a, b):
        return (a[0] == b[0] == o[0] and min(a[1], b[1]) <= o[1] <= max(a[1], b[1])) or (a[1] == b[1] == o[1] and min(a[0], b[0]) <= o[0] <= max(a[0], b[0]))
    for _ in range(800 if quick else 5000):
        side = rnd.randint(3, 12)
        cells = [(2 * x, 2 * y) for x in range(side) for y in range(side)]
        nodes = rnd.sample(cells, min(len(cells), rnd.randint(2, 40)))
        edges, used = [], set()
        for _e in range(rnd.randint(1, 2 * len(nodes))):
            a, b = rnd.sample(range(len(nodes)), 2)
            if (min(a, b), max(a, b)) in used:
                continue
            p, q = nodes[a], nodes[b]
            cands = []
            if p[0] == q[0] or p[1] == q[1]:
                cands.append([p, q])
            else:
                cands += [[p, (q[0], p[1]), q], [p, (p[0], q[1]), q]]
                mx = rnd.randrange(min(p[0], q[0]), max(p[0], q[0]) + 1)       # Z-shapes through an odd or even intermediate line
                my = rnd.randrange(min(p[1], q[1]), max(p[1], q[1]) + 1)
                if mx not in (p[0], q[0]):
                    cands.append([p, (mx, p[1]), (mx, q[1]), q])
                if my not in (p[1], q[1]):
                    cands.append([p, (p[0], my), (q[0], my), q])
            rnd.shuffle(cands)
            for rt in cands:
                if all(not on_seg(o, rt[i], rt[i + 1]) for i in range(len(rt) - 1) for k, o in enumerate(nodes) if k not in (a, b)):
                    edges.append((a + 1, b + 1, rt)); used.add((min(a, b), max(a, b)))
                    break
        if edges:
            plines.append(pline(nodes, edges))
    # fine family: 32x32 nodes on a 40-unit grid, Z/L routes whose intermediate lines sit 2 units from the bends and lines of
    # other routes, so that crossings fall next to segment ends (all coordinates even: lattice step GU = 2 input units)
    flines = []
    def fline(nodes, edges):
        return '%d %s %d %s' % (len(nodes), ' '.join('%d %d 32 32' % (x, y) for x, y in nodes), len(edges),
                                ' '.join('%d %d %d %s' % (u, v, len(rt), ' '.join('%d %d' % (x, y) for x, y in rt)) for u, v, rt in edges))
    def seg_hits_box(a, b, c):      # closed segment a-b against the open 36x36 box around centre c
        lo = (min(a[0], b[0]), min(a[1], b[1])); hi = (max(a[0], b[0]), max(a[1], b[1]))
        return lo[0] < c[0] + 18 and hi[0] > c[0] - 18 and lo[1] < c[1] + 18 and hi[1] > c[1] - 18
    rnd_main, rnd = rnd, random.Random(20261005 if quick else 20261006)      # fixed seeds: the same family in every round
    for _ in range(400 if quick else 2500):
        cells = [(40 * x, 40 * y) for x in range(6) for y in range(6)]
        nodes = rnd.sample(cells, rnd.randint(3, 7))
        edges, used, xs, ys = [], set(), [], []
        for _e in range(rnd.randint(2, 6)):
            a, b = rnd.sample(range(len(nodes)), 2)
            if (min(a, b), max(a, b)) in used:
                continue
            p, q = nodes[a], nodes[b]
            cands = []
            if p[0] == q[0] or p[1] == q[1]:
                cands.append([p, q])
            else:
                cands += [[p, (q[0], p[1]), q], [p, (p[0], q[1]), q]]
                for _k in range(3):
                    near_x = [x + dd for x in xs + [p[0], q[0]] for dd in (-2, 2)]
                    near_y = [y + dd for y in ys + [p[1], q[1]] for dd in (-2, 2)]
                    mx = rnd.choice(near_x) if rnd.random() < 0.7 else 2 * rnd.randrange(min(p[0], q[0]) // 2, max(p[0], q[0]) // 2 + 1)
                    my = rnd.choice(near_y) if rnd.random() < 0.7 else 2 * rnd.randrange(min(p[1], q[1]) // 2, max(p[1], q[1]) // 2 + 1)
                    if min(p[0], q[0]) < mx < max(p[0], q[0]):
                        cands.append([p, (mx, p[1]), (mx, q[1]), q])
                    if min(p[1], q[1]) < my < max(p[1], q[1]):
                        cands.append([p, (p[0], my), (q[0], my), q])
            rnd.shuffle(cands)
            for rt in cands:
                if all(not seg_hits_box(rt[i], rt[i + 1], o) for i in range(len(rt) - 1) for k, o in enumerate(nodes) if k not in (a, b)):
                    edges.append((a + 1, b + 1, rt)); used.add((min(a, b), max(a, b)))
                    xs += [pt_[0] for pt_ in rt[1:-1]]; ys += [pt_[1] for pt_ in rt[1:-1]]
                    break
        if len(edges) >= 2:
            flines.append(fline(nodes, edges))
    rnd = rnd_main
    pnontriv = 0
    for fam_name, fam_lines, fam_u in (('planar', plines, U), ('planarfine', flines, 2)):
        pt = os.path.join(d, fam_name + '.txt')
        open(pt, 'w').write('\n'.join(fam_lines) + '\n')
        prf = os.path.join(d, fam_name + '.json')
        rc, out = V.run([hd, 'planar', pt, prf], timeout=1800)
        if rc != 0:
            V.harness_exit('h_dialect:planar', rc, out)
        pdata = json.load(open(prf))
        pdata['GU'] = fam_u * pdata['S']
        json.dump(pdata, open(prf, 'w'))
        open(pcfg, 'w').write('SPECIFICATION Spec\nCONSTANTS\n GN = 1\n GMAXN = 1\n GMAXE = 1\nINVARIANT Planarised\nCHECK_DEADLOCK FALSE\n')
        rp = V.tlc(PL, pcfg, env={'PLANARRECS': prf, 'PLANARGEN': '/dev/null'}, timeout=3000, cont=True, mem='16g')
        ev.add_tlc('Planar records (%s): %d routed graphs' % (fam_name, len(fam_lines)), rp)
        pnontriv += sum(v[0] for v in V.stat(rp.out, 'planar'))
        for inv, st in V.violating_states(rp):
            for (i, t) in st.get('bad', []):
                x = pdata['recs'][i - 1]
                key = 'planar:' + t
                if t == 'assertion':
                    m = re.search(r'expression: (.*?)(\n| \||$)', x.get('what', ''))
                    key = 'planar:assertion:' + (re.sub(r'[^A-Za-z0-9_>!=<.()-]+', '', m.group(1))[:50] if m else '')
                vd.violation(key, '%s: nodes=%s routes=%s -> planar nodes=%s edges=%s %s' % (t, x['nodes'], [(e['u'], e['v'], e['pts']) for e in x['edges']][:12], x['pn'][:30], x['pe'][:40], x.get('what', '')[:200]),
                             x if x['n'] <= 10 else {'n': x['n'], 'nodes': x['nodes'], 'edges': x['edges']})
    ev.cov['planar_routed_graphs'] = len(plines) + len(flines)
    ev.cov['planar_fine_family'] = len(flines)
    ev.cov['planar_nontrivial'] = pnontriv
    ev.cov['evaluations'] = len(lines) + len(plines)
    ev.cov['distinct_nontrivial'] = nontriv + pnontriv
    ev.cov['traces_validated_against_impl'] = len(lines) + len(plines)
    ev.cov['rule'] = ('graphs = every simple connected graph on %d labelled nodes (TLC-enumerated, %d graphs) + %d seeded random connected graphs up to 60 nodes (trees, cycles with tails, sparse, dense) '
                      '+ disconnected unions for the component clause; non-trivial = non-empty core and at least one tree. Planarisation: every routed graph of <=%d nodes on a 3x3 grid with <=3 edges routed straight or as an L (TLC-enumerated, %d) '
                      '+ seeded random routed graphs (<=40 nodes, straight/L/Z routes, overlapping and crossing routes included); non-trivial = a new node of degree >= 3 (a crossing or a merge point)' % (gn, len(graphs), nrand, 3 if quick else 4, nenum))
    ev.sample({'n': recs[7]['n'], 'edges': recs[7]['edges'], 'core': recs[7].get('core'), 'trees': [t['g'] for t in recs[7].get('trees', [])]})
    ev.assumptions = ['routes handed to the planariser are given directly (grid routes), not produced by LeaflessOrthoRouter; route corners and segments stay clear of third nodes']
    rc2 = vd.finish()
    ev.write()
    return rc2
