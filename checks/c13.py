"""C13: topology-preserving layout steps never pull an edge through a node."""
import json, os, random, re
import vcheck as V

PID = 'C13'
TT = os.path.join(V.SPEC, 'topology', 'Topology.tla')


def seg_hits_rect(p, q, r):
    # generator rule only: closed segment vs closed rectangle grown by 1, decided exactly (Liang-Barsky clipping; a sampled test
    # missed segments that clip a corner over less than the sampling distance and produced invalid scenes)
    x0, y0, x1, y1 = r[0] - 1, r[1] - 1, r[0] + r[2] + 1, r[1] + r[3] + 1
    dx, dy = q[0] - p[0], q[1] - p[1]
    t0, t1 = 0.0, 1.0
    for d, lo, hi in ((dx, x0 - p[0], x1 - p[0]), (dy, y0 - p[1], y1 - p[1])):
        if d == 0:
            if lo > 0 or hi < 0:
                return False
        else:
            a, b = lo / d, hi / d
            if a > b:
                a, b = b, a
            t0, t1 = max(t0, a), min(t1, b)
            if t0 > t1:
                return False
    return True


def gen_scene(rnd):
    cols, rows = rnd.randint(2, 3), rnd.randint(2, 3)
    nodes = []
    for c in range(cols):
        for r in range(rows):
            w, h = rnd.choice([16, 24, 30]), rnd.choice([12, 20, 26])
            nodes.append([60 * c + rnd.randint(0, 14), 50 * r + rnd.randint(0, 10), w, h])
    n = len(nodes)
    ctr = lambda i: (nodes[i][0] + nodes[i][2] / 2.0, nodes[i][1] + nodes[i][3] / 2.0)
    edges = []
    for _ in range(rnd.randint(1, n)):
        u, v = rnd.sample(range(n), 2)
        if (u, v) in edges or (v, u) in edges:
            continue
        if any(k not in (u, v) and seg_hits_rect(ctr(u), ctr(v), nodes[k]) for k in range(n)):
            continue
        edges.append((u, v))
    drag = rnd.randrange(n)
    dx, dy = rnd.choice([(6, 0), (-6, 0), (0, 6), (0, -6), (5, 5), (-5, 4)])
    return nodes, edges, drag, rnd.randint(6, 14), dx, dy


def with_resize(sc, rnd):
    """after the drag, one node (mostly the dragged one: edges now bend round its corners) is resized about its centre"""
    nodes, edges, drag, steps, dx, dy = sc
    # single-axis drags: half of them keep ONE TopologyConstraints instance for all steps (re-solves after the desired positions moved)
    # (the harness can keep ONE TopologyConstraints instance over a drag and re-solve it after the desired positions moved, and drag a
    #  second node on it; neither is generated: libtopology builds a new instance for every move, nothing says a used instance may be
    #  re-targeted, and the unchanged tree trips its own assertions that way in about 1 of 2000 runs -- DESIGN 11, c13d)
    reuse = 0
    # ... and then a second node is dragged along the same axis, either way, on that same instance
    second = (-1, 0, 0)
    if rnd.random() < 0.4:
        # a second drag with a NEW instance per move (what ColaTopologyAddon does every iteration, where all nodes move):
        # another node, |steps2| moves by d2 along x (steps2 > 0) or y (steps2 < 0)
        other = rnd.choice([k for k in range(len(nodes)) if k != drag])
        second = (other, rnd.choice([1, -1]) * rnd.randint(4, 10), rnd.choice([6, -6, 5, -5]))
    if rnd.random() < 0.45:
        return sc + (-1, 0, 0, reuse) + second
    rz = drag if rnd.random() < 0.6 else rnd.randrange(len(nodes))
    w, h = nodes[rz][2], nodes[rz][3]
    rw = rnd.choice([w, w + 8, w + 24, max(4, w - 6)])
    rh = rnd.choice([h, h + 8, h + 24, max(4, h - 6)])
    if (rw, rh) == (w, h):
        rh = h + 16
    return sc + (rz, rw, rh, reuse) + second


def abutting_scene(rnd):
    """two nodes whose sides lie on one line (touching in one axis, apart in the other), an edge running through the gap between their
    facing corners, and one of them pushed towards the other across that edge: bends arrive on coincident corner positions"""
    sc = rnd.choice([2, 4, 5])                         # lattice scale
    w1, h1, w2, h2 = (rnd.choice([6, 10, 14]) * sc for _ in range(4))
    gap = rnd.choice([3, 4, 6]) * sc
    x = 20 * sc
    n1 = [x - w1, 30 * sc + h2 + gap, w1, h1]          # left of the line, lower
    n2 = [x, 30 * sc, w2, h2]                           # right of the line, upper
    # the edge A--B passes through the middle of the gap with positive slope: above n1's facing corner, below n2's
    gx, gy = x, n2[1] + h2 + gap / 2.0
    m = rnd.choice([0.4, 0.7, 1.0, 1.5])
    ta = w2 + rnd.choice([3, 6, 10]) * sc
    tb = w1 + rnd.choice([3, 6, 10]) * sc
    a = [int(round(gx + ta - sc)), int(round(gy + m * ta - sc)), 2 * sc, 2 * sc]
    b = [int(round(gx - tb - sc)), int(round(gy - m * tb - sc)), 2 * sc, 2 * sc]
    nodes = [a, b, n1, n2]
    edges = [(0, 1)]
    drag, dx, dy = (2, 0, -rnd.choice([2, 3]) * sc) if rnd.random() < 0.7 else (3, 0, rnd.choice([2, 3]) * sc)
    steps = rnd.randint(8, 16)
    if rnd.random() < 0.5:
        # one big move: the whole approach, the meeting of the corners and the sliding past happen inside one solve loop
        big = gap + rnd.choice([4, 8, 12]) * sc
        dy = -big if dy < 0 else big
        steps = rnd.randint(1, 3)
    # one of the 8 symmetries of the square, so that both axes and both directions are exercised
    t = rnd.randint(0, 7)
    M = 120 * sc
    def tr(nd):
        x0, y0, w, h = nd
        if t & 1: x0 = M - x0 - w
        if t & 2: y0 = M - y0 - h
        if t & 4: x0, y0, w, h = y0, x0, h, w
        return [x0, y0, w, h]
    if t & 1: dx = -dx
    if t & 2: dy = -dy
    if t & 4: dx, dy = dy, dx
    nodes = [tr(nd) for nd in nodes]
    ctr = lambda i: (nodes[i][0] + nodes[i][2] / 2.0, nodes[i][1] + nodes[i][3] / 2.0)
    if any(seg_hits_rect(ctr(0), ctr(1), nodes[k]) for k in (2, 3)):
        return None
    return nodes, edges, drag, steps, dx, dy


def wrapped_scene(rnd):
    """an edge that starts bent: S -> A.TL -> A.TR -> B.BL -> B.BR -> T, over node A and under node B (B to the right of A, its bottom a little
    below A's top).  B is raised exactly onto the line of A's top (four bends on one line), then A is dragged along that line under B --
    or B over A.  (The statement quantifies over initial routings tight round node corners; every other family starts straight.)"""
    k = rnd.choice([1, 2])
    aw, ah, bw, bh = (rnd.choice([20, 30, 40]) * k for _ in range(4))
    ax, ay = 100 * k, 60 * k
    gx = rnd.choice([30, 60, 90]) * k
    d = rnd.choice([4, 10, 16]) * k
    bx, by = ax + aw + gx, ay + ah - d
    s = [ax - 50 * k - 4, ay - 40 * k - 4, 8, 8]
    t = [bx + bw + 60 * k - 4, by + bh + 50 * k - 4, 8, 8]
    nodes = [s, t, [ax, ay, aw, ah], [bx, by, bw, bh]]
    edges = [(0, 1)]
    bends = [(0, 2, 3), (0, 2, 0), (0, 3, 2), (0, 3, 1)]
    raise_by = d if rnd.random() < 0.8 else d + rnd.choice([-2, 2]) * k          # mostly exactly onto the line
    if rnd.random() < 0.6:
        second = (2, rnd.randint(4, 12), rnd.choice([6, 10, 15]) * k)            # A slides to the right, under B
    else:
        second = (3, rnd.randint(4, 12), -rnd.choice([6, 10, 15]) * k)           # B slides to the left, over A
    return (nodes, edges, 3, 1, 0, raise_by, -1, 0, 0, 0) + second + (bends,)


def scene_row(sc):
    """the line h_topo reads for a scene (the one place that knows the format)"""
    nodes, edges, drag, steps, dx, dy, rz, rw, rh, reuse, drag2, steps2, d2 = sc[:13]
    bends = sc[13] if len(sc) > 13 else []
    row = [len(nodes)] + [v for nd in nodes for v in nd] + [len(edges)] + [v for e in edges for v in e] + [drag, steps, dx, dy, rz, rw, rh, reuse, drag2, steps2, d2]
    row += [len(bends)] + [v for b in bends for v in b]
    return ' '.join(map(str, row))


def squeezed_between_abutting_nodes(states):
    """naming only (known-finding fingerprint): in the last recorded state some path runs from a corner of one node to a corner of
    another node along a line that carries a side of both, the two nodes lying on opposite sides of it (zero-width gap)"""
    if not states:
        return False
    st = states[-1]
    rects = st['nodes']
    for path in st['paths']:
        for p, q in zip(path, path[1:]):
            if p[0] == q[0] or p[1] == 4 or q[1] == 4:
                continue
            a, b = rects[p[0]], rects[q[0]]
            for ax in (0, 1):                      # ax = 1: horizontal line y = const; ax = 0: vertical line x = const
                c = p[2 + ax]
                if c != q[2 + ax]:
                    continue
                lo_a, hi_a, lo_b, hi_b = a[ax], a[ax + 2], b[ax], b[ax + 2]
                if (hi_a == c and lo_b == c) or (hi_b == c and lo_a == c):
                    return True
    return False


def runs_along_a_side_in_line(states):
    """naming only (known-finding fingerprint): in the last recorded state some path has three consecutive points exactly on one
    vertical or horizontal line, two of them neighbouring corners of ONE node -- the path runs exactly along that node's side and
    straight on to (or from) the next point"""
    if not states:
        return False
    for path in states[-1]['paths']:
        for a, b, c in zip(path, path[1:], path[2:]):
            for ax in (2, 3):
                if a[ax] == b[ax] == c[ax] and ((a[0] == b[0] and a[1] != 4 and b[1] != 4) or (b[0] == c[0] and b[1] != 4 and c[1] != 4)):
                    return True
    return False


def main(tier):
    ev = V.Evidence(PID, tier)
    vd = V.Verdict(PID, ev)
    quick = tier == 'quick'
    ht, = V.build(['h_topo'])
    d = V.rundir('c13')
    rnd = random.Random(V.seed())
    scenes = [gen_scene(rnd) for _ in range(600 if quick else 4000)]
    for _ in range(600 if quick else 3000):
        sc = abutting_scene(rnd)
        if sc:
            scenes.append(sc)
    scenes = [with_resize(sc, rnd) for sc in scenes]
    scenes += [wrapped_scene(rnd) for _ in range(300 if quick else 2000)]
    sf = os.path.join(d, 'scenes.txt')
    with open(sf, 'w') as f:
        for sc in scenes:
            f.write(scene_row(sc) + '\n')
    of = os.path.join(d, 'topo.json')
    rc, out = V.run(['timeout', '1500', ht, 'run', sf, of], timeout=1600)
    if rc != 0:
        V.harness_exit('h_topo', rc, out)
    data = json.load(open(of))
    r = V.tlc(TT, os.path.join(V.SPEC, 'topology', 'Topology.cfg'), env={'TOPORECS': of}, timeout=3000, cont=True, mem='16g')
    ev.add_tlc('Topology: %d runs, %d recorded states' % (len(data['recs']), sum(len(x['states']) for x in data['recs'])), r)
    nontriv = sum(v[0] for v in V.stat(r.out, 'topo'))
    for inv, st in V.violating_states(r):
        for (i, t) in st.get('bad', []):
            x = data['recs'][i - 1]
            what = x.get('what', '')
            key = 'topology:' + t
            if t == 'exception':
                m = re.search(r'expression: (.*?)(\n| \||$)', what)
                ml = re.search(r'at line (\d+) of \S*/(\w+\.cpp)', what)
                key = ('assertion:' + re.sub(r'[^A-Za-z0-9_>!=<.()-]+', '', m.group(1))[:50] + ('@' + ml.group(2) if ml else '')) if m else 'exception:' + what[:40]
                if m and squeezed_between_abutting_nodes(x['states']):
                    fn = re.search(r'in: [^\n]*?(\w+)\(', what)
                    said = re.search(r'\| said: ([A-Za-z0-9 ]+)', what)         # the library's own explanation, without the case number
                    why = re.sub(r'[^a-z0-9]+', '-', re.sub(r': C\d+', '', said.group(1)).strip().lower()) if said else ''
                    key = 'topology:edge-in-the-zero-width-gap-between-abutting-nodes:assertion-in-' + (fn.group(1) if fn else 'unknown') + (':' + why if why else '')
                elif m and runs_along_a_side_in_line(x['states']):
                    fn = re.search(r'in: [^\n]*?(\w+)\(', what)
                    said = re.search(r'\| said: ([A-Za-z0-9 ]+)', what)
                    why = re.sub(r'[^a-z0-9]+', '-', re.sub(r': C\d+', '', said.group(1)).strip().lower()) if said else ''
                    key = 'topology:path-runs-exactly-along-a-node-side-in-line-with-the-next-point:assertion-in-' + (fn.group(1) if fn else 'unknown') + (':' + why if why else '')
            nodes, edges, drag, steps, dx, dy, rz, rw, rh, reuse, drag2, steps2, d2 = scenes[i - 1][:13]
            bends = scenes[i - 1][13] if len(scenes[i - 1]) > 13 else []
            vd.violation(key, '%s %s nodes(x,y,w,h)=%s edges=%s drag=%d by (%d,%d) x%d resize=%s' % (t, what[:150].replace('\n', ' '), nodes, edges, drag, dx, dy, steps, (rz, rw, rh) if rz >= 0 else None),
                         {'nodes': nodes, 'edges': edges, 'drag': drag, 'steps': steps, 'dx': dx, 'dy': dy, 'resize': [rz, rw, rh], 'one_instance': reuse, 'second_drag': [drag2, steps2, d2], 'initial_bends': bends, 'what': what})
    ev.cov['evaluations'] = sum(len(x['states']) for x in data['recs'])
    ev.cov['distinct_nontrivial'] = nontriv
    ev.cov['traces_validated_against_impl'] = len(data['recs'])
    ev.cov['rule'] = ('runs = jittered grids of 4..9 non-overlapping nodes, straight centre-to-centre edges that clear all other nodes, one node dragged 6..14 steps through the others (40%: then a second node dragged 4..10 steps, a new instance per move) under '
                      'ConstrainedFDLayout + ColaTopologyAddon with overlap avoidance; every state after every step is recorded; non-trivial = some edge acquired a bend')
    ev.sample({'scene': {'nodes': scenes[0][0], 'edges': scenes[0][1], 'drag': scenes[0][2]}, 'first_state': data['recs'][0]['states'][0]})
    ev.assumptions = ['lattice 1/16, nodes shrunk by 2 units for the interior test', 'motion between recorded steps is not observed; the side-of-node parity is compared between consecutive recorded states']
    rc2 = vd.finish()
    ev.write()
    return rc2
