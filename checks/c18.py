"""C18: constraint transforms commute with geometry; TGLF round-trips."""
import json, os, re
import vcheck as V

PID = 'C18'
SP = os.path.join(V.SPEC, 'dialect')
TF = ['ROTATE90CW', 'ROTATE90ACW', 'ROTATE180', 'FLIPV', 'FLIPH', 'FLIPMD', 'FLIPOD']
SD = ['EAST', 'SOUTH', 'WEST', 'NORTH', 'RIGHT', 'DOWN', 'LEFT', 'UP']


def main(tier):
    ev = V.Evidence(PID, tier)
    vd = V.Verdict(PID, ev)
    quick = tier == 'quick'
    hd, = V.build(['h_dialect'])
    d = V.rundir('c18')
    # design level: the eight placement maps form the symmetry group of the square
    r = V.tlc(os.path.join(SP, 'SepCo.tla'), os.path.join(SP, 'SepCoLemma.cfg'), env={'SEPCORECS': '/dev/null'}, timeout=900)
    ev.add_tlc('design: the maps T(k, .) on placements satisfy the relations of D4', r)
    if r.violated:
        raise V.Broken('SepCo lemma fails: the specification of the symmetries is inconsistent')
    tf = os.path.join(d, 'sepco.json')
    V.run([hd, 'sepco', tf], check=True, timeout=600)
    tab = json.load(open(tf))
    tab['compose'] = not quick
    json.dump(tab, open(tf, 'w'))
    r = V.tlc(os.path.join(SP, 'SepCo.tla'), os.path.join(SP, 'SepCo.cfg'), env={'SEPCORECS': tf}, timeout=3000, cont=True, mem='16g')
    ev.add_tlc('SepCo: %d table rows x 7 transforms%s x all placements of the window' % (len(tab['recs']), '' if quick else ' (+49 compositions)'), r)
    for inv, st in V.violating_states(r):
        for b in st.get('bad', []):
            i, t = b[0], b[1]
            row = tab['recs'][i - 1]
            name = t if isinstance(t, str) else t[0] if t[1] < 0 else '%s:%s' % (t[0], TF[t[1]])
            vd.violation('sepco:' + name, '%s for addSep(%s, %s, %s, gap sign/quarters %s): base=%s' %
                         (name, 'BDRY' if row['gt'] else 'CENTRE', SD[row['sd']], 'EQ' if row['st'] == 1 else 'INEQ', row['gap'], row['base']), row)
    rows = len(tab['recs'])
    # TGLF round trip
    n = 1500 if quick else 8000
    gf = os.path.join(d, 'tglf.json')
    V.run([hd, 'tglf', str(n), str(V.seed()), gf], check=True, timeout=1200)
    r2 = V.tlc(os.path.join(SP, 'Tglf.tla'), os.path.join(SP, 'Tglf.cfg'), env={'TGLFRECS': gf}, timeout=2400, cont=True)
    ev.add_tlc('Tglf: %d random graphs written and read back' % n, r2)
    recs = json.load(open(gf))['recs']
    nontriv = sum(v[0] for v in V.stat(r2.out, 'tglf'))
    for inv, st in V.violating_states(r2):
        for (i, t) in st.get('bad', []):
            x = recs[i - 1]
            vd.violation('tglf:' + t, '%s: %s' % (t, (x.get('what') or json.dumps(x.get('before')))[:500]), x)
    ev.cov['evaluations'] = rows * (7 + (0 if quick else 49)) + n
    ev.cov['distinct_nontrivial'] = rows * 7 + nontriv
    ev.cov['traces_validated_against_impl'] = rows + n
    ev.cov['exhaustive'] = True
    ev.cov['rule'] = ('table = 8 directions x {EQ, INEQ} x {CENTRE, BDRY} x gaps {+0, -0, 1, -1, 3} (160 rows), each with the 7 transforms%s, the 4-fold/2-fold powers, and the SepMatrix path under both '
                      'id orders with extraBdryGap 0|2 and the generated vpsc constraints; every row is checked against all placements of two sized nodes in a 9x9 window (4 size combinations each); '
                      'plus %d random graphs for the TGLF round trip; non-trivial = every table row and every graph with constraints' % ('' if quick else ' and their 49 compositions', n))
    ev.sample({'row': {k: tab['recs'][17][k] for k in ('sd', 'st', 'gt', 'gap', 'base')}, 'after_ROTATE90CW': tab['recs'][17]['tf'][0]})
    ev.assumptions = ['gaps are multiples of 1/4, sizes even: all comparisons exact', 'TGLF equivalence is on abstract graphs (ids, lattice geometry, edge routes, compiled constraints)']
    rc = vd.finish()
    ev.write()
    return rc
