"""C20: results are reproducible; routing and VPSC are independent of the frame."""
import json, os, random, re
import vcheck as V
from checks import route_common as RC
from checks import c03, layout_common as LC

PID = 'C20'
DT = os.path.join(V.SPEC, 'meta', 'Determinism.tla')
SYM = {1: 'rot90', 2: 'rot180', 3: 'rot270', 4: 'flip-x', 5: 'flip-y', 6: 'transpose', 7: 'anti-transpose'}


def main(tier):
    ev = V.Evidence(PID, tier)
    vd = V.Verdict(PID, ev)
    quick = tier == 'quick'
    hr, hv, hl = V.build(['h_route', 'h_vpsc', 'h_layout'])
    d = V.rundir('c20')
    rnd = random.Random(V.seed())
    recs = []
    # ---- routing scenes (as C03-C05: TLC-enumerated families + random scenes)
    fam = RC.gen_scenes(d, 10, 2, 2, poly=True)
    pts = fam['points']
    scenes = []
    for mode, sets in ((1, fam['scenes']), (0, fam['pscenes'])):
        for st in rnd.sample(sets, min(len(sets), 150 if quick else 1500)):
            shapes = [RC.rect_poly(r) for r in st] if mode == 1 else st
            free = [p for p in pts if not any(RC.in_closed_convex(p, poly) for poly in shapes)]
            conns = []
            for _ in range(rnd.randint(1, 3)):
                a, b = rnd.sample(free, 2)
                conns.append((a[0], a[1], 15, b[0], b[1], 15))
            scenes.append({'mode': mode, 'P': rnd.choice([0, 3, 10]) if mode == 0 else rnd.choice([1, 10]), 'buf': 0, 'opts': rnd.randint(0, 31) & ~1, 'shapes': shapes, 'conns': conns})
    for _ in range(200 if quick else 2500):
        s = c03.random_scene(rnd, rnd.randint(0, 1))
        s['opts'] &= ~1
        scenes.append(s)
    # two ends of different connectors inside one shape, on one horizontal or vertical line (ends inside shapes are in C03's quantifier)
    for _ in range(200 if quick else 2500):
        s = c03.random_scene(rnd, rnd.randint(0, 1))
        s['opts'] &= ~1
        boxes = [RC.poly_rect(sh) for sh in s['shapes'] if len(sh) == 4]
        boxes = [b for b in boxes if b[2] - b[0] >= 4 and b[3] - b[1] >= 2 or b[3] - b[1] >= 4 and b[2] - b[0] >= 2]
        if not boxes:
            continue
        b = rnd.choice(boxes)
        xs, ys = list(range(b[0] + 1, b[2], 2)), list(range(b[1] + 1, b[3], 2))
        if len(xs) >= 2 and (len(ys) < 2 or rnd.random() < 0.5):
            x1, x2 = rnd.sample(xs, 2); y = rnd.choice(ys); inside = [(x1, y), (x2, y)]
        elif len(ys) >= 2:
            y1, y2 = rnd.sample(ys, 2); x = rnd.choice(xs); inside = [(x, y1), (x, y2)]
        else:
            continue
        conns = list(s['conns'])
        while len(conns) < 2:
            conns.append(conns[0])
        for k in range(2):
            c = conns[k]
            conns[k] = (inside[k][0], inside[k][1], 15, c[3], c[4], 15)
        s['conns'] = conns
        scenes.append(s)
    # direction-restricted free endpoints (orthogonal mode): the masks turn with the scene
    for _ in range(200 if quick else 2500):
        s = c03.random_scene(rnd, 1)
        s['opts'] &= ~1
        masks = [1, 2, 4, 8, 3, 12, 5, 10, 15]
        s['conns'] = [(c[0], c[1], rnd.choice(masks), c[3], c[4], rnd.choice([15, 15] + masks)) for c in s['conns']]
        scenes.append(s)
    sf = os.path.join(d, 'scenes.txt')
    RC.write_scenes(sf, scenes)
    of = os.path.join(d, 'frame.json')
    # one harness process per restart: a scene in which the process dies (the known nudging defect F11 reads past a vector) is skipped
    skip, died = 0, 0
    while skip < len(scenes):
        rc, out = V.run(['timeout', '-s', 'KILL', '2400', hr, 'frame', sf, of, str(V.seed()), str(skip)], timeout=2500)
        got = 0
        for ln in open(of, errors='replace'):
            if ln.startswith(('{"mode"', ',{"mode"')):
                try:
                    x = json.loads(ln.lstrip(','))
                except ValueError:
                    break
                x['kind'] = 'route'
                recs.append(x)
                got += 1
        skip += got
        if rc == 0:
            break
        died += 1
        skip += 1
        if died > 50:
            raise V.Broken('h_route frame keeps dying: rc=%d %s' % (rc, out[-1000:]))
    ev.cov['scenes_in_which_the_process_died'] = died
    nroute = len(recs)
    # ---- VPSC histories
    fh = os.path.join(d, 'hist.txt')
    V.run([hv, 'gen', str(500 if quick else 15000), str(V.seed()), fh, 'hist'], check=True)
    fm = os.path.join(d, 'med.txt')
    V.run([hv, 'gen', str(300 if quick else 8000), str(V.seed() + 1), fm, 'med'], check=True)
    fd = os.path.join(d, 'dag.txt')
    V.run([hv, 'gen', str(2500 if quick else 40000), str(V.seed() + 2), fd, 'dag'], check=True)
    for src in (fh, fm, fd):
        ofv = src + '.json'
        rc, out = V.run([hv, 'repeat', src, ofv], timeout=1800, env={'VERIF_SEED': V.seed()})
        if rc != 0:
            V.harness_exit('h_vpsc:repeat', rc, out)
        recs += json.load(open(ofv))['recs']
    nvpsc = len(recs) - nroute
    # ---- layouts, run twice with heap churn and an unrelated layout in between
    cases = []
    for i in range(300 if quick else 3000):
        c = LC.gen_case(rnd, nmax=10)
        c['cons'] = [k for k in c['cons'] if k[0] != 6]          # (F31: fixed-relative conflicts may not terminate)
        c['flags'] = (c['flags'] | 16) & ~4
        cases.append(c)
    ofl, data = LC.run_cases(hl, d, 'layouts', cases, 'C20')
    for x in data['recs']:
        recs.append({'kind': 'layout', 'thrown': x['thrown'], 'repeatMaxDiffE9': x.get('repeatMaxDiffE9', 0), 'n': x['n'], 'flags': x['flags'], 'cons': x['cons'], 'init': x['init'], 'size': x['size']})
    rf = os.path.join(d, 'det_recs.json')
    json.dump({'chunk': 20, 'recs': recs}, open(rf, 'w'))
    r = V.tlc(DT, os.path.join(V.SPEC, 'meta', 'Determinism.cfg'), env={'DETRECS': rf}, timeout=3000, cont=True, mem='24g')
    ev.add_tlc('Determinism: %d routing scenes, %d VPSC histories, %d layouts' % (nroute, nvpsc, len(recs) - nroute - nvpsc), r)
    for inv, st in V.violating_states(r):
        for b in st.get('bad', []):
            i, t = b[0], b[1]
            x = recs[i - 1]
            if not isinstance(t, str) and t[1] == -1:
                t = t[0]
            name = t if isinstance(t, str) else '%s:%s' % (t[0], SYM.get(t[1], t[1]))
            if x['kind'] == 'route':
                brief = {k: x[k] for k in ('mode', 'P', 'buf', 'opts', 'shapes', 'kx', 'ky')}
                brief['scene_index'] = i - 1
                brief['rawA_lattice'] = x['latA']
            else:
                brief = {k: v for k, v in x.items() if k not in ('A', 'B')}
            key = '%s:%s' % (x['kind'], name)
            if not isinstance(t, str) and t[0].endswith((':an-end-lies-on-a-shape-boundary', ':direction-restricted-end', ':only-the-bend-count-differs', ':scene-with-a-direction-restricted-end', ':buffered-shape-with-slanted-sides')):
                key = 'route:' + t[0]                      # one class whatever the symmetry
            vd.violation(key, '%s: %s' % (name, json.dumps(brief)[:700]), brief)
    ev.cov['evaluations'] = len(recs)
    ev.cov['distinct_nontrivial'] = sum(1 for x in recs if x['kind'] != 'route' or any(len(q) > 2 for q in x.get('latA', [])))
    ev.cov['traces_validated_against_impl'] = len(recs)
    ev.cov['rule'] = ('records = (A, noise, B, translated, 7 symmetric copies) for routing scenes (TLC-enumerated families + seeded random, both modes, nudging options); (A, noise, B, translated) for '
                      'VPSC re-solve histories; (A, heap churn + unrelated layout, B) for constrained layouts; translation offsets k*2^-10 with |k| <= 2^14; non-trivial = route with a bend / any solver or layout record')
    ev.sample({'kind': 'route', 'kx': recs[0]['kx'], 'ky': recs[0]['ky'], 'latA': recs[0]['latA'], 'latT': recs[0]['latT']})
    ev.assumptions = ['same process; the option that moves endpoints (F13) is switched off here', 'VPSC independence of ids/order: relabelled, shuffled copies of acyclic inequality systems, both solvers (1e-6); also decided against the oracle optimum in C02']
    rc = vd.finish()
    ev.write()
    return rc
