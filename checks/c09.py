"""C09: removeoverlaps leaves no overlap, changes no size, keeps fixed rectangles, restores borders;
generated constraint sets are acyclic and force separation."""
import json, os, re
import vcheck as V

PID = 'C09'
SPT = os.path.join(V.SPEC, 'vpsc', 'RemoveOverlaps.tla')


def cfg(d, name, spec, g2, g3, inv=True):
    p = os.path.join(d, name + '.cfg')
    with open(p, 'w') as f:
        f.write('SPECIFICATION %s\nCONSTANTS\n G2 = %d\n G3 = %d\n%sCHECK_DEADLOCK FALSE\n' % (spec, g2, g3, 'INVARIANT AllClean\n' if inv else ''))
    return p


def main(tier):
    ev = V.Evidence(PID, tier)
    vd = V.Verdict(PID, ev)
    quick = tier == 'quick'
    hr, = V.build(['h_rect'])
    d = V.rundir('c09')
    g2, g3 = (4, 3) if quick else (6, 4)
    gfile = os.path.join(d, 'sets.json')
    V.tlc(SPT, cfg(d, 'gen', 'GenSpec', g2, g3, inv=False), env={'ROGEN': gfile, 'RORECS': '/dev/null'}, workers=1, timeout=1500, mem='12g')
    pairs, triples = json.load(open(gfile))
    with open(os.path.join(d, 'enum.txt'), 'w') as f:
        for k, st in enumerate(pairs + triples):
            bx, by = ((1, 0) if k % 7 == 3 else (0, 1) if k % 7 == 5 else (0, 0))      # some sets with non-zero initial borders
            f.write('%d %d %d %s\n' % (len(st), bx, by, ' '.join(' '.join(map(str, r)) for r in st)))
    V.run([hr, 'gen', str(400 if quick else 6000), str(V.seed()), os.path.join(d, 'rand.txt'), '10'], check=True)
    V.run([hr, 'gen', str(60 if quick else 1500), str(V.seed() + 3), os.path.join(d, 'big.txt'), '30'], check=True)
    # "up to hundreds of rectangles": 100..300 (quick) / 100..400 (thorough) rectangles, results of removeoverlaps only
    V.run([hr, 'gen', str(12 if quick else 200), str(V.seed() + 5), os.path.join(d, 'huge.txt'), '300' if quick else '400', '100'], check=True)
    total = nontriv = runs = 0
    for name, chunk in (('enum', 100), ('rand', 10), ('big', 4), ('huge', 1)):
        rf = os.path.join(d, name + '.json')
        rc, out = V.run([hr, 'recs', os.path.join(d, name + '.txt'), rf, str(chunk)] + (['nogen'] if name == 'huge' else []), timeout=1800, env={'VERIF_SEED': V.seed()})
        if rc != 0:
            V.harness_exit('h_rect:' + name, rc, out)
        r = V.tlc(SPT, cfg(d, 'recs', 'Spec', 2, 2), env={'RORECS': rf}, timeout=3000, cont=True, mem='16g')
        ev.add_tlc('records %s' % name, r)
        recs = json.load(open(rf))['recs']
        total += len(recs)
        runs += sum(len(x['runs']) for x in recs)
        nontriv += sum(v[0] for v in V.stat(r.out, 'ro'))
        ev.sample({'set': name, 'rects_doubled': recs[len(recs) // 2]['rin2'][:6], 'first_run': {k: v for k, v in recs[len(recs) // 2]['runs'][0].items() if k != 'out'}})
        for inv, st in V.violating_states(r):
            for b in st.get('bad', []):
                i, t = b[0], b[1]
                rec = recs[i - 1]
                if isinstance(t, list) and t[0] > 0:
                    j, tag = t
                    run = rec['runs'][j - 1]
                    key = {'fixed-moved:chain-between-two-fixed': 'removeoverlaps:fixed:chain-between-two-fixed', 'fixed-moved:long-chain-outweighs-fixed': 'removeoverlaps:fixed:long-chain-outweighs-fixed'}.get(tag, 'removeoverlaps:' + tag)
                    vd.violation(key, '%s: rects(x2)=%s border2=%s fixed=%s third=%s' % (tag, rec['rin2'], rec['b2'], run['fixed'], run['third']),
                                 {'rects_doubled': rec['rin2'], 'b2': rec['b2'], 'run': run})
                else:
                    t = t[1] if isinstance(t, list) else t
                    vd.violation('generator:' + t, '%s: rects(x2)=%s border2=%s cx=%s cy=%s' % (t, rec['rin2'], rec['b2'], rec['cx'], rec['cy']),
                                 {'rects_doubled': rec['rin2'], 'b2': rec['b2'], 'cx': rec['cx'], 'cxn': rec['cxn'], 'cy': rec['cy']})
        os.remove(rf)
    ev.cov['evaluations'] = runs
    ev.cov['rectangle_sets'] = total
    ev.cov['distinct_nontrivial'] = nontriv
    ev.cov['traces_validated_against_impl'] = runs
    ev.cov['rule'] = ('rectangle sets = every multiset of 2 rectangles with corners on a %dx%d grid and of 3 on a %dx%d grid (TLC-enumerated; identical, nested, thin, touching) '
                      '+ seeded random sets up to 30 rectangles (identical, chains, thin) + sets of 100..%d rectangles (results only, no fixed subset); runs = set x fixed subset (all for n<=3) x thirdPass; '
                      'non-trivial = sets with an overlapping pair at entry, counted by TLC' % (g2, g2, g3, g3, 300 if quick else 400))
    ev.assumptions = ['output geometry observed on a 2^-20 lattice: overlaps below 3e-6 are not detected',
                      'the fixed-rectangle clause is evaluated only when the fixed rectangles are pairwise disjoint at entry',
                      'generator clause: X constraints with neighbour lists are only required to be acyclic (they leave some pairs to the Y pass by design)',
                      'sets of 100 and more rectangles: the generator clause (all-pairs longest paths) and the fixed-rectangle clause are not evaluated, they are decided on the sets of up to 30']
    rc = vd.finish()
    ev.write()
    return rc
