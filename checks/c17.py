"""C17: shortest paths (dijkstra, johnsons, floyd_warshall) and the layout distance matrix are exact."""
import json, os, re
import vcheck as V
from checks import heap

PID = 'C17'
SPT = os.path.join(V.SPEC, 'cola', 'ShortestPaths.tla')


def cfg(d, name, spec, gn, gk, inv=True):
    p = os.path.join(d, name + '.cfg')
    with open(p, 'w') as f:
        f.write('SPECIFICATION %s\nCONSTANTS\n GN = %d\n GK = %d\n%sCHECK_DEADLOCK FALSE\n' % (spec, gn, gk, 'INVARIANT AllExact\n' if inv else ''))
    return p


def flatten(graphs, path):
    with open(path, 'w') as f:
        for g in graphs:
            row = [g['n'], len(g['edges'])]
            for e in g['edges']:
                row += list(e)
            f.write(' '.join(map(str, row)) + '\n')


def main(tier):
    ev = V.Evidence(PID, tier)
    vd = V.Verdict(PID, ev)
    quick = tier == 'quick'
    hs, = V.build(['h_sp'])
    d = V.rundir('c17')
    # design level: the O(nm) certificate accepts exactly the Bellman-Ford distances on all small multigraphs
    gn, gk = (3, 3) if quick else (4, 3)
    r = V.tlc(SPT, cfg(d, 'lemma', 'LemSpec', gn, gk), env={'SPRECS': '/dev/null'}, timeout=2400)
    ev.add_tlc('design: certificate == Bellman-Ford on all multigraphs n=%d, <=%d edges (weights 0,1/2,1,3)' % (gn, gk), r)
    if r.violated:
        raise V.Broken('ShortestPaths lemma fails: the certificate oracle is inconsistent with Bellman-Ford\n' + r.out[-3000:])
    # B1: exhaustive small multigraphs from TLC
    gn2, gk2 = (4, 3) if quick else (4, 4)
    gfile = os.path.join(d, 'graphs.json')
    V.tlc(SPT, cfg(d, 'gen', 'GenSpec', gn2, gk2, inv=False), env={'SPGEN': gfile, 'SPRECS': '/dev/null'}, workers=1, timeout=1200, mem='12g')
    graphs = json.load(open(gfile))
    flatten(graphs, os.path.join(d, 'enum.txt'))
    nrand = 300 if quick else 3000
    V.run([hs, 'gen', str(nrand), str(V.seed()), os.path.join(d, 'rand.txt'), '40'], check=True)
    V.run([hs, 'gen', str(30 if quick else 120), str(V.seed() + 7), os.path.join(d, 'big.txt'), '100' if quick else '200'], check=True)
    # the result matrices of big graphs are large: at most 30 graphs per record file (TLC parses the file once per worker)
    big = open(os.path.join(d, 'big.txt')).read().splitlines()
    parts = []
    for i in range(0, len(big), 30):
        nm = 'big%d' % (i // 30)
        open(os.path.join(d, nm + '.txt'), 'w').write('\n'.join(big[i:i + 30]) + '\n')
        parts.append((nm, 1))
    total = nontriv = special = 0
    for name, chunk in [('enum', 200), ('rand', 10)] + parts:
        rf = os.path.join(d, name + '.json')
        rc, out = V.run([hs, 'recs', os.path.join(d, name + '.txt'), rf, str(chunk)], timeout=1800)
        if rc != 0:
            V.harness_exit('h_sp:' + name, rc, out)
        r = V.tlc(SPT, cfg(d, 'recs', 'Spec', 1, 0), env={'SPRECS': rf}, timeout=3000, cont=True, mem='24g', workers=8 if name.startswith('big') else None)
        ev.add_tlc('records %s' % name, r)
        recs = json.load(open(rf))['recs']
        total += len(recs)
        for v in V.stat(r.out, 'sp'):
            nontriv += v[0]
            special += v[1]
        ev.sample({'set': name, 'n': recs[-1]['n'], 'edges': recs[-1]['edges'][:12], 'johnsons_row1': recs[-1]['john'][:recs[-1]['n']]})
        for inv, st in V.violating_states(r):
            for (i, t) in st.get('bad', []):
                rec = recs[i - 1]
                small = {k: rec[k] for k in ('n', 'edges')} if rec['n'] <= 8 else {'n': rec['n'], 'edges': len(rec['edges'])}
                vd.violation('sp:' + t, '%s wrong on %s' % (t, json.dumps(small)), rec if rec['n'] <= 12 else small)
        os.remove(rf)
    ev.cov['evaluations'] = total
    ev.cov['distinct_nontrivial'] = nontriv
    ev.cov['with_selfloop_parallel_or_disconnected'] = special
    ev.cov['traces_validated_against_impl'] = total
    ev.cov['rule'] = ('records = graphs run through dijkstra (every source), johnsons, floyd_warshall and ConstrainedFDLayout::readLinearD/G; '
                      'graphs = every multigraph on %d nodes with <= %d edges from the pool (pairs incl. self-loops) x weights {0,1/2,1,3} (TLC-enumerated) '
                      '+ %d seeded random graphs n<=40 + larger ones (certificate form); non-trivial = has a non-loop edge, counted by TLC' % (gn2, gk2, nrand))
    ev.cov['exhaustive'] = False
    ev.cov['beyond_statement'] = ('every record also carries cola::connectedComponents / separateComponents on the same graph (rectangles of mixed sizes on a '
                                  '6-column grid): ComponentsOK = components partition the nodes, each is the reachability class of its first node, every edge '
                                  're-indexed into exactly one component with multiplicity, rects[] parallel to node_ids[]; SeparateOK = rigid motion per component, '
                                  'bounding boxes disjoint afterwards, Rectangle::xBorder/yBorder restored (tags components / separate-components)')
    ev.assumptions = ['weights are multiples of 1/8 so every sum is exact in doubles; equality is exact, stricter than the 1e-9 of the statement',
                      'G diagonal not specified (a self-loop sets it to 1)']
    # beyond the statement: the priority queue under Dijkstra (and under VPSC's constraint heaps), Heap.tla / HeapTrace.tla
    heap.stage(ev, vd, V.rundir('heap'), quick)
    rc = vd.finish()
    ev.write()
    return rc
