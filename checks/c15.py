"""C15: no memory error, UB, failed assertion or leak on valid use (object-level protocol + sanitizer replay)."""
import json, os, random, re
import vcheck as V
from checks import life_common as LC

PID = 'C15'


def other_libraries(ev, vd, d, quick, rnd):
    """the solver, layout, topology and graph libraries under the same sanitizers: the harnesses of their own properties, built with
    ASan+UBSan+LSan, on seeded inputs of those properties' generators (build, use, tear down; many objects per process)"""
    from checks import layout_common as LAY
    from checks import c13, c19
    hv, hl, hd, ht, hh, hsp = V.build(['h_vpsc', 'h_layout', 'h_dialect', 'h_topo', 'h_heap', 'h_sp'], cfg='san')
    env = {'ASAN_OPTIONS': 'detect_leaks=1:abort_on_error=0:exitcode=23', 'UBSAN_OPTIONS': 'print_stacktrace=1:halt_on_error=1'}
    jobs = []
    f = os.path.join(d, 'o_vpsc.txt')
    V.run([hv, 'gen', str(150 if quick else 2000), str(V.seed() + 11), f, 'hist'], check=True, env=env)
    jobs.append(('libvpsc', [hv, 'recs', f, f + '.json']))
    f = os.path.join(d, 'o_sp.txt')
    V.run([hsp, 'gen', str(40 if quick else 400), str(V.seed() + 12), f, '30'], check=True, env=env)
    jobs.append(('libcola:shortest-paths', [hsp, 'recs', f, f + '.json', '10']))
    cases = [LAY.gen_case(rnd, nmax=8) for _ in range(25 if quick else 400)] + [LAY.gen_case(rnd, want_overlap=True, clusters=True, nmax=8) for _ in range(10 if quick else 150)]
    for c in cases:
        c['flags'] &= ~16
    f = os.path.join(d, 'o_layout.txt')
    LAY.write_cases(f, cases)
    jobs.append(('libcola:layout', [hl, 'run', f, f + '.json', '20', '0']))
    scenes = [c13.with_resize(c13.gen_scene(rnd), rnd) for _ in range(15 if quick else 300)] + [c13.wrapped_scene(rnd) for _ in range(5 if quick else 100)]
    f = os.path.join(d, 'o_topo.txt')
    with open(f, 'w') as fh:
        for sc in scenes:
            fh.write(c13.scene_row(sc) + '\n')
    jobs.append(('libtopology', [ht, 'run', f, f + '.json']))
    graphs = [c19.random_graph(rnd, rnd.randint(2, 25)) for _ in range(60 if quick else 1500)]
    f = os.path.join(d, 'o_peel.txt')
    open(f, 'w').write(''.join('%d %d %s\n' % (n, len(es), ' '.join('%d %d' % (e[0], e[1]) for e in es)) for n, es in graphs))
    jobs.append(('libdialect:peel', [hd, 'peel', f, f + '.json']))
    f = os.path.join(d, 'o_hola.txt')
    with open(f, 'w') as fh:
        for n, es in [c19.random_graph(rnd, rnd.randint(2, 12)) for _ in range(10 if quick else 150)]:
            row = [n] + [v for i in range(n) for v in (rnd.choice([10, 20, 30]), rnd.choice([10, 20]), rnd.randint(0, 200), rnd.randint(0, 200))] + [len(es)] + [v for e in es for v in e] + [rnd.randint(0, 7)]
            fh.write(' '.join(map(str, row)) + '\n')
    jobs.append(('libdialect:hola', [hd, 'hola', f, f + '.json', '0', '0']))
    ran = {}
    for lib, cmd in jobs:
        rc, out = V.run(['timeout', '-s', 'KILL', '1500'] + cmd, timeout=1600, env=env)
        ran[lib] = rc
        kind, frame = LC.san_kind(LC._report(out)) if rc != 0 or 'runtime error:' in out or 'Sanitizer' in out else (None, None)
        if kind == 'lsan:leak':
            # one finding per allocation site (the first library frame of each leak record), not per run
            sites = {}
            for blk in re.split(r'\n(?=(?:Direct|Indirect) leak of )', out):
                if not blk.startswith('Direct leak'):
                    continue
                fr = re.findall(r'#\d+ 0x[0-9a-f]+ in ((?:vpsc|cola|topology|dialect|Avoid|straightener|shortest_paths)::[A-Za-z_:~]+)', blk)
                site = fr[0] if fr else 'harness-or-unknown'
                sites.setdefault(site, blk[:700])
            for site, blk in sorted(sites.items()):
                vd.violation('lsan:leak:%s:%s' % (site, lib), '%s leaks memory allocated in %s: %s' % (lib, site, blk[:400].replace('\n', ' | ')), {'library': lib, 'cmd': cmd[1:], 'report': blk})
        elif kind:
            fr = re.findall(r'#\d+ 0x[0-9a-f]+ in ((?:vpsc|cola|topology|dialect|Avoid|straightener|shortest_paths)::[A-Za-z_:~<>]+)', out)
            vd.violation('%s:%s:%s' % (kind, fr[0] if fr else frame, lib), '%s under the sanitizers: %s' % (lib, LC._report(out)[:400].replace('\n', ' | ')), {'library': lib, 'cmd': cmd[1:], 'report': LC._report(out)[:3000]})
        elif rc != 0:
            vd.violation('process-died:%s' % lib, '%s harness died rc=%d under the sanitizers: %s' % (lib, rc, out[-400:].replace('\n', ' | ')), {'library': lib, 'rc': rc, 'tail': out[-2000:]})
    ev.cov['other_libraries_under_sanitizers'] = ran


def main(tier):
    ev = V.Evidence(PID, tier)
    vd = V.Verdict(PID, ev)
    quick = tier == 'quick'
    d = V.rundir('c15')
    # design level: the ownership protocol never leaves a reference to a freed object
    cfg = os.path.join(d, 'life.cfg')
    open(cfg, 'w').write('SPECIFICATION Spec\nCONSTANTS\n ShapeIds = {1, 2}\n JuncIds = {11}\n ConnIds = {21, 22}\n HLEN = %d\n'
                         'INVARIANTS NoDanglingEnd PinsHaveShapes NothingPendingWithoutTxn\nVIEW View\nCHECK_DEADLOCK FALSE\n' % (4 if quick else 6))
    r = V.tlc(os.path.join(LC.SP, 'Lifecycle.tla'), cfg, timeout=3000, mem='24g')
    ev.add_tlc('design: Lifecycle protocol, all legal histories to depth %d' % (4 if quick else 6), r)
    if r.violated:
        vd.violation('design:' + r.violated[0], 'Lifecycle.tla violates %s' % r.violated[0], {'tail': r.out[-4000:]})
    n = 1500 if quick else 5000
    hists, rg = LC.gen_histories(d, n, 16 if quick else 20, V.seed())
    ev.add_tlc('history generation (simulation of Lifecycle)', rg)
    rnd = random.Random(V.seed())
    # three quarters of the histories that would destroy the router with actions still queued (the known finding F10 ends those
    # executions at once) get a final processTransaction(): Process is enabled in Lifecycle whenever transactions are on
    for h in hists:
        txn_on = True
        for o in h:
            if o[0] == 14:
                txn_on = bool(o[1])
        if txn_on and h and h[-1][0] != 13 and rnd.random() < 0.75:
            h.append([13])
    # hyperedge scenarios of C12 (junctions of degree 4..5 with shared paths, both improvement options, registration by junction and by
    # terminal list, follow-up transactions): the hyperedge code needs more connectors on a junction than the protocol model's three.
    # They run under the sanitizers only (their calls are outside Lifecycle's alphabet, so they are not trace-validated here).
    from checks import c12 as C12
    scs = json.load(open(os.path.join(V.BUILD, 'run', 'c12', 'scen.json'))) if os.path.exists(os.path.join(V.BUILD, 'run', 'c12', 'scen.json')) else None
    if scs is None:
        d12 = V.rundir('c12gen')
        cfg12 = os.path.join(d12, 'gen.cfg')
        open(cfg12, 'w').write('SPECIFICATION GenSpec\nCHECK_DEADLOCK FALSE\n')
        V.tlc(C12.HT, cfg12, env={'HYPERGEN': os.path.join(d12, 'scen.json'), 'HYPERRECS': '/dev/null'}, workers=1, timeout=600)
        scs = json.load(open(os.path.join(d12, 'scen.json')))
    pick = rnd.sample(scs, min(len(scs), 120 if quick else 1200))
    nproto = len(hists)
    forced = {}
    for sc in pick:
        forced[len(hists)] = (1, sc['opts'])
        hists.append(C12.scenario_ops(sc, rnd))
    scen = os.path.join(d, 'scen.txt')
    cfgs = LC.write_scenarios(scen, hists, rnd, forced=forced)
    # ---- sanitizer replay (ASan + UBSan + LSan): what a TLA+ specification cannot see
    hs, = V.build(['h_life'], cfg='san')
    env = {'ASAN_OPTIONS': 'detect_leaks=1:abort_on_error=0:exitcode=23', 'UBSAN_OPTIONS': 'print_stacktrace=1:halt_on_error=1'}
    execs, crashes = LC.run_harness(hs, scen, os.path.join(d, 'san.ndjson'), len(hists), timeout=1500, env=env)
    good = []
    for ex in execs:
        ops = hists[ex['index']]
        mode, opts = cfgs[ex['index']]
        pc = LC.precondition_class(ops)
        if 'txn-off' in pc:
            pc = 'txn-off'            # with transactions off every call processes at once (re-entrantly, too): one class whatever else the history has
        txnoff = ':txn-off' if 'txn-off' in pc else ''
        # actions still queued when the router is destroyed (transactions on, something after the last processTransaction)
        txn_on, queued = True, False
        for o in ops:
            if o[0] == 13:
                queued = False
            elif o[0] == 14:
                txn_on = bool(o[1])
            elif o[0] not in (2, 5, 12):
                queued = txn_on          # with transactions off the call processes everything queued so far
        pending = queued
        errs = [json.loads(l) for l in ex['lines'] if '"error"' in l]
        if errs:
            e = errs[0]['error']
            m = re.search(r'expression: (.*?)(\n| \||$)', e)
            key = ('assertion:' + re.sub(r'[^A-Za-z0-9_>!=<-]+', '', m.group(1))[:60]) if m else 'exception:' + e[:40]
            vd.violation(key + txnoff, '%s | mode=%d opts=%d ops=%s' % (e[:200], mode, opts, ops), {'mode': mode, 'opts': opts, 'ops': ops, 'error': e})
        elif ex['end']['e'] == 'Crash' or not ex['end'].get('ok', False):
            txt = crashes.get(ex['index'], '')
            kind, frame = LC.san_kind(txt)
            if kind:
                key = '%s:%s:%s' % (kind, frame, pc)
                what = txt[txt.find('ERROR'):][:300] if 'ERROR' in txt else txt[-300:]
            else:
                m = re.search(r"Assertion `([^']*)' failed|expression: (.*)", txt)
                what = ex['end'].get('error', ex['end'].get('what', '')) or ''
                m2 = re.search(r'expression: (.*?)(\n| \||$)', what)
                ml = re.search(r'at line (\d+) of \S*/(\w+\.cpp)', what)
                key = ('terminate:' + (re.sub(r'[^A-Za-z0-9_>!=<.()-]+', '', m2.group(1))[:60] + ('@' + ml.group(2) + ':' + ml.group(1) if ml else '') if m2 else what[:40])) + ':' + pc
            if pending and 'visGraph.size()==0' in key:
                key = 'router-destroyed-with-queued-actions:visGraph.size()==0'
            elif pending and txnoff and 'removeFromGraph' in key:
                key = 'router-destroyed-with-queued-actions:transactions-switched-off:Obstacle::removeFromGraph'
            vd.violation(key, '%s | mode=%d opts=%d ops=%s' % (what, mode, opts, ops), {'mode': mode, 'opts': opts, 'ops': ops, 'stderr_tail': txt[-3000:]})
        elif ex['index'] < nproto:
            good.append(ex)          # (the hyperedge scenarios are not behaviours of Lifecycle: sanitizers only)
    # leaks: LSan reports when a harness process exits, for everything that process ran.  An execution that was cut short by an exception
    # (a failed assertion is thrown in this build) leaves objects behind as a consequence, so the executions that ended cleanly are run
    # once more on their own, in one process, and only that process's exit report is read.  One finding per allocation site (the first
    # libavoid frame of each record); objects the client created are not attributed.
    clean = [ex['index'] for ex in execs if ex['end'] and ex['end'].get('e') == 'End' and ex['end'].get('ok', False)
             and not any('"error"' in l for l in ex['lines'])]
    sites = {}
    if clean:
        scen2 = os.path.join(d, 'scen_clean.txt')
        all_lines = open(scen).read().splitlines()
        open(scen2, 'w').write('\n'.join(all_lines[i] for i in clean) + '\n')
        LC.run_harness(hs, scen2, os.path.join(d, 'san_clean.ndjson'), len(clean), timeout=1500, env=env)
        for rep in LC.EXIT_REPORTS:
            for blk in re.split(r'\n(?=(?:Direct|Indirect) leak of )', rep):
                if not blk.startswith('Direct leak'):
                    continue
                fr = re.findall(r'#\d+ 0x[0-9a-f]+ in (Avoid::[A-Za-z_:~]+)', blk)
                if fr:
                    sites.setdefault(fr[0], blk[:900])
    ev.cov['executions_rerun_for_leaks'] = len(clean)
    for site, blk in sorted(sites.items()):
        vd.violation('lsan:leak:%s:libavoid' % site, 'libavoid leaks memory allocated in %s: %s' % (site, blk[:500].replace('\n', ' | ')), {'library': 'libavoid', 'report': blk})
    ev.cov['executions'] = len(execs)
    ev.cov['executions_cut_where_the_history_would_use_an_object_the_library_reported_deleted'] = sum(1 for ex in execs if ex['end'] and ex['end'].get('truncated'))
    ev.cov['executions_completed'] = len(good)
    # ---- B2: complete executions against the protocol
    tf = os.path.join(d, 'life.ndjson')
    with open(tf, 'w') as f:
        for ex in good:
            f.write('\n'.join(ex['lines']) + '\n')
    if good:
        rt = V.tlc(os.path.join(LC.SP, 'LifeTrace.tla'), os.path.join(LC.SP, 'LifeTrace.cfg'), env={'LIFETRACE': tf}, workers=1, timeout=2400, cont=True, mem='8g')
        ev.add_tlc('LifeTrace: %d complete executions against Lifecycle' % len(good), rt)
        if rt.post_failed or not rt.finished:
            m = re.findall(r'The depth of the complete state graph search is (\d+)', rt.out)
            depth = int(m[-1]) if m else 0
            lines = open(tf).read().splitlines()
            vd.violation('life-trace-rejected', 'execution is not a behaviour of Lifecycle.tla: matched %d lines, next: %s' % (depth, lines[depth - 1][:300] if 0 < depth <= len(lines) else '?'),
                         {'matched': depth, 'context': [x[:300] for x in lines[max(0, depth - 8):depth + 1]]})
        for inv, st in V.violating_states(rt):
            vd.violation('life-trace-invariant:' + inv, 'recorded execution violates %s' % inv, st)
    other_libraries(ev, vd, d, quick, rnd)
    ev.cov['traces_validated_against_impl'] = len(good)
    ev.cov['evaluations'] = len(execs)
    ev.cov['distinct_nontrivial'] = sum(1 for ex in execs if any(o[0] in (8, 9, 10, 12) for o in hists[ex['index']]))
    ev.cov['rule'] = ('executions = behaviours of Lifecycle.tla (2 shapes, pins from a catalogue, 1 junction, 3 connectors; create/modify/delete/process in every legal order, transactions on/off) '
                      'sampled by TLC simulation and replayed on an ASan+UBSan+LSan build; non-trivial = history deletes an object or registers a hyperedge')
    ev.sample({'ops': hists[0], 'first_lines': [json.loads(x) for x in execs[0]['lines'][:3]] if execs else []})
    ev.assumptions = ['memory errors / UB below object level are observed by the sanitizers on the replayed histories, not by the specification',
                      'object-level protocol and trace validation for libavoid; libvpsc, libcola, libtopology and libdialect are run under the same sanitizers through the harnesses of their own properties (no protocol model: build, use, tear down)']
    rc = vd.finish()
    ev.write()
    return rc
