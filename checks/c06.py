"""C06: incremental transactions give what routing from scratch gives."""
import json, os, random, re
import vcheck as V
from checks import route_common as RC

PID = 'C06'
SP = os.path.join(V.SPEC, 'avoid')


def gen_histories(d, n, hlen, steps, seed, quick, shapes_only=False):
    cfg = os.path.join(d, 'histgen.cfg')
    open(cfg, 'w').write('SPECIFICATION Spec\nCONSTANTS\n ShapeIds = {1, 2, 3}\n ConnIds = {1, 2}\n HLEN = %d\n MAXSTEPS = %d\n PACE = 3\n SHAPESONLY = %s\nINVARIANTS EmitHist\nCHECK_DEADLOCK FALSE\n' % (hlen, steps, 'TRUE' if shapes_only else 'FALSE'))
    r = V.tlc(os.path.join(SP, 'RouterApiMC.tla'), cfg, timeout=600, simulate='num=%d' % (n * 2), extra=['-depth', str(hlen + 2)], seedv=seed, workers=4)
    hs = V.emitted_histories(r.out)
    rnd = random.Random(seed)
    rnd.shuffle(hs)
    out = []
    for h in hs:
        ops = json.loads(h)
        # generator rule: a connector's two ends are never put on the same point (degenerate, outside the statement)
        ends = {1: [(1, 7), (13, 7)], 2: [(7, 1), (7, 13)]}
        ok = True
        rects = {}
        for o in ops:
            if o[0] == 4:
                ends[o[1]][o[2]] = (o[3], o[4])
                ok = ok and ends[o[1]][0] != ends[o[1]][1]
            # generator rule: shapes stay interior-disjoint (the statement's scenes), judged on the cumulative positions
            if o[0] == 1:
                rects[o[1]] = list(o[2:6])
            elif o[0] == 2 and o[1] in rects:
                q = rects[o[1]]
                rects[o[1]] = [q[0] + o[2], q[1] + o[3], q[2] + o[2], q[3] + o[3]]
            elif o[0] == 7 and o[1] in rects:
                rects[o[1]] = list(o[2:6])
            elif o[0] == 3:
                rects.pop(o[1], None)
            rs = list(rects.values())
            for i in range(len(rs)):
                for j in range(i + 1, len(rs)):
                    a, b = rs[i], rs[j]
                    if min(a[2], b[2]) > max(a[0], b[0]) and min(a[3], b[3]) > max(a[1], b[1]):
                        ok = False
        if ok:
            out.append(ops)
        if len(out) >= n:
            break
    return out, r


def butt_histories():
    """a shape that arrives between two touching neighbours (their corners lie inside its vertical sides): added in a later transaction,
    moved into place, resized into place, with transactions on and off.  Hand-written, but validated like every other history: the
    trace validation against RouterApi rejects a call sequence that is not a behaviour of the specification."""
    A, B, C = [2, 2, 6, 6], [6, 0, 8, 10], [8, 2, 12, 6]          # the way round B below is longer than the line between the corners at y = 6
    out = []
    for first, second in ((1, 2), (2, 1)):
        # connector 1 from the left of A to the right of C: its taut route runs along the lower sides of A and C, i.e. through where B will be
        base = [[4, 1, 0, 1, 5], [4, 1, 1, 13, 5], [1, first] + A, [1, second] + C, [5]]
        out.append(base + [[1, 3] + B, [5]])
        out.append(base + [[1, 3] + [6, 10, 8, 18], [5], [2, 3, 0, -10], [5]])                  # moved into place
        out.append(base + [[1, 3] + [6, 0, 8, 1], [5], [7, 3] + B, [5]])                        # resized into place
        out.append(base + [[6, 0], [1, 3] + B, [6, 1], [5]])                                    # transactions off for the add
        out.append(base + [[1, 3] + B, [5], [3, 3], [5], [1, 3] + B, [5]])                      # removed and added again
        out.append([[4, 1, 0, 1, 5], [4, 1, 1, 13, 5], [1, 3] + B, [5], [1, first] + A, [1, second] + C, [5], [2, 3, 0, 12], [5], [2, 3, 0, -12], [5]])   # away and back
    return out


def wall_histories():
    """a routed connector, an unrelated shape moved, then a wall across the connector together with a post that blocks the short way
    round it, then the post taken away again (deleted, or moved off): the connector "could take a shorter path after a shape is removed
    or moved away" -- the statement's own example, as a history of four transactions.  Both mirror images."""
    out = []
    for flip in (False, True):
        f = (lambda r: [r[0], 14 - r[3], r[2], 14 - r[1]]) if flip else (lambda r: r)
        by, wall, post = f([10, 10, 12, 12]), f([6, 2, 8, 13]), f([2, 0, 5, 7])
        pre = [[1, 1] + by, [5], [2, 1, 0, 2 if not flip else -2], [5], [1, 2] + wall, [1, 3] + post, [5]]
        out.append(pre + [[3, 3], [5]])
        out.append(pre + [[2, 3, 0, -8 if not flip else 8], [5]])
        out.append(pre + [[3, 3], [5], [5]])
        out.append([[1, 1] + by, [5], [1, 2] + wall, [1, 3] + post, [5], [2, 1, 0, 2 if not flip else -2], [5], [3, 3], [5]])
    return out


def inside_histories():
    """a connector end that lay inside a shape when it was last routed is moved out, to where that shape now stands between the two ends
    (the router keeps, per end, the set of shapes that contain it -- it has to be rebuilt when the end moves)"""
    B, C = [6, 0, 8, 10], [6, 10, 8, 16]
    out = []
    # connector 2 starts as (7,1)->(7,13): its source is inside B, its target inside C
    out.append([[1, 1] + B, [5], [4, 2, 0, 1, 7], [4, 2, 1, 13, 13], [5]])
    out.append([[1, 1] + B, [5], [4, 2, 0, 1, 5], [4, 2, 1, 13, 5], [5], [5]])
    out.append([[1, 1] + C, [5], [4, 2, 1, 13, 13], [4, 2, 0, 1, 13], [5]])
    out.append([[1, 1] + B, [1, 2] + [10, 4, 12, 8], [5], [4, 2, 0, 1, 5], [5], [4, 2, 1, 13, 5], [5]])
    out.append([[6, 0], [1, 1] + B, [4, 2, 0, 1, 5], [4, 2, 1, 13, 5], [6, 1], [5]])
    return out


def shared_edge_histories():
    """two connectors whose routes run over the same visibility edge (both go over the tops of two posts), then a shape lands across
    that edge: both have to be rerouted, not only the one that was routed first"""
    P, Q, B = [4, 1, 6, 10], [14, 0, 16, 10], [9, -2, 10, 2]
    ends = [[4, 1, 0, 0, 3], [4, 1, 1, 20, 3], [4, 2, 0, 0, 4], [4, 2, 1, 20, 4]]
    out = []
    out.append(ends + [[1, 1] + P, [1, 2] + Q, [5], [1, 3] + B, [5]])
    out.append(ends + [[1, 1] + P, [1, 2] + Q, [5], [1, 3] + [9, -12, 10, -8], [5], [2, 3, 0, 10], [5]])          # moved across the edge
    out.append(ends + [[1, 1] + P, [1, 2] + Q, [5], [6, 0], [1, 3] + B, [6, 1], [5]])                            # transactions off
    out.append([[1, 1] + P, [1, 2] + Q] + ends + [[5], [1, 3] + B, [5], [3, 3], [5]])                               # and taken away again
    return out


def trace_lines(h, res):
    lines = [{'e': 'Reset'}]
    stepat = {s['op']: s for s in res['steps']}
    names = {1: 'Add', 2: 'Move', 3: 'Delete', 4: 'End', 5: 'Process', 6: 'SetTxn', 7: 'Resize'}
    for i, o in enumerate(h, 1):
        ln = {'e': names[o[0]]}
        if o[0] in (1, 7):
            ln.update(s=o[1], r=o[2:6])
        elif o[0] == 2:
            ln.update(s=o[1], d=o[2:4])
        elif o[0] == 3:
            ln.update(s=o[1])
        elif o[0] == 4:
            ln.update(c=o[1], end=o[2], p=o[3:5])
        elif o[0] == 6:
            ln.update(b=bool(o[1]))
        if o[0] != 6:
            st = stepat.get(i)
            ln['rep'] = st is not None
            ln['scene'] = st['scene'] if st else []
        lines.append(ln)
        if res['thrown'] and i > max([0] + list(stepat)):
            break
    return lines


def main(tier):
    ev = V.Evidence(PID, tier)
    vd = V.Verdict(PID, ev)
    quick = tier == 'quick'
    hr, = V.build(['h_route'])
    d = V.rundir('c06')
    # ---- design level: the queue rules for every interleaving
    cfgm = os.path.join(d, 'mc.cfg')
    open(cfgm, 'w').write('SPECIFICATION Spec\nCONSTANTS\n ShapeIds = {1, 2}\n ConnIds = {1}\n HLEN = %d\n MAXSTEPS = %d\n PACE = 0\n SHAPESONLY = FALSE\nINVARIANTS QueueWellFormed SceneIsWhatWasAskedFor\nVIEW View\nCHECK_DEADLOCK FALSE\n'
                          % ((4, 2) if quick else (5, 3)))
    r = V.tlc(os.path.join(SP, 'RouterApiMC.tla'), cfgm, timeout=2400, mem='24g')
    ev.add_tlc('design: RouterApiMC, every interleaving of add/move/delete/move-endpoint/process/setTransactionUse', r)
    if r.violated:
        vd.violation('design:' + r.violated[0], 'RouterApi violates %s at design level' % r.violated[0], {'tlc_tail': r.out[-5000:]})
    # ---- B1: histories from the specification
    nh = 6000 if quick else 20000
    hists, rg = gen_histories(d, nh * 2 // 3, 18, 9, V.seed(), quick)
    hists2, rg2 = gen_histories(d, nh // 3, 18, 9, V.seed() + 1, quick, shapes_only=True)      # shapes only: long add/move/delete/process patterns
    hists += hists2
    ev.add_tlc('history generation (simulation of RouterApiMC)', rg)
    rnd = random.Random(V.seed())
    nsim = len(hists)
    hists = hists + butt_histories() * 2
    nwall0 = len(hists)
    hists = hists + wall_histories() * 2
    nins0 = len(hists)
    hists = hists + inside_histories() + shared_edge_histories()
    hf = os.path.join(d, 'hists.txt')
    cfgs = []
    with open(hf, 'w') as f:
        for hi_, h in enumerate(hists):
            mode = rnd.randint(0, 1)
            P = rnd.choice([0, 0, 3, 10]) if mode == 0 else rnd.choice([1, 10])
            if hi_ >= nsim:            # the butted-shape histories: polyline, once without and once with a segment penalty
                mode, P = 0, (0 if (hi_ - nsim) < len(butt_histories()) else 10)
            nconn = 1 if any(o[0] == 4 and o[1] == 2 for o in h) is False and rnd.random() < 0.5 else 2
            if hi_ >= nwall0:          # wall-and-post histories: one polyline connector, without and with a segment penalty
                mode, P, nconn = 0, (0 if (hi_ - nwall0) < len(wall_histories()) else 3), 1
            if hi_ >= nins0:           # end-formerly-inside-a-shape histories: polyline, both connectors
                mode, P, nconn = 0, 0, 2
            cfgs.append((mode, P, nconn))
            flat = [x for o in h for x in o]
            f.write('%d %d %d %d %s\n' % (mode, P, nconn, len(h), ' '.join(map(str, flat))))
    of = os.path.join(d, 'hists.json')
    rc, out = V.run([hr, 'hist', hf, of], timeout=1800)
    if rc != 0:
        V.harness_exit('h_route:hist', rc, out)
    res = json.load(open(of))
    LS = res['LS']
    # ---- B2a: call sequences + reported scenes against RouterApi
    tf = os.path.join(d, 'router.ndjson')
    nlines = 0
    with open(tf, 'w') as f:
        for h, rs in zip(hists, res['hists']):
            for ln in trace_lines(h, rs):
                f.write(json.dumps(ln) + '\n')
                nlines += 1
    rt = V.tlc(os.path.join(SP, 'RouterTrace.tla'), os.path.join(SP, 'RouterTrace.cfg'), env={'ROUTERTRACE': tf}, workers=1, timeout=1800, cont=True)
    ev.add_tlc('RouterTrace: %d histories (%d lines) against RouterApi' % (len(hists), nlines), rt)
    if rt.post_failed or not rt.finished:
        m = re.findall(r'The depth of the complete state graph search is (\d+)', rt.out)
        depth = int(m[-1]) if m else 0
        lines = open(tf).read().splitlines()
        vd.violation('router-trace-rejected', 'call history is not a behaviour of RouterApi (scene reported by the code differs): matched %d lines, next: %s' %
                     (depth, lines[depth - 1] if 0 < depth <= len(lines) else '?'), {'matched': depth, 'context': lines[max(0, depth - 12):depth + 1]})
    for inv, st in V.violating_states(rt):
        vd.violation('router-trace-invariant:' + inv, 'recorded history violates %s' % inv, st)
    ev.cov['traces_validated_against_impl'] = len(hists)
    # ---- B2b: per processing point, routes against scene and fresh router
    recs, meta = [], []
    for hi, (h, rs) in enumerate(zip(hists, res['hists'])):
        mode, P, nconn = cfgs[hi]
        if rs['thrown']:
            m = re.search(r'expression: (.*)', rs.get('what', ''))
            key = 'assertion:' + re.sub(r'[^A-Za-z0-9_>!=<-]+', '', m.group(1))[:60] if m else 'exception'
            vd.violation(key, 'history aborted by an exception: %s | ops=%s mode=%d' % (rs.get('what', '')[:200], h, mode), {'ops': h, 'mode': mode, 'P': P})
        for st in rs['steps']:
            polys = [[[p[0] * LS, p[1] * LS] for p in RC.rect_poly(q[1:])] for q in st['scene']]
            for ci, c in enumerate(st['conns']):
                recs.append({'mode': mode, 'thrown': False, 'P': P, 'polys': polys, 'src': [c['src'][0] * LS, c['src'][1] * LS], 'dst': [c['dst'][0] * LS, c['dst'][1] * LS],
                             'disp': c['disp'], 'iraw': [[p[0] // LS, p[1] // LS] for p in c['raw']], 'fraw': [[p[0] // LS, p[1] // LS] for p in c['fraw']],
                             'noopSame': st['noopSame'], 'exact': c['exact']})
                meta.append((hi, st['op'], ci))
    rf = os.path.join(d, 'inc_recs.json')
    json.dump({'chunk': 100, 'recs': recs}, open(rf, 'w'))
    ri = V.tlc(os.path.join(SP, 'RouteInc.tla'), os.path.join(SP, 'RouteInc.cfg'), env={'VALIDRECS': rf}, timeout=3000, cont=True, mem='24g')
    ev.add_tlc('RouteInc: %d (processing point, connector) records' % len(recs), ri)
    for inv, st in V.violating_states(ri):
        for (i, t) in st.get('bad', []):
            hi, op, ci = meta[i - 1]
            x = recs[i - 1]
            scene = [[[p[0] // LS, p[1] // LS] for p in sh] for sh in x['polys']]
            key = 'inc:' + t + (':polyline' if x['mode'] == 0 else ':orthogonal')
            if t.startswith('through-shape:crossing-only-at-shape-vertices') and not t.endswith('inside-its-vertical-sides') and x['mode'] == 0:    # scene order here is the router's list, not insertion order
                key = 'visibility:touching-shapes:segment-crosses-boundary-only-at-shape-vertices'
            if t == 'through-shape:via-two-of-its-vertices' and x['mode'] == 0:
                key = 'visibility:segment-through-two-collinear-shape-vertices'
            # class name only (the violation is the specification's): a connector end lies inside (or on the boundary of) a shape
            def _inside(pt):
                return any(min(p[0] for p in sh) <= pt[0] <= max(p[0] for p in sh) and min(p[1] for p in sh) <= pt[1] <= max(p[1] for p in sh) for sh in x['polys'])
            if x['mode'] == 1 and t in ('through-shape', 'costlier-than-fresh-router') and (_inside(x['src']) or _inside(x['dst'])):
                key += ':an-end-lies-inside-a-shape'
            # class name only: the fresh route is LONGER than the kept one and wins only by having fewer bends (segment penalty > 0)
            def _bends(rt):
                pts = [p for i, p in enumerate(rt) if i == 0 or p != rt[i - 1]]
                return sum(1 for a, b, c in zip(pts, pts[1:], pts[2:]) if (b[0] - a[0]) * (c[1] - b[1]) - (b[1] - a[1]) * (c[0] - b[0]) != 0 or (b[0] - a[0]) * (c[0] - b[0]) + (b[1] - a[1]) * (c[1] - b[1]) <= 0)
            def _len(rt):
                return sum(((a[0] - b[0]) ** 2 + (a[1] - b[1]) ** 2) ** 0.5 for a, b in zip(rt, rt[1:]))
            if x['mode'] == 0 and t == 'costlier-than-fresh-router' and x['P'] > 0 and _bends(x['fraw']) < _bends(x['iraw']) and _len(x['fraw']) > _len(x['iraw']) + 1e-9:
                key += ':fresh-route-is-longer-with-fewer-bends'
            vd.violation(key,
                         '%s after op %d of history %s (mode=%d P=%d): scene=%s %s->%s incremental=%s fresh=%s' %
                         (t, op, hists[hi], x['mode'], x['P'], [RC.poly_rect(s) for s in scene], [v // LS for v in x['src']], [v // LS for v in x['dst']], x['iraw'], x['fraw']),
                         {'ops': hists[hi], 'mode': x['mode'], 'P': x['P'], 'after_op': op, 'conn': ci + 1, 'incremental': x['iraw'], 'fresh': x['fraw']})
    ev.cov['evaluations'] = len(recs)
    ev.cov['distinct_nontrivial'] = sum(1 for x in recs if len(x['iraw']) > 2)
    ev.cov['rule'] = ('histories = behaviours of RouterApiMC (3 shapes from a rectangle catalogue, 2 connectors, add/move/resize (absolute move)/delete/move-endpoint/process/setTransactionUse, '
                      'documented preconditions as enabling conditions) sampled by TLC simulation; records = (processing point, connector); non-trivial = incremental route with a bend')
    ev.sample({'history_ops': hists[0], 'first_step': res['hists'][0]['steps'][:1]})
    ev.assumptions = ['routes compared by cost intervals at 2^-11 (exact for orthogonal routes)', 'rectangular shapes only; PartialFeedback/RubberBand/clusters not generated']
    rc = vd.finish()
    ev.write()
    return rc
